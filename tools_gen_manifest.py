"""Regenerate MANIFEST.json from srcheck/props.py (run: /venv/bin/python tools_gen_manifest.py)."""
import json
from srcheck import props

NA = []  # every property has at least one clause decided statically (DESIGN.md section 10 lists what is declined)

checks = []
for pid, rules in props.PROPERTY_RULES.items():
    info = props.PROPERTY_INFO[pid]
    names = [r for r, _s in rules]
    checks.append({
        "property_id": pid,
        "quick_cmd": f"./check {pid} --tier quick",
        "thorough_cmd": f"./check {pid} --tier thorough",
        "evidence_file": f"/verif/evidence/{pid}.json",
        "replay_cmd_template": "./check --replay {path}",
        "engine": "srcheck",
        "technique": "static analysis: custom ast-based rules (" + ", ".join(names[:6]) + (", ..." if len(names) > 6 else "") + ") over the resolved program - dataflow/copy propagation, polynomial normal forms, path enumeration, taint and freshness summaries; nothing is executed",
        "level_claimed": {
            "category": "other",
            "text": info["explanation"] + " PARTIAL claim. Decided for every input at once (facts about the program): " + "; ".join(info["decided"]) + ". NOT decided: " + "; ".join(info["not_decided"]) + ".",
            "design_ref": "DESIGN.md sections 3 and 4 (" + pid + ")",
        },
        "level_note": "Trusted: CPython ast; the analysed text is what runs (editable install, no monkey-patching); a small fact table about ete3/infinity/tqdm/itertools; srcheck itself (validated by the mutant/twin self-test of the thorough tier and by the seeded changes under /verif/seeded). Rules decide necessary conditions only; the thorough tier adds an in-memory mutation self-test whose gaps are reported but never change the verdict.",
    })

manifest = {
    "version": 1,
    "setup_cmd": "/venv/bin/python -c \"import ast, sys; assert sys.version_info >= (3, 11)\" && /venv/bin/python -m srcheck --list > /dev/null",
    "hooks": {
        "guard": "SUPERREC2_VERIF",
        "enable": "none needed: the checks read /repo/src/superrec2 as text (root overridable with SUPERREC2_SRC) and never import or run it",
        "baseline_off_cmd": "cd /repo && /venv/bin/python -m pytest -ra -q -p no:cacheprovider --timeout=900 --continue-on-collection-errors",
        "source_commits": [],
        "add_only": True,
    },
    "engines": [
        {
            "name": "srcheck",
            "path": "/verif/srcheck",
            "serves_properties": list(props.PROPERTY_RULES),
            "kind_free_text": "repository-specific static analyser on the Python standard library (ast): program model, call graph, structured control flow and reaching definitions, polynomial normal forms, sigma transposition, template skeletons, taint/freshness summaries; rule catalogue in DESIGN.md section 3",
        }
    ],
    "checks": checks,
    "not_applicable": NA,
    "notes": "Technique family: static analysis only. Every check re-parses /repo's working tree on each run. exit 0 = all rule obligations discharged; exit 1 + VIOLATION line = a rule instance is violated (construct named in the replay JSON); exit 2 + ANALYSIS-ERROR = an anchor vanished or an idiom is not recognised (never a pass). Eight genuine defects found on the pinned tree were repaired by fix: commits in /repo (known_findings.txt).",
}
json.dump(manifest, open("MANIFEST.json", "w"), indent=1)
print("checks:", len(checks))
