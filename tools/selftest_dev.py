#!/venv/bin/python
"""Development aid: run the in-memory mutant/twin self-test for all properties and list gaps / inapplicable variants."""
import os, sys
sys.path.insert(0, os.path.dirname(os.path.dirname(os.path.abspath(__file__))))
from srcheck import mutate, props
from srcheck.core import Program

prog = Program()
seen_gap = set()
covered = set()
inapp = set()
for pid in props.PROPERTY_RULES:
    r = mutate.run_selftest(pid, prog)
    for g in r["gaps"]:
        if g not in seen_gap:
            seen_gap.add(g)
            print(pid, "GAP", g[:300])
    for row in r["matrix"]:
        if row["kind"] == "mutant" and row["fired"]:
            covered.add(row["variant"])
    inapp |= set(r["inapplicable"])
    print(pid, r["mutants"], r["mutants_flagged"], r["twins"], r["twins_silent"])
allm = {v.name for v in mutate.VARIANTS if not v.twin}
print("mutants never exercised by any property:", sorted(allm - covered - inapp))
print("inapplicable:", sorted(inapp))
