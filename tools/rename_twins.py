#!/venv/bin/python
"""Robustness probe: behaviour-preserving bulk rewrites of every module must leave every rule silent.

For each module of the package, one variant renames every function-local variable (names bound inside a function
that are neither parameters, nor global/nonlocal, nor used as keyword names) to `<name>_rn`; every rule of every
property is then run on the variant.  Any finding or analysis error is a robustness gap of a rule (it depends on
a spelling), to be fixed in the rule.  Development aid, not registered in MANIFEST.json.
"""
import ast
import os
import sys
from concurrent.futures import ProcessPoolExecutor

sys.path.insert(0, os.path.dirname(os.path.dirname(os.path.abspath(__file__))))
from srcheck import props  # noqa: E402
from srcheck.core import AnalysisError, Program  # noqa: E402


class Renamer(ast.NodeTransformer):
    def __init__(self):
        self.stack = []

    def _locals(self, fn):
        params = {a.arg for a in fn.args.posonlyargs + fn.args.args + fn.args.kwonlyargs}
        if fn.args.vararg:
            params.add(fn.args.vararg.arg)
        if fn.args.kwarg:
            params.add(fn.args.kwarg.arg)
        bound, banned = set(), set(params)
        for node in ast.walk(fn):
            if node is not fn and isinstance(node, (ast.FunctionDef, ast.AsyncFunctionDef, ast.Lambda, ast.ClassDef)):
                # names shared with nested scopes stay as they are
                for sub in ast.walk(node):
                    if isinstance(sub, ast.Name):
                        banned.add(sub.id)
                if hasattr(node, "name"):
                    banned.add(node.name)
            if isinstance(node, (ast.Global, ast.Nonlocal)):
                banned.update(node.names)
            if isinstance(node, ast.Name) and isinstance(node.ctx, (ast.Store, ast.Del)):
                bound.add(node.id)
        return {n for n in bound - banned if not n.startswith("_")}

    def visit_FunctionDef(self, node):
        if self.stack:
            return node  # nested functions are left alone
        names = self._locals(node)
        self.stack.append(names)
        node.body = [self.visit(st) for st in node.body]
        self.stack.pop()
        return node

    visit_AsyncFunctionDef = visit_FunctionDef

    def visit_Lambda(self, node):
        return node

    def visit_ClassDef(self, node):
        node.body = [self.visit(st) for st in node.body]
        return node

    def visit_Name(self, node):
        if self.stack and node.id in self.stack[-1]:
            return ast.copy_location(ast.Name(id=node.id + "_rn", ctx=node.ctx), node)
        return node


def variant(src):
    tree = ast.parse(src)
    tree = Renamer().visit(tree)
    ast.fix_missing_locations(tree)
    return ast.unparse(tree)


def probe(args):
    root, relpath, new_src = args
    out = []
    try:
        compile(new_src, relpath, "exec")
        prog = Program(root, {relpath: new_src})
    except Exception as err:  # noqa: BLE001
        return [(relpath, "*", f"variant invalid: {err}")]
    for name, fn in props.RULES.items():
        try:
            res = fn(prog)
            for f in res.findings:
                out.append((relpath, name, f"FINDING {f.construct}: {f.message[:120]}"))
        except AnalysisError as err:
            out.append((relpath, name, f"ANALYSIS-ERROR {str(err)[:160]}"))
        except Exception as err:  # noqa: BLE001
            out.append((relpath, name, f"CRASH {type(err).__name__}: {str(err)[:120]}"))
    return out


def main():
    prog = Program()
    tasks = []
    for mod in prog.modules.values():
        if not mod.src.strip():
            continue
        new_src = variant(mod.src)
        if new_src != ast.unparse(ast.parse(mod.src)):
            tasks.append((prog.root, mod.relpath, new_src))
    print(f"{len(tasks)} renamed-locals variants")
    n = 0
    with ProcessPoolExecutor(max_workers=16) as pool:
        for rows in pool.map(probe, tasks):
            for relpath, rule, msg in rows:
                n += 1
                print(f"{relpath:45s} {rule:22s} {msg}")
    print(f"{n} gaps")
    return 0


if __name__ == "__main__":
    sys.exit(main())
