#!/venv/bin/python
"""Confirm a sub-agent's seeded change in a scratch worktree and keep it under /verif/seeded/<ID>-<k>/.

    /venv/bin/python tools/seeded_import.py /tmp/wt_out/C15/1 [...]

For each directory (patch.diff, demo.py, meta.json) the following is confirmed in a scratch git worktree of
/repo's HEAD (removed afterwards):
  1. demo.py exits 0 on the unmodified tree
  2. the patch applies
  3. demo.py exits non-zero with the patch
  4. the existing test suite (minus the two TeX-dependent tests) passes with the patch
Only then is the change copied, with what was run recorded in meta.json.
"""
from __future__ import annotations

import json
import os
import shutil
import subprocess
import sys
import tempfile

SUITE = (
    "{py} -m pytest -q -p no:cacheprovider -x --timeout=900 "
    "--deselect tests/render/test_draw.py::test_fixtures --deselect tests/utils/test_tex.py::test_measure"
)


def run(cmd, cwd, env=None, timeout=1800):
    try:
        r = subprocess.run(cmd, shell=True, cwd=cwd, env=env, capture_output=True, text=True, timeout=timeout)
        return r.returncode, (r.stdout + r.stderr)[-1500:]
    except subprocess.TimeoutExpired:
        return 124, "timeout"


def main() -> int:
    args = sys.argv[1:]
    suffix = ""
    wtroot = "/tmp/wt"
    if args and args[0] == "--round":
        # e.g. --round 2  -> ids <prop>-2<k>, agents worked in /tmp/wt<round>/<prop>
        suffix = args[1]
        wtroot = f"/tmp/wt{args[1]}"
        args = args[2:]
    dirs = args
    wt = tempfile.mkdtemp(prefix="seedverify_", dir="/tmp")
    os.rmdir(wt)
    subprocess.run(f"git -C /repo worktree add --detach {wt} HEAD", shell=True, check=True, capture_output=True)
    env = dict(os.environ, PYTHONPATH=os.path.join(wt, "src"))
    py = "/venv/bin/python"
    kept = 0
    try:
        for d in dirs:
            d = d.rstrip("/")
            prop = os.path.basename(os.path.dirname(d))
            k = os.path.basename(d)
            sid = f"{prop}-{suffix}{k}" if suffix else f"{prop}-{k}"
            patch, demo = os.path.join(d, "patch.diff"), os.path.join(d, "demo.py")
            if not (os.path.isfile(patch) and os.path.isfile(demo)):
                print(f"{sid}: incomplete (patch.diff / demo.py missing)")
                continue
            # demos written by the agents may hard-code their own worktree path: run them from a copy
            demo_src = open(demo).read().replace(f"{wtroot}/{prop}", wt)
            demo_tmp = os.path.join(wt, "_seed_demo.py")
            open(demo_tmp, "w").write(demo_src)
            ran = []
            rc0, out0 = run(f"{py} {demo_tmp}", wt, env)
            ran.append({"cmd": "demo.py on the unmodified tree", "exit": rc0})
            rc_apply, out_apply = run(f"git apply {patch}", wt)
            ran.append({"cmd": "git apply patch.diff", "exit": rc_apply})
            rc1 = rct = None
            out1 = outt = ""
            if rc_apply == 0:
                rc1, out1 = run(f"{py} {demo_tmp}", wt, env)
                ran.append({"cmd": "demo.py with the patch", "exit": rc1, "tail": out1[-300:]})
                rct, outt = run(SUITE.format(py=py), wt, env)
                ran.append({"cmd": "existing test suite with the patch", "exit": rct, "tail": outt.strip().splitlines()[-1:] })
            os.remove(demo_tmp)
            run("git checkout -- . && git clean -fdq", wt)
            ok = rc0 == 0 and rc_apply == 0 and rc1 not in (0, None) and rct == 0
            print(f"{sid}: clean-demo={rc0} apply={rc_apply} patched-demo={rc1} suite={rct} -> {'KEEP' if ok else 'REJECT'}")
            if not ok:
                if rc0 != 0:
                    print("   clean demo output:", out0[-300:])
                if rct not in (0, None):
                    print("   suite:", outt[-300:])
                continue
            dest = os.path.join("/verif/seeded", sid)
            os.makedirs(dest, exist_ok=True)
            shutil.copy(patch, os.path.join(dest, "patch.diff"))
            open(os.path.join(dest, "demo.py"), "w").write(open(demo).read())
            meta = {}
            if os.path.exists(os.path.join(d, "meta.json")):
                try:
                    meta = json.load(open(os.path.join(d, "meta.json")))
                except Exception:  # noqa: BLE001
                    meta = {"summary": "meta.json of the sub-agent was not valid JSON"}
            meta["property"] = prop
            meta["origin"] = "written by a fresh sub-agent that saw only the property text and its own scratch worktree"
            meta["confirmed"] = ran
            meta["how_to_run_demo"] = (
                "in a checkout of /repo with the patch applied: PYTHONPATH=<checkout>/src /venv/bin/python demo.py "
                f"(paths {wtroot}/{prop} inside demo.py refer to the sub-agent's scratch worktree; replace them)"
            )
            json.dump(meta, open(os.path.join(dest, "meta.json"), "w"), indent=1)
            kept += 1
    finally:
        subprocess.run(f"git -C /repo worktree remove --force {wt}", shell=True, capture_output=True)
    print(f"kept {kept} of {len(dirs)}")
    return 0


if __name__ == "__main__":
    sys.exit(main())
