#!/bin/bash
for i in 01 02 03 04 05 06 07 08 09 10 11 12 13 14 15 16 17 18 19 20; do
  /usr/bin/time -f "C$i wall %e s" ./check C$i --tier thorough > /tmp/thorough_C$i.log 2>&1
  echo "C$i exit $? $(grep -c SELFTEST-GAP /tmp/thorough_C$i.log) gaps; $(tail -1 /tmp/thorough_C$i.log | cut -c1-150)"
done
