#!/venv/bin/python
"""Systematic single-edit mutation sweep over the package (development aid, not a registered check).

Stage 1 (static): every generic mutant (operator flips, constant +-1, argument swaps, and/or, dropped `not`,
deleted statement, left<->right identifier swaps) of every module is analysed in memory by every rule; the rules
that report a NEW finding are recorded.
Stage 2 (dynamic, optional `--tests`): mutants that no rule reports are written into a scratch copy of the
package and the pinned test suite is run against them; a mutant that the suite also accepts is a candidate gap
(or an equivalent mutant) and is listed for triage.

    /venv/bin/python tools/mutation_sweep.py --out findings/mutation_sweep.json [--tests] [--only compute/]
"""
from __future__ import annotations

import argparse
import ast
import copy
import json
import os
import shutil
import subprocess
import sys
import tempfile
from concurrent.futures import ProcessPoolExecutor
from typing import Dict, List, Optional, Tuple

sys.path.insert(0, os.path.dirname(os.path.dirname(os.path.abspath(__file__))))
from srcheck import props  # noqa: E402
from srcheck.core import AnalysisError, Program  # noqa: E402

from srcheck.sweep import SKIP_FILES, enumerate_mutants  # noqa: E402


def baseline(root: str) -> Dict[str, set]:
    prog = Program(root)
    out = {}
    for name, fn in props.RULES.items():
        try:
            out[name] = {f.construct for f in fn(prog).findings}
        except AnalysisError:
            out[name] = set()
    return out


def analyse(args):
    root, relpath, desc, line, new_src, base = args
    fired, errors = [], []
    try:
        prog = Program(root, {relpath: new_src})
    except AnalysisError as err:
        return {"file": relpath, "line": line, "op": desc, "fired": [], "errors": [str(err)[:100]]}
    for name, fn in props.RULES.items():
        try:
            res = fn(prog)
            if any(f.construct not in base.get(name, ()) for f in res.findings):
                fired.append(name)
        except AnalysisError:
            errors.append(name)
        except Exception as err:  # noqa: BLE001
            errors.append(f"{name}:CRASH:{type(err).__name__}")
    return {"file": relpath, "line": line, "op": desc, "fired": fired, "errors": errors}


def run_tests(args):
    repo, relpath, new_src, idx = args
    work = tempfile.mkdtemp(prefix="sweep_", dir="/tmp")
    try:
        shutil.copytree(os.path.join(repo, "src"), os.path.join(work, "src"))
        shutil.copytree(os.path.join(repo, "tests"), os.path.join(work, "tests"))
        for extra in ("pyproject.toml", "setup.cfg", "setup.py", "conftest.py", "pytest.ini", "tox.ini"):
            if os.path.exists(os.path.join(repo, extra)):
                shutil.copy(os.path.join(repo, extra), work)
        with open(os.path.join(work, "src", "superrec2", relpath), "w", encoding="utf8") as handle:
            handle.write(new_src)
        env = dict(os.environ, PYTHONPATH=os.path.join(work, "src"))
        cmd = (
            "/venv/bin/python -m pytest -q -x -p no:cacheprovider --timeout=120 "
            "--deselect tests/render/test_draw.py::test_fixtures --deselect tests/utils/test_tex.py::test_measure"
        )
        try:
            r = subprocess.run(cmd, shell=True, cwd=work, env=env, capture_output=True, text=True, timeout=600)
            return idx, r.returncode == 0
        except subprocess.TimeoutExpired:
            return idx, False
    finally:
        shutil.rmtree(work, ignore_errors=True)


def main() -> int:
    ap = argparse.ArgumentParser()
    ap.add_argument("--repo", default="/repo")
    ap.add_argument("--out", default="/verif/findings/mutation_sweep.json")
    ap.add_argument("--only", default="")
    ap.add_argument("--tests", action="store_true")
    ap.add_argument("--jobs", type=int, default=16)
    ap.add_argument("--limit", type=int, default=0)
    args = ap.parse_args()
    root = os.path.join(args.repo, "src", "superrec2")
    prog = Program(root)
    base = {k: sorted(v) for k, v in baseline(root).items()}
    tasks = []
    sources = {}
    for mod in sorted(prog.modules.values(), key=lambda m: m.relpath):
        if mod.relpath.endswith(SKIP_FILES) or not mod.src.strip():
            continue
        if args.only and not mod.relpath.startswith(args.only):
            continue
        for desc, line, new in enumerate_mutants(mod.src):
            tasks.append((root, mod.relpath, desc, line, new, base))
    if args.limit:
        tasks = tasks[:: max(1, len(tasks) // args.limit)]
    print(f"{len(tasks)} mutants", flush=True)
    with ProcessPoolExecutor(max_workers=args.jobs) as pool:
        rows = list(pool.map(analyse, tasks, chunksize=4))
    for row, task in zip(rows, tasks):
        sources[id(row)] = task[4]
    caught = [r for r in rows if r["fired"]]
    stopped = [r for r in rows if not r["fired"] and r["errors"]]
    silent = [r for r in rows if not r["fired"] and not r["errors"]]
    print(f"static: {len(caught)} flagged, {len(stopped)} stopped with an analysis error, {len(silent)} silent", flush=True)
    if args.tests:
        todo = [(args.repo, r["file"], sources[id(r)], i) for i, r in enumerate(rows) if not r["fired"]]
        print(f"running the pinned suite on {len(todo)} unflagged mutants", flush=True)
        with ProcessPoolExecutor(max_workers=args.jobs) as pool:
            for idx, passed in pool.map(run_tests, todo, chunksize=1):
                rows[idx]["suite_passes"] = passed
        surv = [r for r in rows if r.get("suite_passes")]
        print(f"{len(surv)} unflagged mutants also pass the suite", flush=True)
    summary: Dict[str, Dict[str, int]] = {}
    for r in rows:
        s = summary.setdefault(r["file"], {"mutants": 0, "flagged": 0, "analysis_error": 0, "silent": 0, "silent_and_suite_passes": 0})
        s["mutants"] += 1
        if r["fired"]:
            s["flagged"] += 1
        elif r["errors"]:
            s["analysis_error"] += 1
        else:
            s["silent"] += 1
        if r.get("suite_passes") and not r["fired"] and not r["errors"]:
            s["silent_and_suite_passes"] += 1
    json.dump({"summary": summary, "mutants": rows}, open(args.out, "w"), indent=1)
    for f, s in summary.items():
        print(f"{f:45s} {s}")
    return 0


if __name__ == "__main__":
    sys.exit(main())
