#!/venv/bin/python
"""Regenerate section 4 of DESIGN.md from srcheck/props.py (PROPERTY_RULES, PROPERTY_INFO).

    /venv/bin/python tools/gen_design_section4.py        (rewrites DESIGN.md in place)
"""
import json
import os
import sys

ROOT = os.path.dirname(os.path.dirname(os.path.abspath(__file__)))
sys.path.insert(0, ROOT)
from srcheck import props  # noqa: E402

PINNED = {
    "C01": "defects F1 F2 F3 (§9), repaired.",
    "C02": "defects F4 (§9), repaired.",
    "C03": "defects F5 (§9), repaired.",
    "C04": "defects F1 F4 F5 (shared) (§9), repaired.",
    "C05": "defects F3 F6 (shared) (§9), repaired.",
    "C12": "defects F7 (§9), repaired.",
    "C15": "defects F8 (§9), repaired.",
    "C16": "defects F6 (§9), repaired.",
}

titles = {}
for line in open(os.path.join(ROOT, "properties.jsonl"), encoding="utf8"):
    p = json.loads(line)
    titles[p["id"]] = p["title"]

out = []
for pid, rules in props.PROPERTY_RULES.items():
    info = props.PROPERTY_INFO[pid]
    out.append(f"### {pid} {titles[pid]} — partial")
    out.append("* Rules: " + ", ".join(r for r, _s in rules) + ".")
    out.append("* Decided:")
    out.extend(f"  - {d}" for d in info["decided"])
    out.append("* Not decided:")
    out.extend(f"  - {d}" for d in info["not_decided"])
    out.append("* Pinned tree: " + PINNED.get(pid, "holds."))
    out.append("")

path = os.path.join(ROOT, "DESIGN.md")
text = open(path, encoding="utf8").read()

# ---- section 0: overview table
VERDICT = {
    "C01": "**3 genuine defects** (F1 F2 F3) → fixed",
    "C02": "**1 defect** (F4) → fixed",
    "C03": "**1 defect** (F5) → fixed",
    "C04": "F1 F4 F5 (shared)",
    "C05": "F3 F6 (shared)",
    "C12": "**1 defect** (F7) → fixed",
    "C15": "**1 defect** (F8) → fixed",
    "C16": "**1 defect** (F6) → fixed",
}
rows = ["| id | claim | rules (§3), scoped to the code the property is about | verdict on pinned tree (§9) |", "|----|-------|-----------|------------------------------|"]
for pid, rules in props.PROPERTY_RULES.items():
    rows.append(f"| {pid} | partial | {', '.join(r for r, _s in rules)} | {VERDICT.get(pid, 'holds')} |")
t0 = text.index("| id | claim |", text.index("## 0. Overview table"))
t1 = text.index('"partial" always means', t0)
text = text[:t0] + "\n".join(rows) + "\n\n" + text[t1:]
start = text.index("### C01 ", text.index("## 4. Per-property decisions"))
end = text.index("## 5. Verdict protocol")
sep = "---------------------------------------------------------------------------\n\n"
tail = text[end:]
head = text[:start]
body = "\n".join(out) + "\n"
# keep the horizontal rule that precedes section 5 if there was one
between = text[start:end]
rule = sep if between.rstrip().endswith("-" * 20) else ""
open(path, "w", encoding="utf8").write(head + body + rule + tail)
print("section 4 regenerated:", len(out), "lines")
