#!/venv/bin/python
"""Robustness probe: behaviour-preserving rewrites of every module must leave every rule silent.

Companion of rename_twins.py / rename_params.py.  For each module of the package and each of the rewrites below,
one variant applies the rewrite at EVERY site of the module where it is applicable; every rule is then run on the
variant.  A finding on such a variant is a false alarm of the rule (it depends on a spelling); an analysis error
is a shape the extractor does not understand (fail-closed, less serious, still worth widening).

    flip-eq        a == b            ->  b == a               (also !=)
    flip-order     a < b             ->  b > a                (also <=, >, >=; single comparisons)
    invert-if      if c: A else: B   ->  if not c: B else: A  (statements and conditional expressions)
    ne-as-not-eq   a != b            ->  not a == b           (also `is not` -> not ... is)
    aug-expand     n += e            ->  n = n + e            (only names initialised with a number)
    return-local   return <expr>     ->  rv = <expr>; return rv
    kw-calls       f(a, b)           ->  f(p=a, q=b)          (calls of module-level functions of the package
                                                               whose name is unique in the package)
    guard-to-nested / nested-to-guard   `if c: continue` at the top of a loop body  <->  the rest nested under `if not c`
    ifexp-to-stmt  x = a if c else b ->  if c: x = a else: x = b
    tuple-split    a, b = x, y       ->  a = x; b = y         (no target read by a value)
    arg-to-local   f(g(x), ..)       ->  t = g(x); f(t, ..)   (first argument of a plain call statement / assignment)
    in-tuple-to-or x in (a, b)       ->  x == a or x == b
    de-morgan      not (a or b)      ->  not a and not b;  if a and b  ->  if not (not a or not b)
    else-after-exit / no-else-after-exit   `if c: return ..; REST`  <->  `if c: return ..  else: REST`
    return-ifexp   return a if c else b  ->  if c: return a; return b
    self-aug-expand  self.n -= 1     ->  self.n = self.n - 1
    comprehension-forms / comprehension-calls   set(x for ..) <-> {x for ..}, list(..) <-> [..], dict((k, v) for ..) <-> {k: v for ..}
    swap-independent   x = <pure>; y = <pure>  ->  y = <pure>; x = <pure>
    annotate-locals   x = e  ->  x: object = e ;  add-asserts   a tautological assert on the first parameter at the top of every function
    modern-annotations  Optional[X] -> X | None, Union[A, B] -> A | B, List[X] -> list[X] ... inside annotations (pyupgrade)
    small-idioms   chained comparison split, tuple <-> list literals in `for` / `in`, dict() / list() / tuple() -> displays
    empty-displays-to-calls   {} -> dict(), [] -> list()
    ete-synonyms   traverse("s") -> traverse(strategy="s"), iter_X() <-> get_X() in iterations, x.is_leaf() -> not x.children
    lambda-to-def  a lambda in a statement of a function body -> a local def just before it
    minmax-forms   v = min(v, e) -> if e < v: v = e; min(a, b) -> a if a <= b else b / min([a, b])
    extract-helper an arithmetic / boolean / conditional value of a return or assignment -> module-level helper over the locals it reads
    comprehension-to-loop  x = [E for v in it if c] -> x = []; for v in it: if c: x.append(E) (also sets, dicts, returns)
    import-style   relative package imports <-> absolute ones
    fstring-to-format  f"{a}x{b}" -> "{}x{}".format(a, b)
    hoist-strings  a string literal used twice in the functions of a module becomes a module-level constant
    extract-alias  .. x.costs[a] .. x.costs[b] ..  ->  alias = x.costs; .. alias[a] .. alias[b] ..
    inline-alias   c = x.costs; .. c[k] ..  ->  .. x.costs[k] ..   (top-level local bound once to an attribute chain of a parameter)

    /venv/bin/python tools/equiv_probe.py [--only flip-eq,...] [--module utils/trees.py] [--sites]

`--sites` applies each rewrite at one site at a time for the (module, rewrite) pairs that show a gap, to name the
site.  Development aid, not registered in MANIFEST.json.
"""
import argparse
import ast
import copy
import os
import sys
from concurrent.futures import ProcessPoolExecutor

sys.path.insert(0, os.path.dirname(os.path.dirname(os.path.abspath(__file__))))
from srcheck import props  # noqa: E402
from srcheck.core import AnalysisError, Program  # noqa: E402

FLIP = {ast.Lt: ast.Gt, ast.Gt: ast.Lt, ast.LtE: ast.GtE, ast.GtE: ast.LtE}


class Rewrite(ast.NodeTransformer):
    """applies `self.apply(node)` at every applicable site, or only at site number `only`"""

    def __init__(self, only=None):
        self.only = only
        self.count = 0

    def hit(self) -> bool:
        self.count += 1
        return self.only is None or self.count - 1 == self.only


class FlipEq(Rewrite):
    def visit_Compare(self, node):
        node = self.generic_visit(node)
        if len(node.ops) == 1 and isinstance(node.ops[0], (ast.Eq, ast.NotEq)) and self.hit():
            return ast.Compare(left=node.comparators[0], ops=node.ops, comparators=[node.left])
        return node


class FlipOrder(Rewrite):
    def visit_Compare(self, node):
        node = self.generic_visit(node)
        if len(node.ops) == 1 and type(node.ops[0]) in FLIP and self.hit():
            return ast.Compare(left=node.comparators[0], ops=[FLIP[type(node.ops[0])]()], comparators=[node.left])
        return node


def _neg(test):
    if isinstance(test, ast.UnaryOp) and isinstance(test.op, ast.Not):
        return test.operand
    return ast.UnaryOp(op=ast.Not(), operand=test)


class InvertIf(Rewrite):
    def visit_If(self, node):
        node = self.generic_visit(node)
        if node.orelse and self.hit():
            return ast.If(test=_neg(node.test), body=node.orelse, orelse=node.body)
        return node

    def visit_IfExp(self, node):
        node = self.generic_visit(node)
        if self.hit():
            return ast.IfExp(test=_neg(node.test), body=node.orelse, orelse=node.body)
        return node


class NeAsNotEq(Rewrite):
    def visit_Compare(self, node):
        node = self.generic_visit(node)
        if len(node.ops) == 1 and isinstance(node.ops[0], (ast.NotEq, ast.IsNot)) and self.hit():
            op = ast.Eq() if isinstance(node.ops[0], ast.NotEq) else ast.Is()
            return ast.UnaryOp(op=ast.Not(), operand=ast.Compare(left=node.left, ops=[op], comparators=node.comparators))
        return node


class AugExpand(Rewrite):
    def __init__(self, only=None):
        super().__init__(only)
        self.numeric = [set()]

    def visit_FunctionDef(self, node):
        nums = set()
        for st in ast.walk(node):
            if isinstance(st, ast.Assign) and isinstance(st.value, ast.Constant) and isinstance(st.value.value, (int, float)) and not isinstance(st.value.value, bool):
                nums.update(t.id for t in st.targets if isinstance(t, ast.Name))
        self.numeric.append(nums)
        node = self.generic_visit(node)
        self.numeric.pop()
        return node

    def visit_AugAssign(self, node):
        if isinstance(node.target, ast.Name) and node.target.id in self.numeric[-1] and isinstance(node.op, (ast.Add, ast.Sub)) and self.hit():
            return ast.Assign(
                targets=[ast.Name(id=node.target.id, ctx=ast.Store())],
                value=ast.BinOp(left=ast.Name(id=node.target.id, ctx=ast.Load()), op=node.op, right=node.value),
            )
        return node


class ReturnLocal(Rewrite):
    def _block(self, stmts):
        out = []
        for st in stmts:
            st = self.visit(st)
            if isinstance(st, ast.Return) and st.value is not None and not isinstance(st.value, (ast.Name, ast.Constant)) and self.hit():
                out.append(ast.Assign(targets=[ast.Name(id="rv_eq", ctx=ast.Store())], value=st.value))
                out.append(ast.Return(value=ast.Name(id="rv_eq", ctx=ast.Load())))
            else:
                out.append(st)
        return out

    def generic_visit(self, node):
        for fname in ("body", "orelse", "finalbody"):
            blk = getattr(node, fname, None)
            if isinstance(blk, list) and blk and isinstance(blk[0], ast.stmt):
                setattr(node, fname, self._block(blk))
        if isinstance(node, ast.Try):
            for h in node.handlers:
                h.body = self._block(h.body)
        return node

    def visit_Lambda(self, node):
        return node


class KwCalls(Rewrite):
    def __init__(self, signatures, only=None):
        super().__init__(only)
        self.signatures = signatures

    def visit_Call(self, node):
        node = self.generic_visit(node)
        if isinstance(node.func, ast.Name) and node.func.id in self.signatures and node.args and not any(isinstance(a, ast.Starred) for a in node.args):
            params = self.signatures[node.func.id]
            if len(node.args) <= len(params) and not any(k.arg is None for k in node.keywords) and self.hit():
                kws = [ast.keyword(arg=p, value=a) for p, a in zip(params, node.args)]
                return ast.Call(func=node.func, args=[], keywords=kws + node.keywords)
        return node



class GuardToNested(Rewrite):
    """for ...: if c: continue; REST  ->  for ...: if not c: REST   (guard first in the loop body, no else)"""

    def _loop(self, node):
        node = self.generic_visit(node)
        body = node.body
        if len(body) >= 2 and isinstance(body[0], ast.If) and not body[0].orelse and len(body[0].body) == 1 and isinstance(body[0].body[0], ast.Continue) and self.hit():
            node.body = [ast.If(test=_neg(body[0].test), body=body[1:], orelse=[])]
        return node

    visit_For = _loop
    visit_While = _loop


class NestedToGuard(Rewrite):
    """for ...: if c: BODY  ->  for ...: if not c: continue; BODY   (the if is the whole loop body, no else)"""

    def _loop(self, node):
        node = self.generic_visit(node)
        body = node.body
        if len(body) == 1 and isinstance(body[0], ast.If) and not body[0].orelse and self.hit():
            node.body = [ast.If(test=_neg(body[0].test), body=[ast.Continue()], orelse=[])] + body[0].body
        return node

    visit_For = _loop
    visit_While = _loop


class IfExpToStmt(Rewrite):
    """x = a if c else b  ->  if c: x = a  else: x = b   (plain name targets, statement level)"""

    def _block(self, stmts):
        out = []
        for st in stmts:
            st = self.visit(st)
            if isinstance(st, ast.Assign) and len(st.targets) == 1 and isinstance(st.targets[0], ast.Name) and isinstance(st.value, ast.IfExp) and self.hit():
                name = st.targets[0].id
                out.append(ast.If(
                    test=st.value.test,
                    body=[ast.Assign(targets=[ast.Name(id=name, ctx=ast.Store())], value=st.value.body)],
                    orelse=[ast.Assign(targets=[ast.Name(id=name, ctx=ast.Store())], value=st.value.orelse)],
                ))
            else:
                out.append(st)
        return out

    def generic_visit(self, node):
        node = ast.NodeTransformer.generic_visit(self, node)
        for fname in ("body", "orelse", "finalbody"):
            blk = getattr(node, fname, None)
            if isinstance(blk, list) and blk and isinstance(blk[0], ast.stmt):
                setattr(node, fname, self._block(blk))
        return node

    def visit_Lambda(self, node):
        return node


class TupleSplit(Rewrite):
    """a, b = x, y  ->  a = x; b = y   when no target name is read by a later value (no swap)"""

    def _block(self, stmts):
        out = []
        for st in stmts:
            st = self.visit(st)
            if (
                isinstance(st, ast.Assign) and len(st.targets) == 1 and isinstance(st.targets[0], ast.Tuple) and isinstance(st.value, ast.Tuple)
                and len(st.targets[0].elts) == len(st.value.elts) and all(isinstance(t, ast.Name) for t in st.targets[0].elts)
            ):
                names = [t.id for t in st.targets[0].elts]
                reads = {x.id for v in st.value.elts for x in ast.walk(v) if isinstance(x, ast.Name)}
                if not (set(names) & reads) and self.hit():
                    for t, v in zip(st.targets[0].elts, st.value.elts):
                        out.append(ast.Assign(targets=[ast.Name(id=t.id, ctx=ast.Store())], value=v))
                    continue
            out.append(st)
        return out

    generic_visit = IfExpToStmt.generic_visit


class ArgToLocal(Rewrite):
    """f(g(x), ...) as an expression statement or plain assignment  ->  t = g(x); f(t, ...)   (first call argument that
    is itself a call; evaluation order is unchanged because it is the first argument)"""

    def _block(self, stmts):
        out = []
        for st in stmts:
            st = self.visit(st)
            call = None
            if isinstance(st, ast.Expr) and isinstance(st.value, ast.Call):
                call = st.value
            elif isinstance(st, ast.Assign) and isinstance(st.value, ast.Call):
                call = st.value
            if call is not None and call.args and isinstance(call.args[0], ast.Call) and not isinstance(call.func, ast.Attribute) and self.hit():
                tmp = f"arg_eq{self.count}"
                out.append(ast.Assign(targets=[ast.Name(id=tmp, ctx=ast.Store())], value=call.args[0]))
                call.args[0] = ast.Name(id=tmp, ctx=ast.Load())
            out.append(st)
        return out

    generic_visit = IfExpToStmt.generic_visit


class InTupleToOr(Rewrite):
    """x in (a, b)  ->  x == a or x == b   (x a plain name or attribute: evaluated twice without effect)"""

    def visit_Compare(self, node):
        node = self.generic_visit(node)
        if len(node.ops) == 1 and isinstance(node.ops[0], (ast.In, ast.NotIn)) and isinstance(node.comparators[0], (ast.Tuple, ast.List)) and 1 < len(node.comparators[0].elts) <= 3 and isinstance(node.left, (ast.Name, ast.Attribute)) and self.hit():
            eq = ast.BoolOp(op=ast.Or(), values=[ast.Compare(left=node.left, ops=[ast.Eq()], comparators=[e]) for e in node.comparators[0].elts])
            return eq if isinstance(node.ops[0], ast.In) else ast.UnaryOp(op=ast.Not(), operand=eq)
        return node


class DeMorgan(Rewrite):
    """not (a or b)  ->  not a and not b ;  a and b (as an if / while test)  ->  not (not a or not b)"""

    def visit_UnaryOp(self, node):
        node = self.generic_visit(node)
        if isinstance(node.op, ast.Not) and isinstance(node.operand, ast.BoolOp) and self.hit():
            op = ast.And() if isinstance(node.operand.op, ast.Or) else ast.Or()
            return ast.BoolOp(op=op, values=[_neg(v) for v in node.operand.values])
        return node

    def visit_If(self, node):
        node = self.generic_visit(node)
        if isinstance(node.test, ast.BoolOp) and self.hit():
            op = ast.And() if isinstance(node.test.op, ast.Or) else ast.Or()
            node.test = ast.UnaryOp(op=ast.Not(), operand=ast.BoolOp(op=op, values=[_neg(v) for v in node.test.values]))
        return node



def _exits(stmts):
    return bool(stmts) and isinstance(stmts[-1], (ast.Return, ast.Raise, ast.Continue, ast.Break))


class ElseAfterExit(Rewrite):
    """if c: ...exit; REST  ->  if c: ...exit  else: REST   (the conditional has no else and its body always leaves)"""

    def _block(self, stmts):
        stmts = [self.visit(st) for st in stmts]
        for i, st in enumerate(stmts):
            if isinstance(st, ast.If) and not st.orelse and _exits(st.body) and i + 1 < len(stmts) and self.hit():
                st.orelse = stmts[i + 1:]
                return stmts[:i + 1]
        return stmts

    generic_visit = IfExpToStmt.generic_visit

    def visit_Lambda(self, node):
        return node


class NoElseAfterExit(Rewrite):
    """if c: ...exit  else: REST  ->  if c: ...exit; REST"""

    def _block(self, stmts):
        out = []
        for st in stmts:
            st = self.visit(st)
            if isinstance(st, ast.If) and st.orelse and _exits(st.body) and not (len(st.orelse) == 1 and isinstance(st.orelse[0], ast.If)) and self.hit():
                rest = st.orelse
                st.orelse = []
                out.append(st)
                out.extend(rest)
            else:
                out.append(st)
        return out

    generic_visit = IfExpToStmt.generic_visit

    def visit_Lambda(self, node):
        return node


class ReturnIfExp(Rewrite):
    """return a if c else b  ->  if c: return a; return b"""

    def _block(self, stmts):
        out = []
        for st in stmts:
            st = self.visit(st)
            if isinstance(st, ast.Return) and isinstance(st.value, ast.IfExp) and self.hit():
                out.append(ast.If(test=st.value.test, body=[ast.Return(value=st.value.body)], orelse=[]))
                out.append(ast.Return(value=st.value.orelse))
            else:
                out.append(st)
        return out

    generic_visit = IfExpToStmt.generic_visit

    def visit_Lambda(self, node):
        return node


class SelfAugExpand(Rewrite):
    """self.n -= 1  ->  self.n = self.n - 1   (integer constants only)"""

    def visit_AugAssign(self, node):
        if isinstance(node.target, ast.Attribute) and isinstance(node.target.value, ast.Name) and isinstance(node.op, (ast.Add, ast.Sub)) and isinstance(node.value, ast.Constant) and isinstance(node.value.value, int) and self.hit():
            load = ast.Attribute(value=node.target.value, attr=node.target.attr, ctx=ast.Load())
            return ast.Assign(targets=[node.target], value=ast.BinOp(left=load, op=node.op, right=node.value))
        return node



def _pure_chain(e):
    """a name, or attribute / constant-subscript chain on a name: reading it twice gives the same object"""
    while isinstance(e, (ast.Attribute, ast.Subscript)):
        if isinstance(e, ast.Subscript) and not isinstance(e.slice, (ast.Constant, ast.Name)):
            return False
        e = e.value
    return isinstance(e, ast.Name)


class InlineAlias(Rewrite):
    """costs = rec_input.costs; ... costs[k] ...  ->  ... rec_input.costs[k] ...   (a local bound once to an attribute
    chain whose root names are never rebound in the function; every use is replaced, the assignment dropped)"""

    def visit_FunctionDef(self, node):
        node = self.generic_visit(node)
        stores = {}
        for n in ast.walk(node):
            if isinstance(n, ast.Name) and isinstance(n.ctx, (ast.Store, ast.Del)):
                stores[n.id] = stores.get(n.id, 0) + 1
            elif isinstance(n, ast.arg):
                stores[n.arg] = stores.get(n.arg, 0) + 1
        nested = {x.id for n in ast.walk(node) if n is not node and isinstance(n, (ast.FunctionDef, ast.Lambda)) for x in ast.walk(n) if isinstance(x, ast.Name)}
        for st in list(node.body):
            if (
                isinstance(st, ast.Assign) and len(st.targets) == 1 and isinstance(st.targets[0], ast.Name)
                and isinstance(st.value, ast.Attribute) and _pure_chain(st.value)
            ):
                name = st.targets[0].id
                roots = {x.id for x in ast.walk(st.value) if isinstance(x, ast.Name)}
                params = {a.arg for a in node.args.args}
                if stores.get(name) == 1 and name not in nested and all((stores.get(r, 0) == 1 and r in params) or r == "self" for r in roots) and self.hit():
                    value = st.value

                    class Sub(ast.NodeTransformer):
                        def visit_Name(self, n):
                            if n.id == name and isinstance(n.ctx, ast.Load):
                                return copy.deepcopy(value)
                            return n

                    node.body.remove(st)
                    node.body = [Sub().visit(x) for x in node.body]
        return node

    def visit_Lambda(self, node):
        return node



class ExtractAlias(Rewrite):
    """.. x.costs[a] .. x.costs[b] ..  ->  alias = x.costs; .. alias[a] .. alias[b] ..   (the most used attribute chain
    of a parameter that is read at least twice and never written through, bound at the top of the function)"""

    def visit_FunctionDef(self, node):
        node = self.generic_visit(node)
        params = {a.arg for a in node.args.args} - {"self", "cls"}
        rebound = {n.id for n in ast.walk(node) if isinstance(n, ast.Name) and isinstance(n.ctx, (ast.Store, ast.Del))}
        nested = [n for n in ast.walk(node) if n is not node and isinstance(n, (ast.FunctionDef, ast.Lambda, ast.GeneratorExp, ast.ListComp, ast.SetComp, ast.DictComp))]
        in_nested = {id(x) for n in nested for x in ast.walk(n)}
        counts = {}
        stored = set()
        for n in ast.walk(node):
            if isinstance(n, ast.Attribute) and isinstance(n.value, ast.Name) and n.value.id in params - rebound:
                key = f"{n.value.id}.{n.attr}"
                if isinstance(n.ctx, ast.Load) and id(n) not in in_nested:
                    counts[key] = counts.get(key, 0) + 1
                elif not isinstance(n.ctx, ast.Load):
                    stored.add(key)
        # chains that are called (methods) are not aliased
        called = {f"{c.func.value.id}.{c.func.attr}" for c in ast.walk(node) if isinstance(c, ast.Call) and isinstance(c.func, ast.Attribute) and isinstance(c.func.value, ast.Name)}
        cands = sorted(((v, k) for k, v in counts.items() if v >= 2 and k not in stored and k not in called), reverse=True)
        if not cands or not self.hit():
            return node
        for _count, key in cands:
            node = self._alias(node, key)
        return node

    def _alias(self, node, key):
        root, attr = key.split(".")
        alias = f"alias_eq_{root}_{attr}"

        class Sub(ast.NodeTransformer):
            def visit_Attribute(self, n):
                n = self.generic_visit(n)
                if isinstance(n.value, ast.Name) and n.value.id == root and n.attr == attr and isinstance(n.ctx, ast.Load):
                    return ast.Name(id=alias, ctx=ast.Load())
                return n

            def visit_FunctionDef(self, n):
                return n

            visit_Lambda = visit_GeneratorExp = visit_ListComp = visit_SetComp = visit_DictComp = visit_FunctionDef

        body = [Sub().visit(st) for st in node.body]
        bind = ast.Assign(targets=[ast.Name(id=alias, ctx=ast.Store())], value=ast.Attribute(value=ast.Name(id=root, ctx=ast.Load()), attr=attr, ctx=ast.Load()))
        start = 1 if body and isinstance(body[0], ast.Expr) and isinstance(body[0].value, ast.Constant) else 0
        node.body = body[:start] + [bind] + body[start:]
        return node

    def visit_Lambda(self, node):
        return node



class ComprehensionForms(Rewrite):
    """set(x for ..) -> {x for ..}; list(x for ..) -> [x for ..]; dict((k, v) for ..) -> {k: v for ..}
    (what pyupgrade / flake8-comprehensions rewrite automatically)"""

    def visit_Call(self, node):
        node = self.generic_visit(node)
        if isinstance(node.func, ast.Name) and node.func.id in ("set", "list", "dict") and len(node.args) == 1 and not node.keywords and isinstance(node.args[0], ast.GeneratorExp):
            gen = node.args[0]
            if node.func.id == "set" and self.hit():
                return ast.SetComp(elt=gen.elt, generators=gen.generators)
            if node.func.id == "list" and self.hit():
                return ast.ListComp(elt=gen.elt, generators=gen.generators)
            if node.func.id == "dict" and isinstance(gen.elt, ast.Tuple) and len(gen.elt.elts) == 2 and self.hit():
                return ast.DictComp(key=gen.elt.elts[0], value=gen.elt.elts[1], generators=gen.generators)
        return node


class ComprehensionCalls(Rewrite):
    """{x for ..} -> set(x for ..); [x for ..] -> list(x for ..); {k: v for ..} -> dict((k, v) for ..)"""

    def visit_SetComp(self, node):
        node = self.generic_visit(node)
        if self.hit():
            return ast.Call(func=ast.Name(id="set", ctx=ast.Load()), args=[ast.GeneratorExp(elt=node.elt, generators=node.generators)], keywords=[])
        return node

    def visit_ListComp(self, node):
        node = self.generic_visit(node)
        if self.hit():
            return ast.Call(func=ast.Name(id="list", ctx=ast.Load()), args=[ast.GeneratorExp(elt=node.elt, generators=node.generators)], keywords=[])
        return node

    def visit_DictComp(self, node):
        node = self.generic_visit(node)
        if self.hit():
            return ast.Call(func=ast.Name(id="dict", ctx=ast.Load()), args=[ast.GeneratorExp(elt=ast.Tuple(elts=[node.key, node.value], ctx=ast.Load()), generators=node.generators)], keywords=[])
        return node


class SwapIndependent(Rewrite):
    """x = <pure>; y = <pure>  ->  y = <pure>; x = <pure>   (adjacent plain assignments to different names whose values
    are call-free and do not read each other's target)"""

    def _pure(self, e):
        return not any(isinstance(x, (ast.Call, ast.Await, ast.Yield, ast.YieldFrom, ast.NamedExpr)) for x in ast.walk(e))

    def _block(self, stmts):
        stmts = [self.visit(st) for st in stmts]
        i = 0
        while i + 1 < len(stmts):
            a, b = stmts[i], stmts[i + 1]
            if (
                isinstance(a, ast.Assign) and isinstance(b, ast.Assign) and len(a.targets) == 1 and len(b.targets) == 1
                and isinstance(a.targets[0], ast.Name) and isinstance(b.targets[0], ast.Name) and a.targets[0].id != b.targets[0].id
                and self._pure(a.value) and self._pure(b.value)
                and a.targets[0].id not in {x.id for x in ast.walk(b.value) if isinstance(x, ast.Name)}
                and b.targets[0].id not in {x.id for x in ast.walk(a.value) if isinstance(x, ast.Name)}
                and self.hit()
            ):
                stmts[i], stmts[i + 1] = b, a
                i += 2
                continue
            i += 1
        return stmts

    generic_visit = IfExpToStmt.generic_visit

    def visit_Lambda(self, node):
        return node



class AnnotateLocals(Rewrite):
    """x = <expr>  ->  x: object = <expr>   (plain name targets inside functions)"""

    def __init__(self, only=None):
        super().__init__(only)
        self.depth = 0

    def visit_FunctionDef(self, node):
        self.depth += 1
        node = self.generic_visit(node)
        self.depth -= 1
        return node

    def visit_Assign(self, node):
        if self.depth and len(node.targets) == 1 and isinstance(node.targets[0], ast.Name) and self.hit():
            return ast.AnnAssign(target=node.targets[0], annotation=ast.Name(id="object", ctx=ast.Load()), value=node.value, simple=1)
        return node


class AddAsserts(Rewrite):
    """def f(a, ..): BODY  ->  def f(a, ..): assert a is not None or a is None; BODY   (a tautology on the first parameter)"""

    def visit_FunctionDef(self, node):
        node = self.generic_visit(node)
        params = [a.arg for a in node.args.args if a.arg not in ("self", "cls")]
        if params and self.hit():
            p = params[0]
            test = ast.BoolOp(op=ast.Or(), values=[
                ast.Compare(left=ast.Name(id=p, ctx=ast.Load()), ops=[ast.IsNot()], comparators=[ast.Constant(value=None)]),
                ast.Compare(left=ast.Name(id=p, ctx=ast.Load()), ops=[ast.Is()], comparators=[ast.Constant(value=None)]),
            ])
            start = 1 if node.body and isinstance(node.body[0], ast.Expr) and isinstance(node.body[0].value, ast.Constant) else 0
            node.body = node.body[:start] + [ast.Assert(test=test, msg=None)] + node.body[start:]
        return node

    def visit_Lambda(self, node):
        return node



class HoistStrings(Rewrite):
    """"color" ... "color"  ->  _K0 = "color" at module level; ... _K0 ... _K0   (string literals used at least twice
    inside functions of the module, outside f-strings, annotations and docstrings)"""

    def visit_Module(self, node):
        counts = {}
        skip = set()
        for n in ast.walk(node):
            if isinstance(n, ast.JoinedStr):
                skip.update(id(x) for x in ast.walk(n))
            if isinstance(n, (ast.FunctionDef, ast.AsyncFunctionDef, ast.ClassDef, ast.Module)):
                body = n.body
                if body and isinstance(body[0], ast.Expr) and isinstance(body[0].value, ast.Constant):
                    skip.add(id(body[0].value))
            if isinstance(n, (ast.arg,)) and n.annotation is not None:
                skip.update(id(x) for x in ast.walk(n.annotation))
            if isinstance(n, (ast.FunctionDef, ast.AsyncFunctionDef)) and n.returns is not None:
                skip.update(id(x) for x in ast.walk(n.returns))
            if isinstance(n, ast.AnnAssign):
                skip.update(id(x) for x in ast.walk(n.annotation))
        in_fn = set()
        for f in ast.walk(node):
            if isinstance(f, (ast.FunctionDef, ast.AsyncFunctionDef)):
                for x in ast.walk(f):
                    if isinstance(x, ast.Constant) and isinstance(x.value, str) and len(x.value) >= 3 and id(x) not in skip:
                        in_fn.add(id(x))
                        counts[x.value] = counts.get(x.value, 0) + 1
        # a literal that is a dictionary key of a call keyword etc. is still an expression: fine
        chosen = {v: f"_K{i}_EQ" for i, (v, c) in enumerate(sorted(counts.items())) if c >= 2}
        if not chosen or not self.hit():
            return node

        class Sub(ast.NodeTransformer):
            def visit_Constant(self, n):
                if id(n) in in_fn and n.value in chosen:
                    return ast.Name(id=chosen[n.value], ctx=ast.Load())
                return n

            def visit_JoinedStr(self, n):
                return n

        node = Sub().visit(node)
        defs = [ast.Assign(targets=[ast.Name(id=name, ctx=ast.Store())], value=ast.Constant(value=v)) for v, name in chosen.items()]
        start = 0
        for i, st in enumerate(node.body):
            if isinstance(st, (ast.Import, ast.ImportFrom)) or (isinstance(st, ast.Expr) and isinstance(st.value, ast.Constant)):
                start = i + 1
        node.body = node.body[:start] + defs + node.body[start:]
        return node



PEP585 = {"List": "list", "Dict": "dict", "Set": "set", "Tuple": "tuple", "FrozenSet": "frozenset", "Type": "type"}


class ModernAnnotations(Rewrite):
    """Optional[X] -> X | None; Union[A, B] -> A | B; List[X] -> list[X], Dict -> dict, ...  (PEP 604 / 585, what
    pyupgrade --py310-plus does; only inside annotations)"""

    def _ann(self, node):
        class T(ast.NodeTransformer):
            def visit_Subscript(self, n):
                n = self.generic_visit(n)
                if isinstance(n.value, ast.Name) and n.value.id == "Optional":
                    return ast.BinOp(left=n.slice, op=ast.BitOr(), right=ast.Constant(value=None))
                if isinstance(n.value, ast.Name) and n.value.id == "Union" and isinstance(n.slice, ast.Tuple) and n.slice.elts:
                    out = n.slice.elts[0]
                    for e in n.slice.elts[1:]:
                        out = ast.BinOp(left=out, op=ast.BitOr(), right=e)
                    return out
                if isinstance(n.value, ast.Name) and n.value.id in PEP585:
                    n.value = ast.Name(id=PEP585[n.value.id], ctx=ast.Load())
                return n

        return T().visit(node)

    def visit_FunctionDef(self, node):
        node = self.generic_visit(node)
        changed = False
        for a in node.args.posonlyargs + node.args.args + node.args.kwonlyargs:
            if a.annotation is not None and not isinstance(a.annotation, ast.Constant):
                a.annotation = self._ann(a.annotation)
                changed = True
        if node.returns is not None and not isinstance(node.returns, ast.Constant):
            node.returns = self._ann(node.returns)
            changed = True
        if changed:
            self.hit()
        return node

    def visit_AnnAssign(self, node):
        node = self.generic_visit(node)
        if not isinstance(node.annotation, ast.Constant):
            node.annotation = self._ann(node.annotation)
        return node



class SmallIdioms(Rewrite):
    """a <= b < c -> a <= b and b < c (b a plain name);  for k in (0, 1) <-> [0, 1];  x in (a, b) -> x in [a, b];
    dict() -> {}, list() -> [], tuple() -> ()"""

    def visit_Compare(self, node):
        node = self.generic_visit(node)
        if len(node.ops) == 2 and isinstance(node.comparators[0], (ast.Name, ast.Constant)) and self.hit():
            mid = node.comparators[0]
            return ast.BoolOp(op=ast.And(), values=[
                ast.Compare(left=node.left, ops=[node.ops[0]], comparators=[mid]),
                ast.Compare(left=copy.deepcopy(mid), ops=[node.ops[1]], comparators=[node.comparators[1]]),
            ])
        if len(node.ops) == 1 and isinstance(node.ops[0], (ast.In, ast.NotIn)) and isinstance(node.comparators[0], ast.Tuple) and self.hit():
            node.comparators = [ast.List(elts=node.comparators[0].elts, ctx=ast.Load())]
        return node

    def visit_For(self, node):
        node = self.generic_visit(node)
        if isinstance(node.iter, ast.Tuple) and self.hit():
            node.iter = ast.List(elts=node.iter.elts, ctx=ast.Load())
        elif isinstance(node.iter, ast.List) and self.hit():
            node.iter = ast.Tuple(elts=node.iter.elts, ctx=ast.Load())
        return node

    def visit_Call(self, node):
        node = self.generic_visit(node)
        if isinstance(node.func, ast.Name) and not node.args and not node.keywords and node.func.id in ("dict", "list", "tuple") and self.hit():
            return {"dict": ast.Dict(keys=[], values=[]), "list": ast.List(elts=[], ctx=ast.Load()), "tuple": ast.Tuple(elts=[], ctx=ast.Load())}[node.func.id]
        return node


class EmptyDisplaysToCalls(Rewrite):
    """{} -> dict(), [] -> list()   (empty displays only)"""

    def visit_Dict(self, node):
        node = self.generic_visit(node)
        if not node.keys and self.hit():
            return ast.Call(func=ast.Name(id="dict", ctx=ast.Load()), args=[], keywords=[])
        return node

    def visit_List(self, node):
        node = self.generic_visit(node)
        if not node.elts and isinstance(node.ctx, ast.Load) and self.hit():
            return ast.Call(func=ast.Name(id="list", ctx=ast.Load()), args=[], keywords=[])
        return node



ETE_PAIRS = {"iter_leaves": "get_leaves", "get_leaves": "iter_leaves", "iter_descendants": "get_descendants", "get_descendants": "iter_descendants",
             "iter_ancestors": "get_ancestors", "get_ancestors": "iter_ancestors", "iter_leaf_names": "get_leaf_names", "get_leaf_names": "iter_leaf_names"}


class EteSynonyms(Rewrite):
    """ete3 spellings of the same thing: traverse("s") -> traverse(strategy="s"); iter_X() <-> get_X() where the
    result is only iterated; x.is_leaf() -> not x.children; x.children -> x.get_children()"""

    def _iter(self, it):
        if isinstance(it, ast.Call) and isinstance(it.func, ast.Attribute) and it.func.attr in ETE_PAIRS and not it.args and not it.keywords and self.hit():
            it.func.attr = ETE_PAIRS[it.func.attr]
        return it

    def visit_For(self, node):
        node = self.generic_visit(node)
        node.iter = self._iter(node.iter)
        return node

    def visit_comprehension(self, node):
        node = self.generic_visit(node)
        node.iter = self._iter(node.iter)
        return node

    def visit_Call(self, node):
        node = self.generic_visit(node)
        if isinstance(node.func, ast.Attribute) and node.func.attr == "traverse" and len(node.args) == 1 and not node.keywords and self.hit():
            return ast.Call(func=node.func, args=[], keywords=[ast.keyword(arg="strategy", value=node.args[0])])
        if isinstance(node.func, ast.Attribute) and node.func.attr == "is_leaf" and not node.args and self.hit():
            children = ast.Attribute(value=node.func.value, attr="children", ctx=ast.Load())
            self.leaf_forms = getattr(self, "leaf_forms", 0) + 1
            if self.leaf_forms % 2:
                return ast.UnaryOp(op=ast.Not(), operand=children)
            return ast.Compare(left=ast.Call(func=ast.Name(id="len", ctx=ast.Load()), args=[children], keywords=[]), ops=[ast.Eq()], comparators=[ast.Constant(value=0)])
        return node



class LambdaToDef(Rewrite):
    """a lambda written directly in a return / assignment / call statement of a function body becomes a local `def`
    placed just before the statement (free variables are looked up at call time either way)"""

    def __init__(self, only=None):
        super().__init__(only)
        self.scopes = []

    def visit_FunctionDef(self, node):
        self.scopes.append("def")
        try:
            return self.generic_visit(node)
        finally:
            self.scopes.pop()

    visit_AsyncFunctionDef = visit_FunctionDef

    def visit_ClassDef(self, node):
        self.scopes.append("class")
        try:
            return self.generic_visit(node)
        finally:
            self.scopes.pop()

    def _lambdas(self, node, parent=None, field=None, index=None, out=None):
        for name, value in ast.iter_fields(node):
            items = value if isinstance(value, list) else [value]
            for i, item in enumerate(items):
                if not isinstance(item, ast.AST):
                    continue
                if isinstance(item, ast.Lambda):
                    out.append((node, name, i if isinstance(value, list) else None, item))
                elif not isinstance(item, (ast.ListComp, ast.SetComp, ast.DictComp, ast.GeneratorExp, ast.FunctionDef, ast.ClassDef)):
                    self._lambdas(item, out=out)
        return out

    def _block(self, stmts):
        out = []
        for st in stmts:
            st = self.visit(st)
            if self.scopes and self.scopes[-1] == "def" and isinstance(st, (ast.Return, ast.Assign, ast.Expr)):
                for holder, name, idx, lam in self._lambdas(st, out=[]):
                    if lam.args.defaults or lam.args.kw_defaults or not self.hit():
                        continue
                    fname = f"fn_eq{self.count}"
                    out.append(ast.FunctionDef(name=fname, args=lam.args, body=[ast.Return(value=lam.body)], decorator_list=[], returns=None, type_params=[]))
                    ref = ast.Name(id=fname, ctx=ast.Load())
                    if idx is None:
                        setattr(holder, name, ref)
                    else:
                        getattr(holder, name)[idx] = ref
            out.append(st)
        return out

    generic_visit = IfExpToStmt.generic_visit


def _call_free(node):
    return not any(isinstance(x, (ast.Call, ast.Await, ast.Yield, ast.NamedExpr)) for x in ast.walk(node))


class MinMaxForms(Rewrite):
    """v = min(v, e) -> if e < v: v = e;   min(a, b) -> a if a <= b else b (operands without calls) or min([a, b]);
    likewise max"""

    def visit_Assign(self, st):
        if (len(st.targets) == 1 and isinstance(st.targets[0], ast.Name) and isinstance(st.value, ast.Call)
                and isinstance(st.value.func, ast.Name) and st.value.func.id in ("min", "max") and len(st.value.args) == 2 and not st.value.keywords
                and isinstance(st.value.args[0], ast.Name) and st.value.args[0].id == st.targets[0].id and _call_free(st.value.args[1]) and self.hit()):
            op = ast.Lt() if st.value.func.id == "min" else ast.Gt()
            e = st.value.args[1]
            return ast.If(test=ast.Compare(left=e, ops=[op], comparators=[ast.Name(id=st.targets[0].id, ctx=ast.Load())]),
                          body=[ast.Assign(targets=[ast.Name(id=st.targets[0].id, ctx=ast.Store())], value=e)], orelse=[])
        return self.generic_visit(st)

    def visit_Call(self, node):
        node = self.generic_visit(node)
        if isinstance(node.func, ast.Name) and node.func.id in ("min", "max") and len(node.args) == 2 and not node.keywords and not any(isinstance(a, ast.Starred) for a in node.args) and self.hit():
            a, b = node.args
            if _call_free(a) and _call_free(b):
                op = ast.LtE() if node.func.id == "min" else ast.GtE()
                return ast.IfExp(test=ast.Compare(left=a, ops=[op], comparators=[b]), body=a, orelse=b)
            return ast.Call(func=node.func, args=[ast.List(elts=[a, b], ctx=ast.Load())], keywords=[])
        return node



class ExtractHelper(Rewrite):
    """the value of a return / plain assignment inside a function, when it is an arithmetic, boolean, comparison or
    conditional expression over local names, moves into a module-level helper `_helper_eqN(locals...)` that returns it
    (extract-function; the helpers sit after the imports, globals are looked up at call time as before)"""

    def __init__(self, only=None):
        super().__init__(only)
        self.stack = []
        self.helpers = []

    def _locals(self, fn):
        names = {a.arg for a in fn.args.posonlyargs + fn.args.args + fn.args.kwonlyargs}
        for a in (fn.args.vararg, fn.args.kwarg):
            if a:
                names.add(a.arg)
        for n in ast.walk(fn):
            if isinstance(n, ast.Name) and isinstance(n.ctx, (ast.Store, ast.Del)):
                names.add(n.id)
            elif isinstance(n, (ast.FunctionDef, ast.AsyncFunctionDef, ast.ClassDef)) and n is not fn:
                names.add(n.name)
            elif isinstance(n, (ast.Import, ast.ImportFrom)):
                names.update((al.asname or al.name).split(".")[0] for al in n.names)
            elif isinstance(n, ast.ExceptHandler) and n.name:
                names.add(n.name)
        return names

    def visit_FunctionDef(self, node):
        self.stack.append(self._locals(node))
        try:
            return self.generic_visit(node)
        finally:
            self.stack.pop()

    def visit_ClassDef(self, node):
        saved, self.stack = self.stack, []
        try:
            return self.generic_visit(node)
        finally:
            self.stack = saved

    def visit_Lambda(self, node):
        return node

    def _extract(self, value):
        if not self.stack or not isinstance(value, (ast.BinOp, ast.BoolOp, ast.Compare, ast.IfExp)):
            return value
        if any(isinstance(x, (ast.Lambda, ast.ListComp, ast.SetComp, ast.DictComp, ast.GeneratorExp, ast.Yield, ast.YieldFrom, ast.Await, ast.NamedExpr, ast.Starred)) for x in ast.walk(value)):
            return value
        local = set().union(*self.stack)
        params = []
        for x in ast.walk(value):
            if isinstance(x, ast.Name) and x.id in local and x.id not in params:
                params.append(x.id)
        if not params or not self.hit():
            return value
        name = f"_helper_eq{self.count}"
        self.helpers.append(ast.FunctionDef(name=name, args=ast.arguments(posonlyargs=[], args=[ast.arg(arg=p) for p in params], kwonlyargs=[], kw_defaults=[], defaults=[]),
                                            body=[ast.Return(value=value)], decorator_list=[], returns=None, type_params=[]))
        return ast.Call(func=ast.Name(id=name, ctx=ast.Load()), args=[ast.Name(id=p, ctx=ast.Load()) for p in params], keywords=[])

    def visit_Return(self, node):
        node = self.generic_visit(node)
        if node.value is not None:
            node.value = self._extract(node.value)
        return node

    def visit_Assign(self, node):
        node = self.generic_visit(node)
        node.value = self._extract(node.value)
        return node

    def visit_Module(self, node):
        node = self.generic_visit(node)
        if self.helpers:
            at = 0
            for i, st in enumerate(node.body):
                if isinstance(st, (ast.Import, ast.ImportFrom)) or (i == 0 and isinstance(st, ast.Expr) and isinstance(st.value, ast.Constant)):
                    at = i + 1
            node.body[at:at] = self.helpers
        return node



class ComprehensionToLoop(Rewrite):
    """x = [E for v in it if c]  ->  x = []; for v in it: if c: x.append(E)   (also set / dict displays, `return [..]`
    through a fresh local); only comprehensions whose loop variables are not otherwise names of the function"""

    def __init__(self, only=None):
        super().__init__(only)
        self.fn_names = [set()]

    def visit_FunctionDef(self, node):
        names = {a.arg for a in ast.walk(node) if isinstance(a, ast.arg)}
        comp_targets = set()
        for n in ast.walk(node):
            if isinstance(n, ast.Name):
                names.add(n.id)
        self.fn_names.append(names)
        try:
            return self.generic_visit(node)
        finally:
            self.fn_names.pop()

    def _loop(self, comp, target_name):
        tgt = lambda: ast.Name(id=target_name, ctx=ast.Load())  # noqa: E731
        if isinstance(comp, ast.ListComp):
            empty, add = ast.List(elts=[], ctx=ast.Load()), ast.Expr(ast.Call(func=ast.Attribute(value=tgt(), attr="append", ctx=ast.Load()), args=[comp.elt], keywords=[]))
        elif isinstance(comp, ast.SetComp):
            empty, add = ast.Call(func=ast.Name(id="set", ctx=ast.Load()), args=[], keywords=[]), ast.Expr(ast.Call(func=ast.Attribute(value=tgt(), attr="add", ctx=ast.Load()), args=[comp.elt], keywords=[]))
        else:
            empty, add = ast.Dict(keys=[], values=[]), ast.Assign(targets=[ast.Subscript(value=tgt(), slice=comp.key, ctx=ast.Store())], value=comp.value)
        body = [add]
        for gen in reversed(comp.generators):
            for cond in reversed(gen.ifs):
                body = [ast.If(test=cond, body=body, orelse=[])]
            body = [ast.For(target=gen.target, iter=gen.iter, body=body, orelse=[])]
        return [ast.Assign(targets=[ast.Name(id=target_name, ctx=ast.Store())], value=empty)] + body

    def _ok(self, comp, own):
        if not isinstance(comp, (ast.ListComp, ast.SetComp, ast.DictComp)) or any(g.is_async for g in comp.generators) or len(self.fn_names) < 2:
            return False
        loopvars = {n.id for g in comp.generators for n in ast.walk(g.target) if isinstance(n, ast.Name)}
        # the loop variables must be names only this comprehension uses (they become function locals)
        inside = [n.id for n in ast.walk(comp) if isinstance(n, ast.Name)]
        fn = self._fn_counts
        if any(fn.get(v, 0) != inside.count(v) for v in loopvars):
            return False
        if own in {n.id for n in ast.walk(comp) if isinstance(n, ast.Name)}:
            return False
        if any(isinstance(x, (ast.Lambda, ast.ListComp, ast.SetComp, ast.DictComp, ast.GeneratorExp)) for part in ast.iter_child_nodes(comp) for x in ast.walk(part)):
            return False
        return True

    def _block(self, stmts):
        out = []
        for st in stmts:
            st = self.visit(st)
            if isinstance(st, ast.Assign) and len(st.targets) == 1 and isinstance(st.targets[0], ast.Name) and self._ok(st.value, st.targets[0].id) and self.hit():
                out.extend(self._loop(st.value, st.targets[0].id))
                continue
            if isinstance(st, ast.Return) and st.value is not None and self._ok(st.value, "") and self.hit():
                name = f"acc_eq{self.count}"
                out.extend(self._loop(st.value, name))
                out.append(ast.Return(value=ast.Name(id=name, ctx=ast.Load())))
                continue
            out.append(st)
        return out

    def generic_visit(self, node):
        if isinstance(node, (ast.FunctionDef, ast.AsyncFunctionDef)):
            counts = {}
            for n in ast.walk(node):
                if isinstance(n, ast.Name):
                    counts[n.id] = counts.get(n.id, 0) + 1
                elif isinstance(n, ast.arg):
                    counts[n.arg] = counts.get(n.arg, 0) + 1000
            saved = getattr(self, "_fn_counts", {})
            self._fn_counts = counts
            try:
                return IfExpToStmt.generic_visit(self, node)
            finally:
                self._fn_counts = saved
        return IfExpToStmt.generic_visit(self, node)



CURRENT = {"relpath": ""}


class ImportStyle(Rewrite):
    """relative package imports become absolute ones and the other way round:
    `from ..utils.trees import f` <-> `from superrec2.utils.trees import f`"""

    def visit_ImportFrom(self, node):
        rel = CURRENT["relpath"]
        parts = rel[:-3].split("/")
        pkg = ["superrec2"] + (parts[:-1] if parts[-1] != "__init__" else parts[:-1])
        if node.level and self.hit():
            base = pkg[: len(pkg) - (node.level - 1)]
            mod = ".".join(base + (node.module.split(".") if node.module else []))
            return ast.ImportFrom(module=mod, names=node.names, level=0)
        if not node.level and node.module and (node.module == "superrec2" or node.module.startswith("superrec2.")) and self.hit():
            target = node.module.split(".")
            common = 0
            while common < len(pkg) and common < len(target) and pkg[common] == target[common]:
                common += 1
            level = len(pkg) - common + 1
            rest = target[common:]
            return ast.ImportFrom(module=".".join(rest) if rest else None, names=node.names, level=level)
        return node


class FStringToFormat(Rewrite):
    """f"{a}x{b}" (no conversions, no format specs) -> "{}x{}".format(a, b)"""

    def visit_JoinedStr(self, node):
        for v in node.values:
            if isinstance(v, ast.FormattedValue):
                v.value = self.visit(v.value)  # (a format spec is a JoinedStr of its own and stays one)
        fmt, args = "", []
        for v in node.values:
            if isinstance(v, ast.Constant) and isinstance(v.value, str):
                fmt += v.value.replace("{", "{{").replace("}", "}}")
            elif isinstance(v, ast.FormattedValue) and v.conversion == -1 and v.format_spec is None:
                fmt += "{}"
                args.append(v.value)
            else:
                return node
        if not args or not self.hit():
            return node
        return ast.Call(func=ast.Attribute(value=ast.Constant(value=fmt), attr="format", ctx=ast.Load()), args=args, keywords=[])


def package_signatures(prog):
    seen, dup = {}, set()
    for mod in prog.modules.values():
        for st in mod.tree.body:
            if isinstance(st, ast.FunctionDef):
                if st.name in seen:
                    dup.add(st.name)
                if st.args.vararg or st.args.posonlyargs:
                    dup.add(st.name)
                seen[st.name] = [a.arg for a in st.args.args]
        for st in ast.walk(mod.tree):
            if isinstance(st, ast.ClassDef):
                dup.add(st.name)
            if isinstance(st, ast.FunctionDef) and st not in mod.tree.body and st.name in seen:
                dup.add(st.name)  # a nested function / method of the same name
    return {k: v for k, v in seen.items() if k not in dup}


REWRITES = {
    "flip-eq": lambda sig, only: FlipEq(only),
    "flip-order": lambda sig, only: FlipOrder(only),
    "invert-if": lambda sig, only: InvertIf(only),
    "ne-as-not-eq": lambda sig, only: NeAsNotEq(only),
    "aug-expand": lambda sig, only: AugExpand(only),
    "return-local": lambda sig, only: ReturnLocal(only),
    "kw-calls": lambda sig, only: KwCalls(sig, only),
    "guard-to-nested": lambda sig, only: GuardToNested(only),
    "nested-to-guard": lambda sig, only: NestedToGuard(only),
    "ifexp-to-stmt": lambda sig, only: IfExpToStmt(only),
    "tuple-split": lambda sig, only: TupleSplit(only),
    "arg-to-local": lambda sig, only: ArgToLocal(only),
    "in-tuple-to-or": lambda sig, only: InTupleToOr(only),
    "de-morgan": lambda sig, only: DeMorgan(only),
    "else-after-exit": lambda sig, only: ElseAfterExit(only),
    "no-else-after-exit": lambda sig, only: NoElseAfterExit(only),
    "return-ifexp": lambda sig, only: ReturnIfExp(only),
    "self-aug-expand": lambda sig, only: SelfAugExpand(only),
    "inline-alias": lambda sig, only: InlineAlias(only),
    "extract-alias": lambda sig, only: ExtractAlias(only),
    "comprehension-forms": lambda sig, only: ComprehensionForms(only),
    "comprehension-calls": lambda sig, only: ComprehensionCalls(only),
    "swap-independent": lambda sig, only: SwapIndependent(only),
    "annotate-locals": lambda sig, only: AnnotateLocals(only),
    "add-asserts": lambda sig, only: AddAsserts(only),
    "hoist-strings": lambda sig, only: HoistStrings(only),
    "modern-annotations": lambda sig, only: ModernAnnotations(only),
    "ete-synonyms": lambda sig, only: EteSynonyms(only),
    "import-style": lambda sig, only: ImportStyle(only),
    "fstring-to-format": lambda sig, only: FStringToFormat(only),
    "comprehension-to-loop": lambda sig, only: ComprehensionToLoop(only),
    "extract-helper": lambda sig, only: ExtractHelper(only),
    "lambda-to-def": lambda sig, only: LambdaToDef(only),
    "minmax-forms": lambda sig, only: MinMaxForms(only),
    "small-idioms": lambda sig, only: SmallIdioms(only),
    "empty-displays-to-calls": lambda sig, only: EmptyDisplaysToCalls(only),
}


def variant(src, kind, sig, only=None):
    tree = ast.parse(src)
    rw = REWRITES[kind](sig, only)
    tree = rw.visit(tree)
    ast.fix_missing_locations(tree)
    return ast.unparse(tree), rw.count


def probe(args):
    root, relpath, kind, site, new_src = args
    out = []
    try:
        compile(new_src, relpath, "exec")
        prog = Program(root, {relpath: new_src})
    except Exception as err:  # noqa: BLE001
        return [(relpath, kind, site, "*", f"variant invalid: {err}")]
    for name, fn in props.RULES.items():
        try:
            res = fn(prog)
            for f in res.findings:
                out.append((relpath, kind, site, name, f"FINDING {f.construct}: {f.message[:140]}"))
        except AnalysisError as err:
            out.append((relpath, kind, site, name, f"ANALYSIS-ERROR {str(err)[:170]}"))
        except Exception as err:  # noqa: BLE001
            out.append((relpath, kind, site, name, f"CRASH {type(err).__name__}: {str(err)[:140]}"))
    return out


def main():
    ap = argparse.ArgumentParser()
    ap.add_argument("--only", default="")
    ap.add_argument("--module", default="")
    ap.add_argument("--sites", action="store_true")
    ap.add_argument("--jobs", type=int, default=16)
    args = ap.parse_args()
    kinds = [k for k in REWRITES if not args.only or k in args.only.split(",")]
    prog = Program()
    sig = package_signatures(prog)
    tasks = []
    for mod in prog.modules.values():
        if not mod.src.strip() or (args.module and mod.relpath != args.module):
            continue
        base = ast.unparse(ast.parse(mod.src))
        CURRENT["relpath"] = mod.relpath
        for kind in kinds:
            new_src, count = variant(mod.src, kind, sig)
            if new_src != base:
                tasks.append((prog.root, mod.relpath, kind, f"all {count}", new_src))
    print(f"{len(tasks)} whole-module variants ({', '.join(kinds)})")
    gaps = {}
    n_find = n_ae = 0
    with ProcessPoolExecutor(max_workers=args.jobs) as pool:
        for rows in pool.map(probe, tasks):
            for relpath, kind, site, rule, msg in rows:
                gaps.setdefault((relpath, kind), []).append((rule, msg))
                n_find += msg.startswith(("FINDING", "CRASH"))
                n_ae += msg.startswith("ANALYSIS-ERROR")
                print(f"{relpath:42s} {kind:13s} {rule:22s} {msg}")
    print(f"{n_find} false alarms / crashes, {n_ae} analysis errors in {len(gaps)} (module, rewrite) pairs")
    if args.sites and gaps:
        tasks = []
        for (relpath, kind) in gaps:
            mod = next(m for m in prog.modules.values() if m.relpath == relpath)
            CURRENT["relpath"] = relpath
            _src, count = variant(mod.src, kind, sig)
            for i in range(count):
                new_src, _c = variant(mod.src, kind, sig, only=i)
                tasks.append((prog.root, relpath, kind, f"site {i}", new_src))
        print(f"--- {len(tasks)} single-site variants")
        with ProcessPoolExecutor(max_workers=args.jobs) as pool:
            for task, rows in zip(tasks, pool.map(probe, tasks)):
                for relpath, kind, site, rule, msg in rows:
                    print(f"{relpath:42s} {kind:13s} {site:9s} {rule:22s} {msg}")
    return 0


if __name__ == "__main__":
    sys.exit(main())
