#!/venv/bin/python
"""Prepare a batch of seeded-change tasks for fresh sub-agents (development aid, DESIGN.md section 14).

    /venv/bin/python tools/seed_prompts.py <round>

Creates one scratch git worktree of /repo per property under /tmp/wt<round>/<ID>, an output directory
/tmp/wt_out<round>/<ID>/ and a self-contained prompt /tmp/wt_out<round>/<ID>.prompt.txt.  The prompt contains only
the text of the property and one-line summaries of the changes earlier sub-agents already delivered for it
(so that the new ones differ); nothing about the checks of /verif.
"""
import glob
import json
import os
import subprocess
import sys

rnd = sys.argv[1]
WT, OUT = f"/tmp/wt{rnd}", f"/tmp/wt_out{rnd}"
props = {}
for line in open("/verif/properties.jsonl"):
    p = json.loads(line)
    props[p["id"]] = p
os.makedirs(WT, exist_ok=True)
os.makedirs(OUT, exist_ok=True)

TMPL = '''You are helping evaluate a verification effort for the Python package superrec2 (phylogenetic reconciliation / super-reconciliation algorithms plus TikZ rendering). Your job: write {n} DIFFERENT realistic code changes ("seeded defects") to the package, each of which BREAKS the property below while the package still imports/compiles and the EXISTING test suite still passes.

Your private scratch checkout of the repository (a git worktree) is at {wt}/{pid} . Work ONLY there and in {out}/{pid}/ . Do NOT touch /repo or /verif or any other directory under {wt}, and do not read anything under /verif. Python interpreter: /venv/bin/python (has pytest, ete3 etc.). Run code against your checkout with PYTHONPATH={wt}/{pid}/src . There is no network.

THE PROPERTY ({pid}):
---
{prop}
---

Ideas that earlier rounds ALREADY used for this property - do NOT reuse them or close variants of them (in particular: no lru_cache / memo tables / module-level caches, no `x or default` on costs, no swapped is_ancestor_of arguments, no in-place `|=` on shared sets unless listed otherwise), find genuinely different mechanisms and different code sites:
{used}

Requirements for EACH of the {n} changes (make them genuinely different from each other: different functions / mechanisms, not variations of one edit):
1. It is a small, plausible edit to files under {wt}/{pid}/src/superrec2/ (the kind of thing a maintainer could commit by mistake: a refactoring slip, a "simplification", an off-by-one, a wrong variable, a dropped argument, a boundary condition, a loop restructuring, an early exit, a changed default, a well-meant generalisation...). Do not edit tests.
2. With the change applied, the existing test suite still passes:  cd {wt}/{pid} && PYTHONPATH={wt}/{pid}/src /venv/bin/python -m pytest -q -p no:cacheprovider --timeout=900 --deselect tests/render/test_draw.py::test_fixtures --deselect tests/utils/test_tex.py::test_measure   (those two deselected tests need a TeX engine and fail on the clean tree too; everything else must pass: 55 tests).
3. The change must need something SPECIFIC to manifest - a particular unusual input, cost vector, multi-step sequence of calls on the same objects, aliasing, a particular tree shape, two cooperating sites that each look fine alone - NOT something ordinary use or a trivial smoke test would expose at once. Prefer subtle over blatant.
4. Write a demonstration program demo.py (plain Python script, no pytest needed) that exits 0 on the clean checkout and exits non-zero (printing what went wrong) with the change applied. It should check the property itself (e.g. against a small brute-force / independent oracle you write inside the demo, or a direct statement of the expected result) on the specific input(s) that expose the defect. Put `import sys; sys.path.insert(0, "{wt}/{pid}/src")` at the top so that it runs against your checkout.
5. Deliver, for change k = 1..{n}, a directory {out}/{pid}/<k>/ containing:
   - patch.diff : output of `git -C {wt}/{pid} diff` for that change alone (relative to the clean checkout; must apply with `git apply` on a clean checkout),
   - demo.py,
   - meta.json : {{"summary": "<what the change does and why it breaks the property>", "files": [...], "needs": "<what specific input / sequence / configuration is needed for it to manifest and why ordinary use and the existing tests do not hit it>", "ran": ["<commands you ran and what they showed>"]}}
6. Before finishing each change, verify yourself: demo passes on clean tree (`git -C {wt}/{pid} checkout -- .` to get clean), demo fails with the patch applied (reproducibly: run it three times, with PYTHONHASHSEED unset), test suite passes with the patch applied. After saving the patch, restore the checkout to clean (`git -C {wt}/{pid} checkout -- .`) before starting the next change. Do not use `git stash`. Leave the checkout clean at the end.
7. Keep every single reply and every file you write reasonably small (write long demo files in pieces of at most ~150 lines); very long single replies are cut off.

Start by reading the README and the relevant source under {wt}/{pid}/src/superrec2/ and the tests under {wt}/{pid}/tests/ to see what the tests do and do not cover. Then design the changes. Your final message should list, for each change, one line: directory, files touched, one-sentence description, and confirmation of the three verifications (clean demo ok / patched demo fails / suite passes).'''

for pid in sorted(props):
    subprocess.run(f"git -C /repo worktree add --detach {WT}/{pid} HEAD", shell=True, capture_output=True)
    os.makedirs(f"{OUT}/{pid}", exist_ok=True)
    p = props[pid]
    prop = f"{pid}: {p['title']}\n\n{p['statement']}\n\nInput space: {p['quantifier']['text']}\n"
    used = []
    for d in sorted(glob.glob(f"/verif/seeded/{pid}-*")):
        m = json.load(open(d + "/meta.json"))
        summ = " ".join((m.get("summary") or "").split()).split(". ")[0][:230]
        used.append(f"- {summ}")
    with open(f"{OUT}/{pid}.prompt.txt", "w") as handle:
        handle.write(TMPL.format(pid=pid, prop=prop, n=3, used="\n".join(used) or "- (none yet)", wt=WT, out=OUT))
print("prepared", len(props), "tasks under", OUT)
