#!/venv/bin/python
"""Robustness probe 2: rename the parameters of every module-level function (definition, body, keyword arguments
at the call sites inside the package) to `<name>_p`; every rule must stay silent.  Development aid."""
import ast
import os
import sys
from concurrent.futures import ProcessPoolExecutor

sys.path.insert(0, os.path.dirname(os.path.dirname(os.path.abspath(__file__))))
from srcheck import props  # noqa: E402
from srcheck.core import AnalysisError, Program  # noqa: E402

KEEP = {"self", "cls", "args", "parser", "spec"}


def rename_module(src, fnames_params):
    """fnames_params: {function name: set(params)} for functions defined in THIS module."""
    tree = ast.parse(src)

    class Def(ast.NodeTransformer):
        def __init__(self):
            self.cur = []

        def visit_FunctionDef(self, node):
            top = not self.cur and node.name in fnames_params and node.col_offset == 0
            if top:
                names = fnames_params[node.name]
                self.cur.append(names)
                for a in node.args.posonlyargs + node.args.args + node.args.kwonlyargs:
                    if a.arg in names:
                        a.arg += "_p"
                node.body = [self.visit(s) for s in node.body]
                node.args.defaults = [self.visit(d) for d in node.args.defaults]
                self.cur.pop()
                return node
            if self.cur:
                # nested def/lambda: rename free uses unless shadowed
                shadow = {a.arg for a in node.args.posonlyargs + node.args.args + node.args.kwonlyargs}
                self.cur.append(self.cur[-1] - shadow)
                node.body = [self.visit(s) for s in node.body]
                self.cur.pop()
                return node
            return self.generic_visit(node)

        def visit_Lambda(self, node):
            if self.cur:
                shadow = {a.arg for a in node.args.args}
                self.cur.append(self.cur[-1] - shadow)
                node.body = self.visit(node.body)
                self.cur.pop()
            return node

        def visit_Name(self, node):
            if self.cur and node.id in self.cur[-1]:
                node.id += "_p"
            return node

    tree = Def().visit(tree)
    return tree


def fix_calls(tree, all_fn_params):
    class Calls(ast.NodeTransformer):
        def visit_Call(self, node):
            self.generic_visit(node)
            name = node.func.id if isinstance(node.func, ast.Name) else (node.func.attr if isinstance(node.func, ast.Attribute) else None)
            if name in all_fn_params:
                for kw in node.keywords:
                    if kw.arg in all_fn_params[name]:
                        kw.arg += "_p"
            return node

    return Calls().visit(tree)


def probe(args):
    root, overrides, label = args
    out = []
    try:
        for rel, src in overrides.items():
            compile(src, rel, "exec")
        prog = Program(root, overrides)
    except Exception as err:  # noqa: BLE001
        return [(label, "*", f"variant invalid: {err}")]
    for name, fn in props.RULES.items():
        try:
            res = fn(prog)
            for f in res.findings:
                out.append((label, name, f"FINDING {f.construct}: {f.message[:110]}"))
        except AnalysisError as err:
            out.append((label, name, f"ANALYSIS-ERROR {str(err)[:150]}"))
        except Exception as err:  # noqa: BLE001
            out.append((label, name, f"CRASH {type(err).__name__}: {str(err)[:110]}"))
    return out


def main():
    prog = Program()
    tasks = []
    for mod in prog.modules.values():
        if not mod.src.strip():
            continue
        params = {}
        for st in mod.tree.body:
            if isinstance(st, ast.FunctionDef):
                ps = {a.arg for a in st.args.posonlyargs + st.args.args + st.args.kwonlyargs} - KEEP
                if ps:
                    params[st.name] = ps
        if not params:
            continue
        # one variant per module: all its module-level functions renamed; keyword call sites fixed everywhere
        overrides = {}
        for other in prog.modules.values():
            if not other.src.strip():
                continue
            tree = rename_module(other.src, params) if other is mod else ast.parse(other.src)
            tree = fix_calls(tree, params)
            ast.fix_missing_locations(tree)
            new_src = ast.unparse(tree)
            if other is mod or new_src != ast.unparse(ast.parse(other.src)):
                overrides[other.relpath] = new_src
        tasks.append((prog.root, overrides, mod.relpath))
    print(f"{len(tasks)} renamed-parameter variants")
    n = 0
    with ProcessPoolExecutor(max_workers=16) as pool:
        for rows in pool.map(probe, tasks):
            for label, rule, msg in rows:
                n += 1
                print(f"{label:42s} {rule:22s} {msg}")
    print(f"{n} gaps")


if __name__ == "__main__":
    main()
