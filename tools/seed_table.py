#!/venv/bin/python
"""Render the markdown table of DESIGN.md section 14 from one or more seeded_eval JSON files.

    /venv/bin/python tools/seed_table.py eval.json [--first first_eval.json]

`--first` is an evaluation made BEFORE the checks were strengthened on that batch: the table then shows, per
change, whether it was caught as found ("first") and what catches it now.
"""
import json
import sys

args = sys.argv[1:]
first = {}
if "--first" in args:
    i = args.index("--first")
    for row in json.load(open(args[i + 1])):
        first[row["id"]] = row
    args = args[:i] + args[i + 2:]
rows = []
for path in args:
    rows.extend(json.load(open(path)))
rows.sort(key=lambda r: r["id"])
print("| change | what it does (first sentence of the sub-agent's summary) | caught as found | caught now by (target property) | also reported under |")
print("|---|---|---|---|---|")
for r in rows:
    if "error" in r:
        continue
    summ = " ".join((r.get("summary") or "").split())
    summ = summ.split(". ")[0][:170].replace("|", "/")
    f = first.get(r["id"])
    if f is None:
        was = "-"
    elif f.get("detected"):
        was = "yes: " + ", ".join(f["rules"][:3])
    elif f["target"] in f.get("analysis_errors", {}):
        was = "no (analysis error: fail-closed)"
    else:
        was = "no"
    now = ", ".join(r["rules"]) if r.get("detected") else ("**missed**" if r["target"] not in r.get("analysis_errors", {}) else "analysis error (exit 2)")
    also = ", ".join(sorted(r.get("other_properties", {}))) or "-"
    print(f"| {r['id']} | {summ} | {was} | {now} | {also} |")
n = len([r for r in rows if "detected" in r])
k = len([r for r in rows if r.get("detected")])
print(f"\n{k} of {n} detected by the check of the property they were written against.")
