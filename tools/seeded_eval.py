#!/venv/bin/python
"""Evaluate the checks against the seeded changes under /verif/seeded/<id>/.

For each seeded change the patch is applied in a scratch git worktree of
/repo's HEAD (never in /repo itself), every claimed property's quick rules are
run against that worktree (--src), and the worktree is restored.

    /venv/bin/python tools/seeded_eval.py [--dir /verif/seeded] [--only ID ...] [--json out.json]

Prints one line per seeded change: target property, whether its check fired,
which rules fired, and which other properties fired too.
"""
from __future__ import annotations

import argparse
import json
import os
import subprocess
import sys
import tempfile

sys.path.insert(0, os.path.dirname(os.path.dirname(os.path.abspath(__file__))))

from srcheck import props  # noqa: E402
from srcheck.__main__ import run_property  # noqa: E402
from srcheck.core import AnalysisError, Program  # noqa: E402


def run(cmd, **kw):
    return subprocess.run(cmd, shell=True, capture_output=True, text=True, **kw)


def evaluate(ids, seed_dir, repo):
    """Worker: evaluate a list of seeded changes in a private scratch worktree."""
    wt = tempfile.mkdtemp(prefix="seedwt_", dir="/tmp")
    os.rmdir(wt)
    r = run(f"git -C {repo} worktree add --detach {wt} HEAD")
    if r.returncode:
        return [{"id": i, "target": i.split("-")[0], "error": r.stderr.strip()[:200]} for i in ids]
    rows = []
    try:
        for sid in ids:
            d = os.path.join(seed_dir, sid)
            patch = os.path.join(d, "patch.diff")
            meta = {}
            if os.path.exists(os.path.join(d, "meta.json")):
                meta = json.load(open(os.path.join(d, "meta.json")))
            target = meta.get("property", sid.split("-")[0])
            r = run(f"git -C {wt} apply {patch}")
            if r.returncode:
                rows.append({"id": sid, "target": target, "error": "patch does not apply: " + r.stderr.strip()[:200]})
                run(f"git -C {wt} checkout -- .")
                continue
            try:
                prog = Program(os.path.join(wt, "src", "superrec2"))
                cache = {}
                fired = {}
                errors = {}
                for pid in props.PROPERTY_RULES:
                    results, errs = run_property(pid, "quick", prog, cache)
                    rules = sorted({f.rule for res in results for f in res.findings})
                    if rules:
                        fired[pid] = rules
                    if errs:
                        errors[pid] = [e.split("\n")[0][:160] for e in errs]
            except AnalysisError as err:
                fired, errors = {}, {"*": [str(err)]}
            finally:
                run(f"git -C {wt} checkout -- .")
            rows.append({
                "id": sid,
                "target": target,
                "detected": target in fired,
                "rules": fired.get(target, []),
                "other_properties": {k: v for k, v in fired.items() if k != target},
                "analysis_errors": errors,
                "summary": meta.get("summary", ""),
            })
    finally:
        run(f"git -C {repo} worktree remove --force {wt}")
    return rows


def main() -> int:
    ap = argparse.ArgumentParser()
    ap.add_argument("--dir", default="/verif/seeded")
    ap.add_argument("--only", nargs="*")
    ap.add_argument("--json")
    ap.add_argument("--repo", default="/repo")
    ap.add_argument("--jobs", type=int, default=8)
    args = ap.parse_args()

    ids = [
        sid for sid in sorted(os.listdir(args.dir))
        if os.path.isfile(os.path.join(args.dir, sid, "patch.diff")) and (not args.only or sid in args.only or any(sid.startswith(o) for o in args.only if o.endswith("-")))
    ]
    jobs = max(1, min(args.jobs, len(ids)))
    chunks = [ids[i::jobs] for i in range(jobs)]
    from concurrent.futures import ProcessPoolExecutor

    rows = []
    with ProcessPoolExecutor(max_workers=jobs) as pool:
        for part in pool.map(evaluate, chunks, [args.dir] * jobs, [args.repo] * jobs):
            rows.extend(part)
    rows.sort(key=lambda r: r["id"])
    for row in rows:
        if "error" in row:
            print(f"{row['id']:14s} target={row['target']} {row['error']}")
            continue
        target, fired, errors = row["target"], row["other_properties"], row["analysis_errors"]
        status = "DETECTED" if row["detected"] else ("ANALYSIS-ERROR" if target in errors else "missed")
        others = ",".join(fired)
        print(f"{row['id']:14s} target={target} {status:14s} rules={','.join(row['rules']) or '-':40s} also={others or '-'}"
              + (f" errors={ {k: v[:1] for k, v in errors.items()} }" if errors else ""))
    n = len([r for r in rows if "detected" in r])
    k = len([r for r in rows if r.get("detected")])
    print(f"\n{k}/{n} seeded changes detected by the check of their target property")
    if args.json:
        json.dump(rows, open(args.json, "w"), indent=1)
    return 0


if __name__ == "__main__":
    sys.exit(main())
