#!/venv/bin/python
"""Evaluate the checks against the seeded changes under /verif/seeded/<id>/.

For each seeded change the patch is applied in a scratch git worktree of
/repo's HEAD (never in /repo itself), every claimed property's quick rules are
run against that worktree (--src), and the worktree is restored.

    /venv/bin/python tools/seeded_eval.py [--dir /verif/seeded] [--only ID ...] [--json out.json]

Prints one line per seeded change: target property, whether its check fired,
which rules fired, and which other properties fired too.
"""
from __future__ import annotations

import argparse
import json
import os
import subprocess
import sys
import tempfile

sys.path.insert(0, os.path.dirname(os.path.dirname(os.path.abspath(__file__))))

from srcheck import props  # noqa: E402
from srcheck.__main__ import run_property  # noqa: E402
from srcheck.core import AnalysisError, Program  # noqa: E402


def run(cmd, **kw):
    return subprocess.run(cmd, shell=True, capture_output=True, text=True, **kw)


def main() -> int:
    ap = argparse.ArgumentParser()
    ap.add_argument("--dir", default="/verif/seeded")
    ap.add_argument("--only", nargs="*")
    ap.add_argument("--json")
    ap.add_argument("--repo", default="/repo")
    args = ap.parse_args()

    wt = tempfile.mkdtemp(prefix="seedwt_", dir="/tmp")
    os.rmdir(wt)
    r = run(f"git -C {args.repo} worktree add --detach {wt} HEAD")
    if r.returncode:
        print(r.stderr)
        return 2
    rows = []
    try:
        ids = sorted(os.listdir(args.dir))
        for sid in ids:
            d = os.path.join(args.dir, sid)
            patch = os.path.join(d, "patch.diff")
            if not os.path.isfile(patch):
                continue
            if args.only and sid not in args.only:
                continue
            meta = {}
            if os.path.exists(os.path.join(d, "meta.json")):
                meta = json.load(open(os.path.join(d, "meta.json")))
            target = meta.get("property", sid.split("-")[0])
            r = run(f"git -C {wt} apply {patch}")
            if r.returncode:
                rows.append({"id": sid, "target": target, "error": "patch does not apply: " + r.stderr.strip()[:200]})
                print(f"{sid:14s} target={target} PATCH-DOES-NOT-APPLY")
                run(f"git -C {wt} checkout -- .")
                continue
            try:
                prog = Program(os.path.join(wt, "src", "superrec2"))
                cache = {}
                fired = {}
                errors = {}
                for pid in props.PROPERTY_RULES:
                    results, errs = run_property(pid, "quick", prog, cache)
                    rules = sorted({f.rule for res in results for f in res.findings})
                    if rules:
                        fired[pid] = rules
                    if errs:
                        errors[pid] = [e.split("\n")[0][:160] for e in errs]
            except AnalysisError as err:
                fired, errors = {}, {"*": [str(err)]}
            finally:
                run(f"git -C {wt} checkout -- .")
            hit = target in fired
            row = {
                "id": sid,
                "target": target,
                "detected": hit,
                "rules": fired.get(target, []),
                "other_properties": {k: v for k, v in fired.items() if k != target},
                "analysis_errors": errors,
                "summary": meta.get("summary", ""),
            }
            rows.append(row)
            status = "DETECTED" if hit else ("ANALYSIS-ERROR" if target in errors else "missed")
            others = ",".join(k for k in fired if k != target)
            print(f"{sid:14s} target={target} {status:14s} rules={','.join(row['rules']) or '-':40s} also={others or '-'}"
                  + (f" errors={errors}" if errors else ""))
    finally:
        run(f"git -C {args.repo} worktree remove --force {wt}")
    n = len([r for r in rows if "detected" in r])
    k = len([r for r in rows if r.get("detected")])
    print(f"\n{k}/{n} seeded changes detected by the check of their target property")
    if args.json:
        json.dump(rows, open(args.json, "w"), indent=1)
    return 0


if __name__ == "__main__":
    sys.exit(main())
