#!/venv/bin/python
"""Development aid: run selected rules (or a property's rules) against one seeded change.

    /venv/bin/python tools/try_seed.py C06-1 [RULE ...| --prop C06]

Applies seeded/<id>/patch.diff in a scratch worktree (/tmp/try_seed_wt, created on demand, always restored).
"""
import os
import subprocess
import sys

sys.path.insert(0, os.path.dirname(os.path.dirname(os.path.abspath(__file__))))
from srcheck import props  # noqa: E402
from srcheck.__main__ import run_property  # noqa: E402
from srcheck.core import AnalysisError, Program  # noqa: E402

WT = "/tmp/try_seed_wt"


def sh(cmd):
    return subprocess.run(cmd, shell=True, capture_output=True, text=True)


def main():
    args = sys.argv[1:]
    sid = args[0]
    rest = args[1:]
    patch = sid if os.path.isfile(sid) else f"/verif/seeded/{sid}/patch.diff"
    if not os.path.isdir(WT):
        r = sh(f"git -C /repo worktree add --detach {WT} HEAD")
        if r.returncode:
            print(r.stderr)
            return 2
    sh(f"git -C {WT} checkout -q --detach $(git -C /repo rev-parse HEAD) && git -C {WT} checkout -- .")
    r = sh(f"git -C {WT} apply {patch}")
    if r.returncode:
        print("patch does not apply:", r.stderr)
        return 2
    try:
        prog = Program(os.path.join(WT, "src", "superrec2"))
        if rest and rest[0] == "--prop":
            results, errs = run_property(rest[1], "quick", prog, {})
            for res in results:
                for f in res.findings:
                    print(f"[{f.rule}] {f.construct}: {f.message[:300]}")
            for e in errs:
                print("ANALYSIS-ERROR", e[:400])
            return 0
        names = rest or [r for r, _s in props.PROPERTY_RULES[sid.split("-")[0]]]
        for name in names:
            try:
                res = props.RULES[name](prog)
            except AnalysisError as err:
                print(f"ANALYSIS-ERROR {name}: {err}")
                continue
            print(f"{name}: {len(res.obligations)} obligations, {len(res.findings)} findings")
            for f in res.findings:
                print(f"   [{f.rule}] {f.construct}: {f.message[:400]}")
    finally:
        sh(f"git -C {WT} checkout -- .")
    return 0


if __name__ == "__main__":
    sys.exit(main())
