"""Generic single-edit mutants of a module and the static sweep of the thorough tier.

`enumerate_mutants(src)` lists every operator flip, constant +-1, argument swap, and/or exchange, negated test,
swapped conditional arms, deleted call / augmented assignment / continue / break, [0]<->[1] index and
left<->right identifier swap that still compiles.  `run_sweep(prop_id, prog)` analyses the mutants of the files a
property is anchored in with that property's rules only (in memory, 16 processes) and reports how many are
flagged, how many stop with an analysis error and which stay silent - evidence of sensitivity, never a verdict:
a silent mutant may be equivalent, or break a clause the property does not decide statically.
"""
from __future__ import annotations

import ast
import copy
import json
import os
from concurrent.futures import ProcessPoolExecutor
from typing import Dict, List, Optional, Tuple

from .core import VERIF_DIR, AnalysisError, Program

CMP_FLIP = {
    ast.Lt: ast.LtE, ast.LtE: ast.Lt, ast.Gt: ast.GtE, ast.GtE: ast.Gt, ast.Eq: ast.NotEq, ast.NotEq: ast.Eq,
    ast.Is: ast.IsNot, ast.IsNot: ast.Is, ast.In: ast.NotIn, ast.NotIn: ast.In,
}
SKIP_FILES = ("__init__.py", "cli/util.py", "cli/__main__.py")


def enumerate_mutants(src: str) -> List[Tuple[str, int, str]]:
    """[(operator description, line, mutated source)]"""
    tree = ast.parse(src)
    nodes = list(ast.walk(tree))
    out: List[Tuple[str, int, str]] = []
    base = ast.unparse(tree)

    def emit(desc: str, node: ast.AST, apply) -> None:
        t2 = copy.deepcopy(tree)
        # locate the same node by position in walk order
        idx = nodes.index(node)
        target = list(ast.walk(t2))[idx]
        if apply(target) is False:
            return
        try:
            ast.fix_missing_locations(t2)
            new = ast.unparse(t2)
            compile(new, "<mutant>", "exec")
        except Exception:  # noqa: BLE001
            return
        if new != base:
            out.append((desc, getattr(node, "lineno", 0), new))

    in_doc = set()
    for node in nodes:
        if isinstance(node, (ast.FunctionDef, ast.ClassDef, ast.Module, ast.AsyncFunctionDef)) and node.body:
            first = node.body[0]
            if isinstance(first, ast.Expr) and isinstance(first.value, ast.Constant) and isinstance(first.value.value, str):
                in_doc.add(id(first.value))
    # annotations are not code
    ann = set()
    for node in nodes:
        for field in ("annotation", "returns"):
            a = getattr(node, field, None)
            if a is not None:
                ann |= {id(x) for x in ast.walk(a)}
    for node in nodes:
        if id(node) in ann or id(node) in in_doc:
            continue
        if isinstance(node, ast.Compare) and len(node.ops) == 1 and type(node.ops[0]) in CMP_FLIP:
            def f(t, _n=node):
                t.ops = [CMP_FLIP[type(t.ops[0])]()]
            emit(f"compare {type(node.ops[0]).__name__}->{CMP_FLIP[type(node.ops[0])].__name__}", node, f)
        if isinstance(node, ast.BoolOp):
            def f(t):
                t.op = ast.Or() if isinstance(t.op, ast.And) else ast.And()
            emit("and<->or", node, f)
        if isinstance(node, ast.UnaryOp) and isinstance(node.op, ast.Not):
            parent_is_stmt = False
            def f(t):
                t.op = ast.UAdd()  # placeholder, replaced below
                return False
            # replace `not x` by `x`: done through the parent
        if isinstance(node, ast.Constant) and isinstance(node.value, bool):
            def f(t):
                t.value = not t.value
            emit(f"{node.value}->{not node.value}", node, f)
        elif isinstance(node, ast.Constant) and isinstance(node.value, int) and -3 <= node.value <= 8:
            for delta in (1, -1):
                def f(t, d=delta):
                    t.value = t.value + d
                emit(f"const {node.value}->{node.value + delta}", node, f)
        if isinstance(node, ast.BinOp) and isinstance(node.op, (ast.Add, ast.Sub)):
            def f(t):
                t.op = ast.Sub() if isinstance(t.op, ast.Add) else ast.Add()
            emit("+<->-", node, f)
        if isinstance(node, ast.BinOp) and isinstance(node.op, (ast.Add, ast.Sub, ast.Mult)):
            def f(t):
                t.op = ast.Add()
                t.right = ast.Constant(value=0)
            emit("drop right operand", node, f)
        if isinstance(node, ast.Call) and len(node.args) == 2 and not node.keywords and not any(isinstance(a, ast.Starred) for a in node.args):
            if ast.dump(node.args[0]) != ast.dump(node.args[1]):
                def f(t):
                    t.args = [t.args[1], t.args[0]]
                emit("swap arguments", node, f)
        if isinstance(node, ast.IfExp):
            def f(t):
                t.body, t.orelse = t.orelse, t.body
            emit("swap IfExp arms", node, f)
        if isinstance(node, (ast.If, ast.While)) and isinstance(node.test, ast.UnaryOp) and isinstance(node.test.op, ast.Not):
            def f(t):
                t.test = t.test.operand
            emit("drop not", node, f)
        elif isinstance(node, ast.If):
            def f(t):
                t.test = ast.UnaryOp(op=ast.Not(), operand=t.test)
            emit("negate if", node, f)
        if isinstance(node, (ast.AugAssign, ast.Expr, ast.Continue, ast.Break)) and id(getattr(node, "value", None)) not in in_doc:
            if isinstance(node, ast.Expr) and not isinstance(node.value, ast.Call):
                continue
            def f(t):
                for fld in list(t._fields):
                    pass
                t.__class__ = ast.Pass
                t._fields = ()
            emit(f"delete {type(node).__name__}", node, f)
        if isinstance(node, ast.Subscript) and isinstance(node.slice, ast.Constant) and node.slice.value in (0, 1) and isinstance(node.ctx, ast.Load):
            def f(t):
                t.slice = ast.Constant(value=1 - t.slice.value)
            emit(f"index {node.slice.value}->{1 - node.slice.value}", node, f)
        if isinstance(node, ast.Name) and isinstance(node.ctx, ast.Load):
            for a, b in (("left", "right"), ("right", "left"), ("first", "second"), ("second", "first")):
                if a in node.id.split("_"):
                    new_id = "_".join(b if p == a else p for p in node.id.split("_"))
                    def f(t, new_id=new_id):
                        t.id = new_id
                    emit(f"name {node.id}->{new_id}", node, f)
                    break
    # de-duplicate
    seen = set()
    uniq = []
    for desc, line, new in out:
        if new in seen:
            continue
        seen.add(new)
        uniq.append((desc, line, new))
    return uniq




def anchor_files(prop_id: str, prog: Program) -> List[str]:
    """relpaths (under the package root) of the files a property is anchored in (properties.jsonl)."""
    path = os.path.join(VERIF_DIR, "properties.jsonl")
    files: List[str] = []
    with open(path, encoding="utf8") as handle:
        for line in handle:
            p = json.loads(line)
            if p["id"] == prop_id:
                files = p.get("anchors", {}).get("files", [])
    out = []
    for f in files:
        rel = f.split("src/superrec2/", 1)[-1]
        for mod in prog.modules.values():
            if mod.relpath == rel or (rel.endswith("/") and mod.relpath.startswith(rel)):
                if mod.src.strip() and not mod.relpath.endswith(SKIP_FILES):
                    out.append(mod.relpath)
    return sorted(set(out))


def _analyse(args):
    root, relpath, desc, line, new_src, rule_scopes, base = args
    from . import props

    fired, errors = [], []
    try:
        prog = Program(root, {relpath: new_src})
    except AnalysisError as err:
        return {"file": relpath, "line": line, "op": desc, "fired": [], "errors": [str(err)[:80]]}
    for name, scope in rule_scopes:
        try:
            res = props.RULES[name](prog)
            if any(f.construct not in base.get(name, ()) and props.in_scope(f.construct, scope) for f in res.findings):
                fired.append(name)
        except AnalysisError:
            errors.append(name)
        except Exception as err:  # noqa: BLE001
            errors.append(f"{name}:CRASH:{type(err).__name__}")
    return {"file": relpath, "line": line, "op": desc, "fired": sorted(set(fired)), "errors": sorted(set(errors))}


def run_sweep(prop_id: str, prog: Program, jobs: int = 16, limit: int = 1200) -> Dict:
    from . import props

    scoped = props.PROPERTY_RULES[prop_id]
    base: Dict[str, List[str]] = {}
    for name, _s in scoped:
        if name in base:
            continue
        try:
            base[name] = sorted({f.construct for f in props.RULES[name](prog).findings})
        except AnalysisError:
            base[name] = []
    files = anchor_files(prop_id, prog)
    tasks = []
    for rel in files:
        mod = next(m for m in prog.modules.values() if m.relpath == rel)
        for desc, line, new in enumerate_mutants(mod.src):
            tasks.append((prog.root, rel, desc, line, new, scoped, base))
    total = len(tasks)
    if total > limit:
        step = total / limit
        tasks = [tasks[int(i * step)] for i in range(limit)]
    rows = []
    if tasks:
        with ProcessPoolExecutor(max_workers=jobs) as pool:
            rows = list(pool.map(_analyse, tasks, chunksize=4))
    flagged = [r for r in rows if r["fired"]]
    stopped = [r for r in rows if not r["fired"] and r["errors"]]
    silent = [r for r in rows if not r["fired"] and not r["errors"]]
    by_rule: Dict[str, int] = {}
    for r in flagged:
        for name in r["fired"]:
            by_rule[name] = by_rule.get(name, 0) + 1
    return {
        "files": files,
        "mutants_enumerated": total,
        "mutants_analysed": len(rows),
        "flagged": len(flagged),
        "analysis_error": len(stopped),
        "silent": len(silent),
        "flagged_by_rule": dict(sorted(by_rule.items(), key=lambda kv: -kv[1])),
        "silent_sample": [f"{r['file']}:{r['line']} {r['op']}" for r in silent[:40]],
        "rule": "every generic single-edit mutant of the files the property is anchored in, analysed in memory by the "
        "property's rules; flagged = a rule reports a finding the unchanged tree does not have; a silent mutant is "
        "either equivalent or breaks a clause that is not decided statically (DESIGN.md section 10); never a verdict",
    }
