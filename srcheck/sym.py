"""Algebraic normal forms of expressions.

`+ - *`, unary minus and division by a constant are interpreted; every other
sub-expression is an opaque *atom* identified by its canonical text, in which
arithmetic sub-expressions are themselves normalised (so the result is
insensitive to association, ordering of commutative operands, keyword order
of calls and redundant parentheses).
"""
from __future__ import annotations

import ast
from fractions import Fraction
from typing import Callable, Dict, Iterable, List, Optional, Tuple

Mono = Tuple[Tuple[str, int], ...]


class Poly:
    """Polynomial with rational coefficients over named atoms."""

    __slots__ = ("terms", "atoms")

    def __init__(self, terms: Optional[Dict[Mono, Fraction]] = None, atoms: Optional[Dict[str, ast.AST]] = None):
        self.terms: Dict[Mono, Fraction] = {m: c for m, c in (terms or {}).items() if c != 0}
        self.atoms: Dict[str, ast.AST] = dict(atoms or {})

    # constructors
    @staticmethod
    def const(value) -> "Poly":
        return Poly({(): Fraction(value)})

    @staticmethod
    def atom(key: str, node: Optional[ast.AST] = None) -> "Poly":
        return Poly({((key, 1),): Fraction(1)}, {key: node} if node is not None else {})

    # arithmetic
    def _merge_atoms(self, other: "Poly") -> Dict[str, ast.AST]:
        atoms = dict(self.atoms)
        atoms.update(other.atoms)
        return atoms

    def __add__(self, other: "Poly") -> "Poly":
        terms = dict(self.terms)
        for mono, coef in other.terms.items():
            terms[mono] = terms.get(mono, Fraction(0)) + coef
        return Poly(terms, self._merge_atoms(other))

    def __neg__(self) -> "Poly":
        return Poly({m: -c for m, c in self.terms.items()}, self.atoms)

    def __sub__(self, other: "Poly") -> "Poly":
        return self + (-other)

    def __mul__(self, other: "Poly") -> "Poly":
        terms: Dict[Mono, Fraction] = {}
        for m1, c1 in self.terms.items():
            for m2, c2 in other.terms.items():
                powers: Dict[str, int] = {}
                for key, exp in m1 + m2:
                    powers[key] = powers.get(key, 0) + exp
                mono = tuple(sorted(powers.items()))
                terms[mono] = terms.get(mono, Fraction(0)) + c1 * c2
        return Poly(terms, self._merge_atoms(other))

    def scale(self, factor: Fraction) -> "Poly":
        return Poly({m: c * factor for m, c in self.terms.items()}, self.atoms)

    # queries
    def is_const(self) -> bool:
        return all(m == () for m in self.terms)

    def const_value(self) -> Fraction:
        return self.terms.get((), Fraction(0))

    def atom_keys(self) -> List[str]:
        keys = set()
        for mono in self.terms:
            for key, _ in mono:
                keys.add(key)
        return sorted(keys)

    def coefficient_of(self, key: str) -> "Poly":
        """Polynomial q such that self = key*q + (terms without key); degree 1 in key."""
        terms: Dict[Mono, Fraction] = {}
        for mono, coef in self.terms.items():
            d = dict(mono)
            if d.get(key) == 1:
                rest = tuple(sorted((k, e) for k, e in d.items() if k != key))
                terms[rest] = terms.get(rest, Fraction(0)) + coef
        return Poly(terms, self.atoms)

    def without(self, key: str) -> "Poly":
        return Poly({m: c for m, c in self.terms.items() if key not in dict(m)}, self.atoms)

    def substitute(self, mapping: Dict[str, "Poly"]) -> "Poly":
        result = Poly()
        for mono, coef in self.terms.items():
            term = Poly.const(coef)
            for key, exp in mono:
                base = mapping.get(key)
                if base is None:
                    base = Poly.atom(key, self.atoms.get(key))
                for _ in range(exp):
                    term = term * base
            result = result + term
        return result

    def rename(self, fn: Callable[[str], str]) -> "Poly":
        return self.substitute({k: Poly.atom(fn(k), self.atoms.get(k)) for k in self.atom_keys()})

    def __eq__(self, other) -> bool:  # type: ignore[override]
        return isinstance(other, Poly) and self.terms == other.terms

    def __hash__(self) -> int:
        return hash(tuple(sorted(self.terms.items())))

    def __str__(self) -> str:
        if not self.terms:
            return "0"
        parts = []
        for mono, coef in sorted(self.terms.items(), key=lambda kv: (len(kv[0]), kv[0])):
            factors = [k if e == 1 else f"{k}^{e}" for k, e in mono]
            if not factors:
                parts.append(_fmt(coef))
            elif coef == 1:
                parts.append("*".join(factors))
            elif coef == -1:
                parts.append("-" + "*".join(factors))
            else:
                parts.append(_fmt(coef) + "*" + "*".join(factors))
        return " + ".join(parts).replace("+ -", "- ")

    __repr__ = __str__


def _fmt(value: Fraction) -> str:
    return str(value.numerator) if value.denominator == 1 else f"{value.numerator}/{value.denominator}"


# ---------------------------------------------------------------------------
# normalisation


class Normaliser:
    """expr -> Poly, with canonical text for atoms.

    `atom_hook(node) -> Optional[str]` lets a rule name atoms by *role*
    (e.g. ``c[FULL_LOSS]``) before the generic canonical text is used.
    `rewrite(node) -> node` is applied to every sub-expression first (used by
    the transposition check).
    """

    def __init__(
        self,
        atom_hook: Optional[Callable[[ast.AST], Optional[str]]] = None,
        commutative_calls: Iterable[str] = ("min", "max"),
    ):
        self.atom_hook = atom_hook
        self.commutative_calls = set(commutative_calls)

    # -- polynomials -------------------------------------------------------
    def poly(self, node: ast.AST) -> Poly:
        if isinstance(node, ast.Constant) and isinstance(node.value, (int, float)) and not isinstance(node.value, bool):
            if isinstance(node.value, float) and node.value != node.value:
                return Poly.atom("nan", node)
            if isinstance(node.value, float) and node.value in (float("inf"), float("-inf")):
                return Poly.atom("inf", node) if node.value > 0 else -Poly.atom("inf", node)
            return Poly.const(Fraction(node.value).limit_denominator(10**9))
        if isinstance(node, ast.UnaryOp) and isinstance(node.op, ast.USub):
            return -self.poly(node.operand)
        if isinstance(node, ast.UnaryOp) and isinstance(node.op, ast.UAdd):
            return self.poly(node.operand)
        if isinstance(node, ast.BinOp):
            if isinstance(node.op, ast.Add):
                return self.poly(node.left) + self.poly(node.right)
            if isinstance(node.op, ast.Sub):
                return self.poly(node.left) - self.poly(node.right)
            if isinstance(node.op, ast.Mult):
                return self.poly(node.left) * self.poly(node.right)
            if isinstance(node.op, ast.Div):
                right = self.poly(node.right)
                if right.is_const() and right.const_value() != 0:
                    return self.poly(node.left).scale(1 / right.const_value())
        key = None
        if self.atom_hook is not None:
            key = self.atom_hook(node)
        if key is None:
            key = self.text(node, top=False)
        return Poly.atom(key, node)

    # -- canonical text ----------------------------------------------------
    def text(self, node: ast.AST, top: bool = True) -> str:
        if top and isinstance(node, (ast.BinOp, ast.UnaryOp)) or (
            top and isinstance(node, ast.Constant) and isinstance(node.value, (int, float)) and not isinstance(node.value, bool)
        ):
            return f"({self.poly(node)})"
        if isinstance(node, ast.BinOp) and isinstance(node.op, (ast.Add, ast.Sub, ast.Mult)):
            return f"({self.poly(node)})"
        if isinstance(node, ast.BinOp) and isinstance(node.op, ast.Div):
            pol = self.poly(node)
            return f"({pol})"
        if isinstance(node, ast.UnaryOp) and isinstance(node.op, (ast.USub, ast.UAdd)):
            return f"({self.poly(node)})"
        if self.atom_hook is not None and not top:
            key = self.atom_hook(node)
            if key is not None:
                return key
        if isinstance(node, ast.Name):
            return node.id
        if isinstance(node, ast.Constant):
            return repr(node.value)
        if isinstance(node, ast.Attribute):
            return f"{self.text(node.value, False)}.{node.attr}"
        if isinstance(node, ast.Subscript):
            # sorted((a, b, ...))[-1] is max(a, b, ...), sorted((a, b, ...))[0] is min(a, b, ...)
            base = node.value
            if (
                isinstance(base, ast.Call) and isinstance(base.func, ast.Name) and base.func.id == "sorted" and len(base.args) == 1
                and not base.keywords and isinstance(base.args[0], (ast.Tuple, ast.List)) and base.args[0].elts
            ):
                idx = None
                if isinstance(node.slice, ast.Constant) and node.slice.value == 0:
                    idx = "min"
                elif isinstance(node.slice, ast.UnaryOp) and isinstance(node.slice.op, ast.USub) and isinstance(node.slice.operand, ast.Constant) and node.slice.operand.value == 1:
                    idx = "max"
                if idx is not None:
                    return self.text(ast.Call(func=ast.Name(id=idx, ctx=ast.Load()), args=list(base.args[0].elts), keywords=[]), False)
            return f"{self.text(node.value, False)}[{self.text(node.slice, False)}]"
        if isinstance(node, ast.Call):
            args = [self.text(a, False) for a in node.args]
            fname = self.text(node.func, False)
            if fname in self.commutative_calls and not node.keywords:
                args.sort()
            kws = sorted(f"{k.arg}={self.text(k.value, False)}" for k in node.keywords)
            return f"{fname}({', '.join(args + kws)})"
        if isinstance(node, ast.IfExp):
            return (
                f"Sel({self.text(node.test, False)}; {self.text(node.body, False)}; "
                f"{self.text(node.orelse, False)})"
            )
        if isinstance(node, ast.Compare):
            parts = [self.text(node.left, False)]
            for op, right in zip(node.ops, node.comparators):
                parts.append(type(op).__name__)
                parts.append(self.text(right, False))
            return "(" + " ".join(parts) + ")"
        if isinstance(node, ast.BoolOp):
            vals = sorted(self.text(v, False) for v in node.values)
            return "(" + f" {type(node.op).__name__} ".join(vals) + ")"
        if isinstance(node, ast.UnaryOp):
            return f"{type(node.op).__name__}({self.text(node.operand, False)})"
        if isinstance(node, (ast.Tuple, ast.List)):
            return "[" + ", ".join(self.text(e, False) for e in node.elts) + "]"
        if isinstance(node, ast.Starred):
            return "*" + self.text(node.value, False)
        if isinstance(node, (ast.GeneratorExp, ast.ListComp, ast.SetComp)):
            gens = []
            for gen in node.generators:
                conds = " ".join("if " + self.text(c, False) for c in gen.ifs)
                gens.append(f"for {self.text(gen.target, False)} in {self.text(gen.iter, False)} {conds}".strip())
            return f"{type(node).__name__}({self.text(node.elt, False)} {' '.join(gens)})"
        if isinstance(node, ast.keyword):
            return f"{node.arg}={self.text(node.value, False)}"
        if isinstance(node, ast.JoinedStr):
            return "f" + repr(ast.unparse(node))
        # generic fallback: type + fields
        fields = []
        for fname, value in ast.iter_fields(node):
            if isinstance(value, ast.AST):
                fields.append(f"{fname}={self.text(value, False)}")
            elif isinstance(value, list):
                fields.append(
                    f"{fname}=[" + ", ".join(self.text(v, False) if isinstance(v, ast.AST) else repr(v) for v in value) + "]"
                )
            elif fname not in ("ctx", "type_comment", "kind"):
                fields.append(f"{fname}={value!r}")
        return f"{type(node).__name__}({', '.join(fields)})"


def poly_of(node: ast.AST, atom_hook=None) -> Poly:
    return Normaliser(atom_hook).poly(node)
