"""Abstract case execution: straight-line interpretation of a statement list under an oracle for its tests.

Used by the decision-table rules (constructor tables, command-line flow, key resolution).  A *case* is a set of
facts about the inputs; the oracle answers the leaves of every test from those facts (three-valued); the
executor follows the decided arm of every `if` / conditional expression, records assignments symbolically
(right-hand sides with already known names substituted) and records the observable events (calls made as
statements, returns, raises, yields) in order.  A test the oracle cannot decide stops the analysis
(`AnalysisError`): the idiom is not one the table understands.

Nothing of the analysed program is executed; values are syntax trees.
"""
from __future__ import annotations

import ast
import copy
from dataclasses import dataclass, field
from typing import Callable, Dict, List, Optional, Sequence, Tuple

from .boolean import peval
from .core import AnalysisError, short

Oracle = Callable[[ast.AST, Dict[str, ast.AST]], Optional[bool]]


@dataclass
class Outcome:
    env: Dict[str, ast.AST] = field(default_factory=dict)
    events: List[Tuple[str, ast.AST]] = field(default_factory=list)
    exit: Optional[Tuple[str, Optional[ast.AST]]] = None  # ("return", expr) / ("raise", expr) / ("continue"|"break", None)
    stores: List[Tuple[ast.AST, ast.AST]] = field(default_factory=list)  # (target, value) for non-name targets

    def calls(self, name: str) -> List[ast.Call]:
        from .core import dotted

        return [e for kind, e in self.events if kind == "call" and isinstance(e, ast.Call) and (dotted(e.func) or "").endswith(name)]


class _Subst(ast.NodeTransformer):
    def __init__(self, env: Dict[str, ast.AST]):
        self.env = env

    def visit_Name(self, node: ast.Name):
        if isinstance(node.ctx, ast.Load) and node.id in self.env:
            return copy.deepcopy(self.env[node.id])
        return node

    def visit_Lambda(self, node):  # do not substitute inside closures
        return node

    def visit_ListComp(self, node):
        return node

    visit_SetComp = visit_DictComp = visit_GeneratorExp = visit_ListComp


def subst(expr: ast.AST, env: Dict[str, ast.AST]) -> ast.AST:
    return _Subst(env).visit(copy.deepcopy(expr))


def _resolve(expr: ast.AST, env: Dict[str, ast.AST], oracle: Oracle) -> ast.AST:
    """Substitute known names and fold conditional expressions the oracle decides."""
    expr = subst(expr, env)

    class Fold(ast.NodeTransformer):
        def visit_IfExp(self, node: ast.IfExp):
            # lazily, like the language: the test first, then only the selected arm (an inner test may be
            # meaningless - a TypeError - on the cases the outer test excludes)
            test = self.visit(node.test)
            res = peval(test, lambda e: oracle(e, env))
            if isinstance(res, bool):
                return self.visit(node.body if res else node.orelse)
            node.test = test
            node.body = self.visit(node.body)
            node.orelse = self.visit(node.orelse)
            return node

    return Fold().visit(expr)


def run_cases(
    stmts: Sequence[ast.stmt],
    oracle: Oracle,
    env: Optional[Dict[str, ast.AST]] = None,
    where: str = "",
    on_loop: Optional[Callable[[ast.stmt, "Outcome"], Optional[Sequence[ast.stmt]]]] = None,
) -> Outcome:
    out = Outcome(env=dict(env or {}))
    _run(list(stmts), oracle, out, where, on_loop)
    return out


def _run(stmts, oracle, out: Outcome, where: str, on_loop) -> bool:
    """Returns False when execution left the block (return/raise/continue/break)."""
    for st in stmts:
        if isinstance(st, ast.Expr):
            if isinstance(st.value, ast.Constant):
                continue
            val = _resolve(st.value, out.env, oracle)
            if isinstance(val, (ast.Yield, ast.YieldFrom)):
                out.events.append(("yield", val.value))
            elif isinstance(val, ast.Call):
                out.events.append(("call", val))
            else:
                out.events.append(("expr", val))
        elif isinstance(st, (ast.Assign, ast.AnnAssign)):
            if isinstance(st, ast.AnnAssign) and st.value is None:
                continue
            val = _resolve(st.value, out.env, oracle)
            targets = st.targets if isinstance(st, ast.Assign) else [st.target]
            for tgt in targets:
                if isinstance(tgt, ast.Name):
                    out.env[tgt.id] = val
                elif isinstance(tgt, ast.Tuple) and isinstance(val, ast.Tuple) and len(tgt.elts) == len(val.elts) and all(isinstance(e, ast.Name) for e in tgt.elts):
                    for e, v in zip(tgt.elts, val.elts):
                        out.env[e.id] = v
                elif isinstance(tgt, ast.Tuple):
                    for i, e in enumerate(tgt.elts):
                        if isinstance(e, ast.Name):
                            out.env[e.id] = ast.Subscript(value=val, slice=ast.Constant(value=i), ctx=ast.Load())
                else:
                    out.stores.append((_resolve(tgt, out.env, oracle), val))
        elif isinstance(st, ast.AugAssign):
            if isinstance(st.target, ast.Name):
                cur = out.env.get(st.target.id, ast.Name(id=st.target.id, ctx=ast.Load()))
                out.env[st.target.id] = ast.BinOp(left=cur, op=st.op, right=_resolve(st.value, out.env, oracle))
            else:
                out.stores.append((_resolve(st.target, out.env, oracle), _resolve(st.value, out.env, oracle)))
        elif isinstance(st, ast.If):
            res = peval(subst(st.test, out.env), lambda e: oracle(e, out.env))
            if not isinstance(res, bool):
                raise AnalysisError(f"{where}: the test `{short(st.test)}` is not decided by the case table (residual `{short(res)}`)")
            if not _run(st.body if res else st.orelse, oracle, out, where, on_loop):
                return False
        elif isinstance(st, ast.Return):
            out.exit = ("return", _resolve(st.value, out.env, oracle) if st.value is not None else None)
            return False
        elif isinstance(st, ast.Raise):
            out.exit = ("raise", st.exc)
            return False
        elif isinstance(st, (ast.Continue, ast.Break)):
            out.exit = (type(st).__name__.lower(), None)
            return False
        elif isinstance(st, (ast.Pass, ast.Import, ast.ImportFrom, ast.Global, ast.Nonlocal, ast.FunctionDef, ast.Assert)):
            continue
        elif isinstance(st, ast.With):
            if not _run(st.body, oracle, out, where, on_loop):
                return False
        elif isinstance(st, ast.Try):
            if not _run(st.body, oracle, out, where, on_loop):
                return False
            if not _run(st.finalbody, oracle, out, where, on_loop):
                return False
        elif isinstance(st, (ast.For, ast.While)):
            if on_loop is None:
                raise AnalysisError(f"{where}: a loop (`{short(st, 60)}`) inside a decision table is not understood")
            body = on_loop(st, out)
            if body is not None:
                out.events.append(("loop", st))
                sub = Outcome(env=dict(out.env))
                _run(list(body), oracle, sub, where, on_loop)
                out.events.extend(("in-loop:" + k, v) for k, v in sub.events)
                out.stores.extend(sub.stores)
        else:
            raise AnalysisError(f"{where}: statement `{short(st, 60)}` is not understood by the case executor")
    return True
