"""Program model, findings, verdict protocol for the superrec2 static checks.

Nothing from /repo is imported or executed here: every module of the package
is read as text and parsed with :mod:`ast` on every run.
"""
from __future__ import annotations

import ast
import hashlib
import json
import os
import time
from dataclasses import dataclass, field
from typing import Any, Callable, Dict, Iterable, List, Optional, Tuple

VERIF_DIR = os.path.dirname(os.path.dirname(os.path.abspath(__file__)))
DEFAULT_SRC = "/repo/src/superrec2"
PACKAGE = "superrec2"


class AnalysisError(Exception):
    """The analyser cannot decide (vanished anchor, unrecognised idiom, floor).

    Never reported as a violation and never as a pass: exit status 2.
    """


# ---------------------------------------------------------------------------
# program model


@dataclass
class Module:
    name: str  # dotted, e.g. superrec2.compute.reconciliation
    relpath: str  # relative to the package root, e.g. compute/reconciliation.py
    path: str  # path used in reports
    src: str
    tree: ast.Module
    sha256: str

    _parents: Optional[Dict[int, ast.AST]] = None

    def parents(self) -> Dict[int, ast.AST]:
        if self._parents is None:
            par: Dict[int, ast.AST] = {}
            for node in ast.walk(self.tree):
                for child in ast.iter_child_nodes(node):
                    par[id(child)] = node
            self._parents = par
        return self._parents

    def parent(self, node: ast.AST) -> Optional[ast.AST]:
        return self.parents().get(id(node))


FuncNode = (ast.FunctionDef, ast.AsyncFunctionDef)


class Program:
    """All modules of the package, parsed from the working tree."""

    def __init__(self, root: Optional[str] = None, overrides: Optional[Dict[str, str]] = None):
        self.root = root or os.environ.get("SUPERREC2_SRC", DEFAULT_SRC)
        self.overrides = dict(overrides or {})
        self.modules: Dict[str, Module] = {}
        self._defs: Dict[str, Dict[str, ast.AST]] = {}
        self.memo: Dict[Any, Any] = {}
        self._load()

    # -- loading -----------------------------------------------------------
    def _load(self) -> None:
        if not os.path.isdir(self.root):
            raise AnalysisError(f"package root {self.root} does not exist")
        for dirpath, dirnames, filenames in os.walk(self.root):
            dirnames[:] = sorted(d for d in dirnames if d != "__pycache__")
            for fname in sorted(filenames):
                if not fname.endswith(".py"):
                    continue
                path = os.path.join(dirpath, fname)
                rel = os.path.relpath(path, self.root)
                if rel in self.overrides:
                    src = self.overrides[rel]
                else:
                    with open(path, encoding="utf8") as handle:
                        src = handle.read()
                try:
                    tree = ast.parse(src, filename=path)
                except SyntaxError as err:
                    raise AnalysisError(f"syntax error in {path}: {err}") from err
                parts = rel[:-3].split(os.sep)
                if parts[-1] == "__init__":
                    parts = parts[:-1]
                name = ".".join([PACKAGE] + parts)
                self.modules[name] = Module(
                    name=name,
                    relpath=rel,
                    path=path,
                    src=src,
                    tree=tree,
                    sha256=hashlib.sha256(src.encode("utf8")).hexdigest(),
                )
        for rel in self.overrides:
            if not any(m.relpath == rel for m in self.modules.values()):
                raise AnalysisError(f"override for unknown module {rel}")
        # one spelling for behaviour-preserving variants (canon.py); positions of the source are kept
        if not os.environ.get("SRCHECK_NO_CANON"):
            from .canon import canonicalise, identifiers, module_string_constants, package_signatures

            signatures = package_signatures([m.tree for m in self.modules.values()])
            constants = {name: module_string_constants(m.tree) for name, m in self.modules.items()}
            mentioned = {name: identifiers(m.tree) for name, m in self.modules.items()}
            for name, m in self.modules.items():
                # string constants imported by name from another module of the package
                imported: Dict[str, str] = {}
                is_pkg = m.relpath.endswith("__init__.py")
                for st in m.tree.body:
                    if isinstance(st, ast.ImportFrom):
                        if st.level:
                            base = name.split(".")
                            base = base[: len(base) - (st.level - (1 if is_pkg else 0))]
                            src = ".".join(base + ([st.module] if st.module else []))
                        else:
                            src = st.module or ""
                        for a in st.names:
                            if a.name in constants.get(src, {}):
                                imported[a.asname or a.name] = constants[src][a.name]
                foreign = set().union(*[ids for other, ids in mentioned.items() if other != name])
                m.tree = canonicalise(m.tree, signatures, imported, foreign)

    def with_override(self, relpath: str, src: str) -> "Program":
        over = dict(self.overrides)
        over[relpath] = src
        return Program(self.root, over)

    # -- lookup ------------------------------------------------------------
    def module(self, name: str) -> Module:
        full = name if name.startswith(PACKAGE) else f"{PACKAGE}.{name}"
        if full not in self.modules:
            raise AnalysisError(f"anchored module {full} not found under {self.root}")
        return self.modules[full]

    def defs(self, modname: str) -> Dict[str, ast.AST]:
        """Qualified name -> def node (functions, classes, nested ones)."""
        mod = self.module(modname)
        if mod.name in self._defs:
            return self._defs[mod.name]
        table: Dict[str, ast.AST] = {}

        def visit(node: ast.AST, prefix: str) -> None:
            for child in ast.iter_child_nodes(node):
                if isinstance(child, FuncNode + (ast.ClassDef,)):
                    qual = f"{prefix}{child.name}"
                    # an @overload stub is shadowed by the real definition
                    table[qual] = child
                    visit(child, qual + ".")
                elif isinstance(child, (ast.If, ast.For, ast.While, ast.With, ast.Try)):
                    visit(child, prefix)

        visit(mod.tree, "")
        self._defs[mod.name] = table
        return table

    def func(self, modname: str, qualname: str) -> ast.FunctionDef:
        node = self.defs(modname).get(qualname)
        if not isinstance(node, FuncNode):
            raise AnalysisError(f"anchored function {modname}:{qualname} not found")
        return node  # type: ignore[return-value]

    def has_func(self, modname: str, qualname: str) -> bool:
        return isinstance(self.defs(modname).get(qualname), FuncNode)

    def cls(self, modname: str, name: str) -> ast.ClassDef:
        node = self.defs(modname).get(name)
        if not isinstance(node, ast.ClassDef):
            raise AnalysisError(f"anchored class {modname}:{name} not found")
        return node

    def functions(self) -> Iterable[Tuple[Module, str, ast.AST]]:
        for name in sorted(self.modules):
            for qual, node in self.defs(name).items():
                if isinstance(node, FuncNode):
                    yield self.modules[name], qual, node

    def stats(self) -> Dict[str, Any]:
        n_funcs = 0
        n_lambdas = 0
        n_calls = 0
        for mod in self.modules.values():
            for node in ast.walk(mod.tree):
                if isinstance(node, FuncNode):
                    n_funcs += 1
                elif isinstance(node, ast.Lambda):
                    n_lambdas += 1
                elif isinstance(node, ast.Call):
                    n_calls += 1
        return {
            "units": len(self.modules),
            "functions": n_funcs,
            "lambdas": n_lambdas,
            "call_sites": n_calls,
            "unit_digests": {
                m.relpath: m.sha256[:16] for m in sorted(self.modules.values(), key=lambda m: m.relpath)
            },
        }


# ---------------------------------------------------------------------------
# findings and rule results


@dataclass
class Finding:
    rule: str
    construct: str  # stable key: module:function/role  (no line numbers)
    message: str
    file: str = ""
    line: int = 0
    detail: Dict[str, Any] = field(default_factory=dict)

    def key(self) -> str:
        return f"{self.rule} {self.construct}"

    def to_json(self) -> Dict[str, Any]:
        return {
            "rule": self.rule,
            "construct": self.construct,
            "message": self.message,
            "file": self.file,
            "line": self.line,
            "detail": self.detail,
        }


@dataclass
class Obligation:
    rule: str
    construct: str
    ok: bool
    note: str = ""
    nontrivial: bool = True

    def to_json(self) -> Dict[str, Any]:
        return {"rule": self.rule, "construct": self.construct, "ok": self.ok, "note": self.note}


class RuleResult:
    def __init__(self, rule: str, text: str):
        self.rule = rule
        self.text = text  # the sentence of the rule
        self.obligations: List[Obligation] = []
        self.findings: List[Finding] = []

    def ok(self, construct: str, note: str = "", nontrivial: bool = True) -> None:
        self.obligations.append(Obligation(self.rule, construct, True, note, nontrivial))

    def fail(
        self,
        construct: str,
        message: str,
        mod: Optional[Module] = None,
        node: Optional[ast.AST] = None,
        **detail: Any,
    ) -> None:
        self.obligations.append(Obligation(self.rule, construct, False, message))
        self.findings.append(
            Finding(
                rule=self.rule,
                construct=construct,
                message=message,
                file=mod.path if mod else "",
                line=getattr(node, "lineno", 0) if node is not None else 0,
                detail=detail,
            )
        )

    def floor(self, minimum: int, what: str = "instances") -> None:
        if len(self.obligations) < minimum:
            raise AnalysisError(
                f"{self.rule}: found {len(self.obligations)} {what}, "
                f"expected at least {minimum} (anchor vanished or idiom not recognised)"
            )


Rule = Callable[[Program], RuleResult]


# ---------------------------------------------------------------------------
# small ast helpers shared by all rules


def unparse(node: Optional[ast.AST]) -> str:
    if node is None:
        return "<none>"
    try:
        return ast.unparse(node)
    except Exception:  # pragma: no cover
        return ast.dump(node)


def short(node: Optional[ast.AST], limit: int = 160) -> str:
    text = " ".join(unparse(node).split())
    return text if len(text) <= limit else text[: limit - 3] + "..."


def dotted(node: ast.AST) -> Optional[str]:
    """`a.b.c` for Name/Attribute chains, else None."""
    parts: List[str] = []
    while isinstance(node, ast.Attribute):
        parts.append(node.attr)
        node = node.value
    if isinstance(node, ast.Name):
        parts.append(node.id)
        return ".".join(reversed(parts))
    return None


def call_name(node: ast.AST) -> Optional[str]:
    if isinstance(node, ast.Call):
        return dotted(node.func)
    return None


def last_attr(node: ast.AST) -> Optional[str]:
    """The final attribute / name of a callee expression."""
    if isinstance(node, ast.Attribute):
        return node.attr
    if isinstance(node, ast.Name):
        return node.id
    return None


def const(node: ast.AST) -> Any:
    if isinstance(node, ast.Constant):
        return node.value
    if isinstance(node, ast.UnaryOp) and isinstance(node.op, ast.USub) and isinstance(node.operand, ast.Constant):
        if isinstance(node.operand.value, (int, float)):
            return -node.operand.value
    return _NOCONST


class _NoConst:
    def __repr__(self) -> str:
        return "<not-a-constant>"


_NOCONST = _NoConst()


def is_const(node: ast.AST) -> bool:
    return const(node) is not _NOCONST


def walk_no_nested(node: ast.AST, include_root_body: bool = True) -> Iterable[ast.AST]:
    """Walk a function body without entering nested function/lambda/class bodies."""
    stack = list(ast.iter_child_nodes(node))
    while stack:
        cur = stack.pop()
        yield cur
        if isinstance(cur, FuncNode + (ast.Lambda, ast.ClassDef)):
            continue
        stack.extend(ast.iter_child_nodes(cur))


def calls_in(node: ast.AST, nested: bool = True) -> List[ast.Call]:
    it = ast.walk(node) if nested else walk_no_nested(node)
    out = [n for n in it if isinstance(n, ast.Call)]
    out.sort(key=lambda n: (n.lineno, n.col_offset))
    return out


def names_in(node: ast.AST) -> set:
    return {n.id for n in ast.walk(node) if isinstance(n, ast.Name)}


def ast_eq(a: ast.AST, b: ast.AST) -> bool:
    return ast.dump(a) == ast.dump(b)


def kwarg(call: ast.Call, name: str, pos: Optional[int] = None) -> Optional[ast.AST]:
    for kw in call.keywords:
        if kw.arg == name:
            return kw.value
    if pos is not None and len(call.args) > pos and not any(isinstance(a, ast.Starred) for a in call.args[: pos + 1]):
        return call.args[pos]
    return None


def func_params(fn: ast.AST) -> List[str]:
    args = fn.args  # type: ignore[attr-defined]
    return [a.arg for a in args.posonlyargs + args.args + args.kwonlyargs]


# ---------------------------------------------------------------------------
# known findings


@dataclass
class KnownFindings:
    findings: Dict[Tuple[str, str, str], str]  # (property, rule, construct) -> text
    fixed: List[str]

    @staticmethod
    def load(path: Optional[str] = None) -> "KnownFindings":
        path = path or os.path.join(VERIF_DIR, "known_findings.txt")
        found: Dict[Tuple[str, str, str], str] = {}
        fixed: List[str] = []
        if os.path.exists(path):
            with open(path, encoding="utf8") as handle:
                for raw in handle:
                    line = raw.strip()
                    if not line or line.startswith("#"):
                        continue
                    if line.startswith("fixed:"):
                        fixed.append(line)
                    elif line.startswith("finding:"):
                        body = line[len("finding:"):].strip()
                        head, _, text = body.partition(" -- ")
                        fields = dict(part.split("=", 1) for part in head.split() if "=" in part)
                        found[(fields.get("property", ""), fields.get("rule", ""), fields.get("construct", ""))] = text
        return KnownFindings(found, fixed)

    def lookup(self, prop: str, finding: Finding) -> Optional[str]:
        return self.findings.get((prop, finding.rule, finding.construct))


# ---------------------------------------------------------------------------
# evidence


def write_json(path: str, data: Any) -> None:
    os.makedirs(os.path.dirname(path), exist_ok=True)
    tmp = path + ".tmp"
    with open(tmp, "w", encoding="utf8") as handle:
        json.dump(data, handle, indent=1, sort_keys=False, default=str)
        handle.write("\n")
    os.replace(tmp, path)


class Timer:
    def __init__(self) -> None:
        self.start = time.time()

    def elapsed(self) -> float:
        return round(time.time() - self.start, 3)
