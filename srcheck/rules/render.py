"""Rules on render/layout.py, render/tikz.py and utils/tex.py (C13, C15)."""
from __future__ import annotations

import ast
import re
from typing import Dict, List, Optional, Set, Tuple

from .. import costmodel as cm
from ..core import (
    AnalysisError,
    FuncNode,
    Module,
    Program,
    RuleResult,
    calls_in,
    dotted,
    func_params,
    kwarg,
    short,
    walk_no_nested,
)
from ..flow import Opaque, consistent, dealias, guards, inline, loops_around, paths, reaching
from ..resolve import enum_members
from ..templates import HOLE, Skeleton, skeleton, tex_like

LAYOUT = "render.layout"
TIKZ = "render.tikz"
TEX = "utils.tex"

ALL_KINDS = {"LEAF", "SPECIATION", "DUPLICATION", "HORIZONTAL_TRANSFER", "FULL_LOSS"}
KIND_STYLE = {
    "LEAF": "extant gene",
    "SPECIATION": "speciation",
    "DUPLICATION": "duplication",
    "HORIZONTAL_TRANSFER": "horizontal gene transfer",
    "FULL_LOSS": "loss",
}


def _kinds_in_test(test: ast.AST) -> Tuple[Optional[str], Set[str]]:
    """(subject text, set of event members) for `subj == Enum.K` / `subj in (Enum.K, ...)`."""
    if isinstance(test, ast.Compare) and len(test.ops) == 1:
        left, right = test.left, test.comparators[0]
        if isinstance(test.ops[0], ast.Eq):
            for a, b in ((left, right), (right, left)):
                name = dotted(b)
                if name and name.split(".")[0] in ("NodeEvent", "EdgeEvent"):
                    return ast.unparse(a), {name.split(".")[1]}
        if isinstance(test.ops[0], ast.In) and isinstance(right, (ast.Tuple, ast.List, ast.Set)):
            names = [dotted(e) for e in right.elts]
            if names and all(n and n.split(".")[0] in ("NodeEvent", "EdgeEvent") for n in names):
                return ast.unparse(left), {n.split(".")[1] for n in names}  # type: ignore[union-attr]
    return None, set()


# ---------------------------------------------------------------------------
# roles of local variables (rules never rely on how a local is spelled)


def _event_names(fn: ast.AST) -> Set[str]:
    """Locals bound to `<rec>.node_event(<node>)`."""
    out = set()
    for node in ast.walk(fn):
        if isinstance(node, ast.Assign) and isinstance(node.value, ast.Call) and isinstance(node.value.func, ast.Attribute):
            if node.value.func.attr == "node_event":
                out |= {t.id for t in node.targets if isinstance(t, ast.Name)}
    return out


def _mapping_names(fn: ast.AST) -> Set[str]:
    """Locals bound to `<rec>.object_species` (the species mapping)."""
    out = set()
    for node in ast.walk(fn):
        if isinstance(node, ast.Assign) and isinstance(node.value, ast.Attribute) and node.value.attr == "object_species":
            out |= {t.id for t in node.targets if isinstance(t, ast.Name)}
    # ... or the attribute chain itself, used without a local (`rec.object_species[gene]`)
    for node in ast.walk(fn):
        if isinstance(node, ast.Attribute) and node.attr == "object_species" and isinstance(node.ctx, ast.Load) and dotted(node) is not None:
            out.add(dotted(node))
    return out or {"mapping"}


def _species_loop_var(fn: ast.AST) -> Optional[str]:
    """Loop variable of the traversal of the species tree that encloses the traversal of the object tree."""
    for node in ast.walk(fn):
        if isinstance(node, ast.For) and isinstance(node.iter, ast.Call) and isinstance(node.iter.func, ast.Attribute) and node.iter.func.attr == "traverse":
            inner = [
                n for st in node.body for n in ast.walk(st)
                if isinstance(n, ast.For) and isinstance(n.iter, ast.Call) and isinstance(n.iter.func, ast.Attribute) and n.iter.func.attr == "traverse"
            ]
            if inner and isinstance(node.target, ast.Name):
                return node.target.id
    return None


def _joined_list_name(fn: ast.AST) -> Optional[str]:
    """X of the final `return "<sep>".join(X)`."""
    for node in walk_no_nested(fn):
        if isinstance(node, ast.Return) and isinstance(node.value, ast.Call) and isinstance(node.value.func, ast.Attribute) and node.value.func.attr == "join":
            if node.value.args and isinstance(node.value.args[0], ast.Name):
                return node.value.args[0].id
    return None


def _kind_chains(fn: ast.AST):
    """Top if/elif chains dispatching on an event kind: (first If, [(kinds, body)], else body)."""
    out = []
    inner: Set[int] = set()
    for node in ast.walk(fn):
        if not isinstance(node, ast.If) or id(node) in inner:
            continue
        subj, kinds = _kinds_in_test(node.test)
        if subj is None:
            continue
        arms = []
        cur: Optional[ast.If] = node
        else_body: List[ast.stmt] = []
        while cur is not None:
            s, k = _kinds_in_test(cur.test)
            if s != subj:
                else_body = [cur]
                break
            arms.append((k, cur.body, cur))
            if len(cur.orelse) == 1 and isinstance(cur.orelse[0], ast.If):
                inner.add(id(cur.orelse[0]))
                cur = cur.orelse[0]
            else:
                else_body = cur.orelse
                cur = None
        out.append((subj, node, arms, else_body))
    return out


def kind_exhaustive(prog: Program) -> RuleResult:
    res = RuleResult(
        "KIND-EXHAUSTIVE",
        "every dispatch on the kind of a branch (layout, measuring, drawing) has an arm for each kind it can "
        "meet and ends in a raise; the dispatch on node events covers speciation, duplication and transfer",
    )
    n = 0
    for modname in (LAYOUT, TIKZ):
        mod = prog.module(modname)
        for qual, fn in prog.defs(modname).items():
            if not isinstance(fn, FuncNode):
                continue
            for subj, node, arms, else_body in _kind_chains(fn):
                covered: Set[str] = set()
                for kinds, _body, _n in arms:
                    covered |= kinds
                if len(arms) < 3:
                    continue
                n += 1
                construct = f"{modname}:{qual}/dispatch[{subj}]"
                is_event = subj in _event_names(fn) or "node_event" in subj
                want = {"SPECIATION", "DUPLICATION", "HORIZONTAL_TRANSFER"} if is_event else set(ALL_KINDS)
                # a leaf handled by an enclosing is_leaf()/kind test counts
                gs = guards(fn, node)
                for g, pol in gs:
                    s2, k2 = _kinds_in_test(g)
                    if s2 == subj and not pol:
                        covered |= k2
                problems = []
                if want - covered:
                    problems.append(f"no arm for {sorted(want - covered)}")
                ends_in_raise = bool(else_body) and isinstance(else_body[-1], ast.Raise)
                if not ends_in_raise:
                    problems.append("the final else does not raise (an unknown kind is silently skipped)")
                dup = [k for k in covered if sum(1 for ks, _b, _n in arms if k in ks) > 1]
                if dup:
                    problems.append(f"{sorted(dup)} handled by two arms (the second is dead)")
                if problems:
                    res.fail(construct, "; ".join(problems), mod, node)
                else:
                    res.ok(construct, f"arms for {sorted(covered)}, else raises")
    if n < 4:
        raise AnalysisError(f"KIND-EXHAUSTIVE: only {n} kind dispatches recognised (expected 4)")
    return res


def kind_agree(prog: Program) -> RuleResult:
    res = RuleResult(
        "KIND-AGREE",
        "the branch created for an object node records the event kind the evaluator assigns to it: the handler "
        "guarded by `event == K` stores kind K, leaves store LEAF, loss pseudo-genes store FULL_LOSS; the event "
        "comes from node_event of the drawn reconciliation",
    )
    mod = prog.module(LAYOUT)
    fn = prog.func(LAYOUT, "_compute_branches")
    n = 0
    for node in walk_no_nested(fn):
        if isinstance(node, ast.Dict):
            keys = {k.value: v for k, v in zip(node.keys, node.values) if isinstance(k, ast.Constant)}
            if "kind" not in keys:
                continue
            n += 1
            stored = (dotted(keys["kind"]) or "?").split(".")[-1]
            gs = guards(fn, node)
            expected = None
            for g, pol in gs:
                s, ks = _kinds_in_test(g)
                if s is not None and pol and len(ks) == 1:
                    expected = next(iter(ks))
                if (
                    pol
                    and isinstance(g, ast.Call)
                    and isinstance(g.func, ast.Attribute)
                    and g.func.attr == "is_leaf"
                ):
                    expected = "LEAF"
            construct = f"{LAYOUT}:_compute_branches/branch[{expected}]"
            if expected is None:
                res.fail(construct, f"a branch of kind {stored} is created outside any event test", mod, node)
            elif stored != expected:
                res.fail(
                    construct,
                    f"the handler of {expected} nodes stores kind {stored}: the drawing shows a different event "
                    "than the one the cost model counts",
                    mod,
                    node,
                )
            else:
                res.ok(construct, f"stores {stored}")
    # event source
    src = None
    for node in walk_no_nested(fn):
        if isinstance(node, ast.Assign) and isinstance(node.targets[0], ast.Name) and node.targets[0].id in _event_names(fn):
            src = node.value
    params = func_params(fn)
    if (
        isinstance(src, ast.Call)
        and isinstance(src.func, ast.Attribute)
        and src.func.attr == "node_event"
        and dotted(src.func.value) in params
        and len(src.args) == 1
    ):
        loopvar = src.args[0]
        res.ok(f"{LAYOUT}:_compute_branches/event-source", short(src))
    else:
        res.fail(f"{LAYOUT}:_compute_branches/event-source", f"the event is `{short(src)}`, not rec.node_event(node)", mod, fn)
    al = prog.func(LAYOUT, "_add_losses")
    for node in walk_no_nested(al):
        if isinstance(node, ast.Dict):
            keys = {k.value: v for k, v in zip(node.keys, node.values) if isinstance(k, ast.Constant)}
            if "kind" in keys:
                n += 1
                stored = dotted(keys["kind"])
                if stored == "EdgeEvent.FULL_LOSS":
                    res.ok(f"{LAYOUT}:_add_losses/branch", "stores FULL_LOSS")
                else:
                    res.fail(f"{LAYOUT}:_add_losses/branch", f"loss pseudo-genes store kind {stored}", mod, node)
    if n < 5:
        raise AnalysisError("KIND-AGREE: branch dictionaries not recognised")
    return res


# ---------------------------------------------------------------------------


def _layer_appends(stmts_or_node, layer: Optional[str] = None) -> List[Tuple[str, ast.Call]]:
    out = []
    nodes = stmts_or_node if isinstance(stmts_or_node, list) else [stmts_or_node]
    for root in nodes:
        for c in calls_in(root):
            if (
                isinstance(c.func, ast.Attribute)
                and c.func.attr == "append"
                and isinstance(c.func.value, ast.Subscript)
                and isinstance(c.func.value.value, ast.Name)
                and isinstance(c.func.value.slice, ast.Constant)
                and isinstance(c.func.value.slice.value, str)
            ):
                name = c.func.value.slice.value
                if layer is None or name == layer:
                    out.append((name, c))
    return out


def _node_style(sk: Skeleton) -> Optional[str]:
    m = re.match(r"\s*\\(?:tikz\\)?node\s*\[([a-z ]+?)\s*(?:=|\]|,)", sk.text)
    return m.group(1) if m else None


def _draw_arms(prog: Program):
    fn = prog.func(TIKZ, "_tikz_draw_branches")
    chains = [c for c in _kind_chains(fn) if len(c[2]) >= 3]
    if len(chains) != 1:
        raise AnalysisError("_tikz_draw_branches: kind dispatch not recognised")
    return fn, chains[0]


def one_event_node(prog: Program) -> RuleResult:
    res = RuleResult(
        "ONE-EVENT-NODE",
        "in the drawing, the handler of each kind emits exactly one event node on every path, in the TikZ style "
        "of that kind (extant gene / speciation / duplication / horizontal gene transfer / loss), and the "
        "measuring code uses the same style per kind",
    )
    mod = prog.module(TIKZ)
    fn, (subj, node, arms, else_body) = _draw_arms(prog)
    for kinds, body, arm in arms:
        for kind in sorted(kinds):
            construct = f"{TIKZ}:_tikz_draw_branches/{kind}/event-node"
            counts = set()
            styles = set()
            for path in paths(body):
                if path.end == "raise" or not consistent(path.conds):
                    continue
                apps = [c for ev in path.events for (_l, c) in _layer_appends(ev, "events")]
                counts.add(len(apps))
                for c in apps:
                    sk = skeleton(c.args[0]) if c.args else None
                    styles.add(_node_style(sk) if sk else None)
            if counts != {1}:
                res.fail(
                    construct,
                    f"the {kind} handler appends {sorted(counts)} event nodes depending on the path (expected exactly 1)",
                    mod,
                    arm,
                )
            elif styles != {KIND_STYLE[kind]}:
                res.fail(
                    construct,
                    f"the {kind} handler draws its node with style {sorted(map(str, styles))}, expected "
                    f"`{KIND_STYLE[kind]}`",
                    mod,
                    arm,
                )
            else:
                res.ok(construct, f"one `\\node[{KIND_STYLE[kind]}=...]` per branch")
    # event nodes emitted outside the dispatch
    outside = [c for _l, c in _layer_appends(fn, "events") if not any(c in calls_in(a[2]) for a in arms)]
    if outside:
        res.fail(f"{TIKZ}:_tikz_draw_branches/extra-event-node", "an event node is appended outside the kind dispatch", mod, outside[0])
    # measuring code: same style per kind
    mfn = prog.func(TIKZ, "measure_nodes")
    style_of: Dict[str, Optional[str]] = {}
    for node2 in walk_no_nested(mfn):
        if isinstance(node2, ast.Call) and isinstance(node2.func, ast.Attribute) and node2.func.attr == "append":
            gs = guards(mfn, node2)
            kinds_here = [k for g, pol in gs if pol for k in _kinds_in_test(g)[1]]
            sk = skeleton(node2.args[0]) if node2.args else None
            if sk and kinds_here:
                style_of[kinds_here[-1]] = _node_style(sk)
        if isinstance(node2, ast.Assign) and isinstance(node2.value, ast.Constant) and isinstance(node2.value.value, str) and re.fullmatch(r"\[[a-z ]+\]", node2.value.value):
            gs = guards(mfn, node2)
            kinds_here = [k for g, pol in gs if pol for k in _kinds_in_test(g)[1]]
            if kinds_here and isinstance(node2.value, ast.Constant):
                style_of[kinds_here[-1]] = node2.value.value.strip("[]")
    for kind in sorted(ALL_KINDS):
        construct = f"{TIKZ}:measure_nodes/{kind}/style"
        got = style_of.get(kind)
        if got == KIND_STYLE[kind]:
            res.ok(construct, f"measured as `{got}`")
        else:
            res.fail(
                construct,
                f"{kind} nodes are measured with style `{got}` but drawn with `{KIND_STYLE[kind]}`: the layout "
                "reserves the space of a different node",
                mod,
                mfn,
            )
    res.floor(10)
    return res


def one_arrow(prog: Program) -> RuleResult:
    res = RuleResult(
        "ONE-ARROW",
        "exactly one transfer arrow per transfer branch, none for other kinds, ending at the anchor of the "
        "transferred child (branch.right, which the layout sets to the child outside the node's species subtree)",
    )
    mod = prog.module(TIKZ)
    fn, (subj, node, arms, else_body) = _draw_arms(prog)
    for kinds, body, arm in arms:
        for kind in sorted(kinds):
            construct = f"{TIKZ}:_tikz_draw_branches/{kind}/arrows"
            counts = set()
            for path in paths(body):
                if path.end == "raise" or not consistent(path.conds):
                    continue
                counts.add(sum(len(_layer_appends(ev, "gene transfers")) for ev in path.events))
            want = {1} if kind == "HORIZONTAL_TRANSFER" else {0}
            if counts == want:
                res.ok(construct, f"{next(iter(want))} arrow(s)")
            else:
                res.fail(construct, f"the {kind} handler appends {sorted(counts)} transfer arrows (expected {sorted(want)})", mod, arm)
    outside = [c for _l, c in _layer_appends(fn, "gene transfers") if not any(c in calls_in(a[2]) for a in arms)]
    if outside:
        res.fail(f"{TIKZ}:_tikz_draw_branches/extra-arrow", "a transfer arrow is appended outside the kind dispatch", mod, outside[0])
    # end point of the arrow
    hgt = [a for a in arms if "HORIZONTAL_TRANSFER" in a[0]]
    if hgt:
        arm = hgt[0][2]
        apps = _layer_appends(arm.body, "gene transfers")
        if apps:
            call = apps[0][1]
            sk = skeleton(call.args[0])
            construct = f"{TIKZ}:_tikz_draw_branches/HORIZONTAL_TRANSFER/arrow-end"
            ok = False
            why = "template not recognised"
            if sk and sk.holes:
                end = sk.holes[-1]
                full = inline(fn, end, call)
                text = ast.unparse(full)
                # all_layouts[mapping[branch.right]].anchors[branch.right]
                # <all layouts>[<mapping>[<branch>.right]].anchors[<branch>.right]
                m_end = re.fullmatch(r"(\w+)\[(\w+)\[(\w+)\.right\]\]\.anchors\[(\w+)\.right\]", text)
                ok = bool(m_end) and m_end.group(3) == m_end.group(4)
                why = text
                starts_template = sk.text.lstrip().startswith("\\path[transfer branch=")
                if not starts_template:
                    ok, why = False, "the arrow does not use the `transfer branch` style"
            if ok:
                res.ok(construct, "ends at all_layouts[mapping[branch.right]].anchors[branch.right]")
            else:
                res.fail(
                    construct,
                    f"the arrow ends at `{why}`, not at the anchor of the transferred child in its own species",
                    mod,
                    call,
                )
    # which child the layout records as `right` is decided over the relational model by LAYOUT-SIDES
    return res


# ---------------------------------------------------------------------------


def loss_markers(prog: Program) -> RuleResult:
    res = RuleResult(
        "LOSS-MARKERS",
        "the layout inserts one loss pseudo-gene per full loss the evaluator counts: for each kind the children "
        "on which losses are inserted and the end of the insertion (the node's species: D-1 markers, its parent: "
        "D markers) reproduce the evaluator's full-loss polynomial",
    )
    sig = cm.evaluator_signature(prog)
    mod = prog.module(LAYOUT)
    fn = prog.func(LAYOUT, "_compute_branches")
    fl = "c[FULL_LOSS]"
    # expected from the evaluator: kind -> {role: offset}
    expected: Dict[str, Dict[str, int]] = {}
    for kind in cm.KINDS:
        alts = sig.rec[kind]
        name = "T=a" if "T=a" in alts else ""
        coef = alts[name].coefficient_of(fl)
        roles = {}
        for role in ("a", "b"):
            if coef.coefficient_of(f"D.{role}").const_value() == 1:
                roles[role] = 0
        const = int(coef.const_value())
        if roles and const:
            per = const // len(roles)
            roles = {r: per for r in roles}
        expected[kind] = roles
    # observed in the layout
    chains = [c for c in _kind_chains(fn) if len(c[2]) >= 3]
    if len(chains) != 1:
        raise AnalysisError("_compute_branches: event dispatch not recognised")
    _subj, _node, arms, _else = chains[0]
    for kinds, body, arm in arms:
        kind = next(iter(kinds))
        calls = [c for s in body for c in calls_in(s) if dotted(c.func) == "_add_losses"]
        observed = []
        for c in calls:
            if len(c.args) < 4:
                raise AnalysisError("_add_losses call with an unexpected signature")
            gene, start, end = c.args[1], c.args[2], c.args[3]
            end_text = ast.unparse(end)
            sp = _species_loop_var(fn) or "root_species"
            offset = {sp: -1, f"{sp}.up": 0}.get(end_text)
            start_ok = any(ast.unparse(start) == f"{m}[{ast.unparse(gene)}]" for m in _mapping_names(fn))
            observed.append((ast.unparse(gene), offset, start_ok, c))
        want = expected[kind]
        construct = f"{LAYOUT}:_compute_branches/{kind}/losses"
        problems = []
        if len(observed) != len(want):
            problems.append(
                f"losses are inserted on {len(observed)} child branch(es) but the evaluator counts them on {len(want)}"
            )
        for gene, offset, start_ok, c in observed:
            if offset is None:
                problems.append(f"`{short(c, 70)}` ends at an unrecognised species")
            elif want and offset != next(iter(want.values())):
                problems.append(
                    f"`{short(c, 70)}` inserts D{offset:+d} markers where the evaluator counts D{next(iter(want.values())):+d} "
                    "full losses"
                )
            if not start_ok:
                problems.append(f"`{short(c, 70)}` does not start at the species of the child it is given")
        # (which child is the conserved one is decided over the relational model by LAYOUT-SIDES)
        if problems:
            res.fail(construct, "; ".join(problems), mod, arm)
        else:
            res.ok(construct, f"{len(observed)} child(ren), D{next(iter(want.values())):+d} markers each" if want else "none")
    # no other source of loss markers: every call of _add_losses in the layout code is one of the calls counted above
    counted = {id(c) for _k, body, _a in arms for s_ in body for c in calls_in(s_) if dotted(c.func) == "_add_losses"}
    construct = f"{LAYOUT}:<module>/no-other-loss-source"
    stray = []
    for qual2, fn2 in prog.defs(LAYOUT).items():
        if not isinstance(fn2, FuncNode):
            continue
        for c in calls_in(fn2, nested=False):
            if dotted(c.func) == "_add_losses" and id(c) not in counted:
                stray.append((qual2, c))
    if stray:
        res.fail(construct, f"`{short(stray[0][1], 70)}` in {stray[0][0]} inserts loss nodes outside the handling of an event: the evaluator counts full losses only on the child branches of speciations, duplications and transfers (nothing above the root of the object tree)", mod, stray[0][1])
    else:
        res.ok(construct, f"{len(counted)} call(s) of _add_losses, all inside the event handlers")
    # _add_losses itself (one virtual node per species strictly between start and end, whatever the loop form) is
    # decided by LOSS-WALK over the relational model; the table above relies on it.
    from ..rules import extra as _extra

    walk = _extra.loss_walk(prog)
    construct = f"{LAYOUT}:_add_losses/walk"
    bad = [f for f in walk.findings if f.construct.endswith("/one-per-species")]
    if bad:
        res.fail(construct, bad[0].message, mod, prog.func(LAYOUT, "_add_losses"))
    else:
        res.ok(construct, "one pseudo-gene per species strictly between the child's species and the end (LOSS-WALK)")
    return res


# ---------------------------------------------------------------------------


def style_defined(prog: Program) -> RuleResult:
    res = RuleResult(
        "STYLE-DEFINED",
        "every TikZ style used by the measuring and drawing templates is defined by get_tikz_definitions, with "
        "at least as many arguments as the templates pass",
    )
    mod = prog.module(TIKZ)
    defs_fn = prog.func(TIKZ, "get_tikz_definitions")
    defined: Dict[str, int] = {}
    for node in ast.walk(defs_fn):
        sk = skeleton(node) if isinstance(node, (ast.JoinedStr, ast.Constant)) else None
        if sk is None:
            continue
        for m in re.finditer(r"([a-z][a-z ]*?)/\.style( 2 args)?=", sk.text):
            defined[m.group(1).strip()] = 2 if m.group(2) else 1
    if len(defined) < 8:
        raise AnalysisError(f"get_tikz_definitions: only {len(defined)} style definitions recognised")
    n = 0
    for qual, fn in prog.defs(TIKZ).items():
        if not isinstance(fn, FuncNode) or fn is defs_fn:
            continue
        for node in ast.walk(fn):
            if not isinstance(node, (ast.JoinedStr, ast.Constant)):
                continue
            sk = skeleton(node)
            if sk is None or "\\" not in sk.text:
                continue
            for m in re.finditer(r"\\(?:node|path)\s*\[([a-z][a-z ]*?)\s*(=|\]|,)", sk.text):
                style = m.group(1)
                n += 1
                construct = f"{TIKZ}:{qual}/style[{style}]"
                nargs = 0
                rest = sk.text[m.end() - 1 :]
                if m.group(2) == "=":
                    nargs = 1
                    # count consecutive {..} groups at brace depth 0 after '='
                    depth = 0
                    groups = 0
                    for ch in rest[1:]:
                        if ch == "{":
                            if depth == 0:
                                groups += 1
                            depth += 1
                        elif ch == "}":
                            depth -= 1
                        elif depth == 0 and ch not in " \n":
                            break
                    nargs = max(groups, 1)
                if style not in defined:
                    res.fail(construct, f"style `{style}` is used but get_tikz_definitions does not define it", mod, node)
                elif nargs > defined[style]:
                    res.fail(
                        construct,
                        f"style `{style}` is given {nargs} arguments but is defined with {defined[style]}",
                        mod,
                        node,
                    )
                else:
                    res.ok(construct, f"defined ({defined[style]} arg)")
            for m in re.finditer(r"node\[([a-z][a-z ]*?)\]", sk.text):
                style = m.group(1)
                if "\\" + "node[" + style in sk.text:
                    continue
                n += 1
                construct = f"{TIKZ}:{qual}/style[{style}]"
                if style in defined:
                    res.ok(construct, "defined")
                else:
                    res.fail(construct, f"style `{style}` is used but not defined", mod, node)
    # node_type strings of measure_nodes
    mfn = prog.func(TIKZ, "measure_nodes")
    for node in walk_no_nested(mfn):
        if isinstance(node, ast.Assign) and isinstance(node.value, ast.Constant) and isinstance(node.value.value, str) and re.fullmatch(r"\[[a-z ]+\]", node.value.value):
            style = node.value.value.strip("[]")
            n += 1
            construct = f"{TIKZ}:measure_nodes/style[{style}]"
            if style in defined:
                res.ok(construct, "defined")
            else:
                res.fail(construct, f"style `{style}` is measured but not defined", mod, node)
    if n < 12:
        raise AnalysisError(f"STYLE-DEFINED: only {n} style uses recognised")
    return res


def measure_lockstep(prog: Program) -> RuleResult:
    res = RuleResult(
        "MEASURE-LOCKSTEP",
        "sizes come back in the order the nodes were given: the layout appends node and (kind, name) in "
        "lockstep and zips them with the measures; measure_nodes appends exactly one box per node on every "
        "path; tex.measure emits one \\typeout per text and parses the lines in order",
    )
    lmod = prog.module(LAYOUT)
    fn = prog.func(LAYOUT, "_layout_branches")
    zips = [
        c
        for c in calls_in(fn, nested=False)
        if dotted(c.func) == "zip" and len(c.args) == 2 and isinstance(c.args[1], ast.Call) and dotted(c.args[1].func) == "measure_nodes"
    ]
    if len(zips) != 1:
        raise AnalysisError("_layout_branches: zip(nodes, measure_nodes(...)) not recognised")
    z = zips[0]
    nodes_list = dotted(z.args[0])
    meas_arg = dotted(z.args[1].args[0]) if z.args[1].args else None
    apps: Dict[str, List[ast.Call]] = {}
    for c in calls_in(fn, nested=False):
        if isinstance(c.func, ast.Attribute) and c.func.attr == "append" and dotted(c.func.value) in (nodes_list, meas_arg):
            apps.setdefault(dotted(c.func.value), []).append(c)
    construct = f"{LAYOUT}:_layout_branches/lockstep"
    a, b = apps.get(nodes_list, []), apps.get(meas_arg, [])
    okl = len(a) == 1 and len(b) == 1
    if okl:
        pa, pb = lmod.parent(lmod.parent(a[0])), lmod.parent(lmod.parent(b[0]))
        same_block = False
        for node in ast.walk(fn):
            for fname in ("body", "orelse"):
                blk = getattr(node, fname, None)
                if isinstance(blk, list) and any(s is lmod.parent(a[0]) for s in blk) and any(s is lmod.parent(b[0]) for s in blk):
                    same_block = True
        okl = same_block
        # (kind, name) of the same branch the node keys
        tup = b[0].args[0] if b[0].args else None
        if not (isinstance(tup, ast.Tuple) and len(tup.elts) == 2 and "kind" in ast.unparse(tup.elts[0]) and "name" in ast.unparse(tup.elts[1])):
            okl = False
    if okl:
        res.ok(construct, f"{nodes_list}.append(node) and {meas_arg}.append((kind, name)) in the same block")
    else:
        res.fail(construct, "nodes and their (kind, name) descriptions are not appended in lockstep", lmod, fn)
    # measure_nodes
    tmod = prog.module(TIKZ)
    mfn = prog.func(TIKZ, "measure_nodes")
    loops = [n for n in mfn.body if isinstance(n, ast.For)]
    if len(loops) != 1:
        raise AnalysisError("measure_nodes: loop not recognised")
    counts = set()
    rets0 = [n for n in walk_no_nested(mfn) if isinstance(n, ast.Return) and isinstance(n.value, ast.Call) and n.value.args]
    boxes_name = dotted(rets0[0].value.args[0]) if rets0 else None
    if boxes_name is None:
        raise AnalysisError("measure_nodes: the list handed to tex.measure was not found")
    for path in paths(loops[0].body):
        if path.end == "raise" or not consistent(path.conds):
            continue
        cnt = 0
        for ev in path.events:
            cnt += sum(
                1
                for c in calls_in(ev)
                if isinstance(c.func, ast.Attribute) and c.func.attr == "append" and dotted(c.func.value) == boxes_name
            )
        counts.add(cnt)
        if path.end in ("continue", "break"):
            counts.add(-1)
    construct = f"{TIKZ}:measure_nodes/one-box-per-node"
    if counts == {1}:
        res.ok(construct, "exactly one box appended on every path")
    else:
        res.fail(construct, f"a node contributes {sorted(counts)} boxes depending on the path: sizes shift to other nodes", tmod, loops[0])
    rets = [n for n in walk_no_nested(mfn) if isinstance(n, ast.Return)]
    okr = (
        len(rets) == 1
        and isinstance(rets[0].value, ast.Call)
        and dotted(rets[0].value.func) == "tex.measure"
        and rets[0].value.args
        and dotted(rets[0].value.args[0]) == boxes_name
    )
    if okr:
        res.ok(f"{TIKZ}:measure_nodes/return", "returns tex.measure(boxes, ...) unchanged")
    else:
        res.fail(f"{TIKZ}:measure_nodes/return", "the measures are reordered or filtered before being returned", tmod, mfn)
    # tex.measure
    xmod = prog.module(TEX)
    xfn = prog.func(TEX, "measure")
    loops = [n for n in xfn.body if isinstance(n, ast.For)]
    emit = [l for l in loops if dotted(l.iter) == func_params(xfn)[0]]
    construct = f"{TEX}:measure/one-typeout-per-text"
    okt = False
    if len(emit) == 1:
        text = ""
        for node in walk_no_nested(emit[0]):
            if isinstance(node, (ast.AugAssign, ast.Assign)):
                sk = skeleton(node.value)
                if sk:
                    text += sk.text
        okt = text.count("\\typeout") == 1 and text.count("\\savebox") == 1 and not any(
            isinstance(n, (ast.Break, ast.Continue)) for n in walk_no_nested(emit[0])
        )
    if okt:
        res.ok(construct, "one \\savebox + one \\typeout per text")
    else:
        res.fail(construct, "the TeX source does not contain exactly one \\typeout per measured text", xmod, xfn)
    parse = [l for l in loops if isinstance(l.iter, ast.Call) and isinstance(l.iter.func, ast.Attribute) and l.iter.func.attr == "splitlines"]
    construct = f"{TEX}:measure/parse-in-order"
    okp = False
    if len(parse) == 1:
        apps2 = [c for c in calls_in(parse[0]) if isinstance(c.func, ast.Attribute) and c.func.attr in ("append", "insert")]
        okp = len(apps2) == 1 and apps2[0].func.attr == "append"
        rets = [n for n in walk_no_nested(xfn) if isinstance(n, ast.Return)]
        okp = okp and len(rets) == 1 and isinstance(rets[0].value, ast.Name) and rets[0].value.id == dotted(apps2[0].func.value)
    if not parse:
        # the collecting loop in its canonical spelling: one list comprehension over the lines of the log, returned
        rets = [n for n in walk_no_nested(xfn) if isinstance(n, ast.Return)]
        if len(rets) == 1 and isinstance(rets[0].value, ast.ListComp) and len(rets[0].value.generators) == 1:
            it = rets[0].value.generators[0].iter
            okp = isinstance(it, ast.Call) and isinstance(it.func, ast.Attribute) and it.func.attr == "splitlines"
    if okp:
        res.ok(construct, "one MeasureBox appended per marked line, list returned as is")
    else:
        res.fail(construct, "the measured boxes are not collected in output order", xmod, xfn)
    return res


# ---------------------------------------------------------------------------
# C15


def template_braces(prog: Program) -> RuleResult:
    res = RuleResult(
        "TEMPLATE-BRACES",
        "every TeX template (literal, f-string or concatenation) in the rendering code has balanced braces and "
        "never closes a brace it did not open, whatever brace-free values are interpolated",
    )
    n = 0
    for modname in (TIKZ, LAYOUT, TEX, "cli.draw"):
        mod = prog.module(modname)
        seen: Set[int] = set()
        for qual, fn in prog.defs(modname).items():
            if not isinstance(fn, FuncNode):
                continue
            idx = 0
            for node in ast.walk(fn):
                if id(node) in seen:
                    continue
                if isinstance(node, ast.BinOp) and isinstance(node.op, ast.Add):
                    sk = skeleton(node)
                    if sk is not None and tex_like(sk):
                        for sub in ast.walk(node):
                            seen.add(id(sub))
                    else:
                        continue
                elif isinstance(node, (ast.JoinedStr, ast.Constant)):
                    sk = skeleton(node)
                    for sub in ast.walk(node):
                        seen.add(id(sub))
                else:
                    continue
                if sk is None or not tex_like(sk):
                    continue
                if isinstance(node, ast.Constant) and mod.parent(node) is not None and isinstance(mod.parent(node), ast.Expr):
                    continue  # docstring
                idx += 1
                n += 1
                depth, low = sk.brace_profile()
                construct = f"{modname}:{qual}/template#{idx}[{sk.stripped()[:24].replace(HOLE, '{}')!r}]"
                if depth != 0 or low < 0:
                    res.fail(
                        construct,
                        f"unbalanced braces in `{sk.stripped()[:70].replace(HOLE, '{}')}`: "
                        + (f"{depth:+d} at the end" if depth else "a closing brace precedes its opening brace"),
                        mod,
                        node,
                    )
                else:
                    res.ok(construct, "balanced")
    if n < 30:
        raise AnalysisError(f"TEMPLATE-BRACES: only {n} templates recognised")
    return res


def template_terminated(prog: Program) -> RuleResult:
    res = RuleResult(
        "TEMPLATE-TERMINATED",
        "every statement appended to a layer of the picture starts with \\path or \\node and ends with `;`",
    )
    mod = prog.module(TIKZ)
    n = 0
    for qual, fn in prog.defs(TIKZ).items():
        if not isinstance(fn, FuncNode):
            continue
        per_layer: Dict[str, int] = {}
        for layer, call in _layer_appends(fn):
            n += 1
            per_layer[layer] = per_layer.get(layer, 0) + 1
            construct = f"{TIKZ}:{qual}/{layer}#{per_layer[layer]}"
            sk = skeleton(call.args[0]) if call.args else None
            if sk is None:
                res.fail(construct, f"`{short(call, 60)}` appends something that is not a template", mod, call)
                continue
            first, last = sk.first_token(), sk.last_char()
            if first not in ("\\path", "\\node", "\\draw", "\\fill"):
                res.fail(construct, f"statement starts with `{first}`", mod, call)
            elif last != ";":
                res.fail(
                    construct,
                    f"statement `{sk.stripped()[:50].replace(HOLE, '{}')}...` is not terminated by `;` (ends with `{last}`): "
                    "TikZ merges it with the next statement",
                    mod,
                    call,
                )
            else:
                res.ok(construct, f"{first} ... ;")
    if n < 12:
        raise AnalysisError(f"TEMPLATE-TERMINATED: only {n} statement templates recognised")
    return res


def picture_env(prog: Program) -> RuleResult:
    res = RuleResult(
        "PICTURE-ENV",
        "render emits exactly one \\begin{tikzpicture} ... \\end{tikzpicture}, with all layers in between, after "
        "the style and colour definitions",
    )
    mod = prog.module(TIKZ)
    fn = prog.func(TIKZ, "render")
    result_name = _joined_list_name(fn)
    if result_name is None:
        raise AnalysisError("render: `return <sep>.join(<lines>)` not found")
    # the layers dict: the local bound to a dict display whose values are list displays
    layers_name = None
    for node in walk_no_nested(fn):
        if isinstance(node, (ast.Assign, ast.AnnAssign)) and isinstance(node.value, ast.Dict) and node.value.values and all(isinstance(v, ast.List) for v in node.value.values):
            tgt = node.targets[0] if isinstance(node, ast.Assign) else node.target
            if isinstance(tgt, ast.Name):
                layers_name = tgt.id
    if layers_name is None:
        raise AnalysisError("render: the dictionary of layers (a dict display of list displays) was not found")
    seq = []
    for stmt in fn.body:
        for c in calls_in(stmt):
            if isinstance(c.func, ast.Attribute) and c.func.attr in ("append", "extend") and dotted(c.func.value) == result_name:
                arg = c.args[0] if c.args else None
                sk = skeleton(arg) if arg is not None else None
                if sk and "\\begin{tikzpicture}" in sk.text:
                    seq.append(("begin", c, loops_around(fn, c)))
                elif sk and "\\end{tikzpicture}" in sk.text:
                    seq.append(("end", c, loops_around(fn, c)))
                elif sk and "\\definecolor" in sk.text:
                    seq.append(("definecolor", c, loops_around(fn, c)))
                elif c.func.attr == "extend":
                    seq.append(("layer", c, loops_around(fn, c)))
                elif sk and sk.text.lstrip().startswith("%"):
                    seq.append(("comment", c, loops_around(fn, c)))
                else:
                    seq.append(("other", c, loops_around(fn, c)))
        if isinstance(stmt, ast.Assign) and dotted(stmt.targets[0]) == result_name:
            seq.append(("init", stmt, []))
    kinds = [k for k, _c, _l in seq]
    construct = f"{TIKZ}:render/structure"
    problems = []
    if kinds.count("begin") != 1 or kinds.count("end") != 1:
        problems.append(f"{kinds.count('begin')} \\begin / {kinds.count('end')} \\end of tikzpicture")
    else:
        b, e = kinds.index("begin"), kinds.index("end")
        if any(l for k, _c, l in seq if k in ("begin", "end")):
            problems.append("\\begin/\\end emitted inside a loop")
        if b > e:
            problems.append("\\end precedes \\begin")
        if "layer" not in kinds[b:e]:
            problems.append("the layers are not emitted between \\begin and \\end")
        if any(k == "layer" for k in kinds[:b] + kinds[e:]):
            problems.append("a layer is emitted outside the picture")
        if "definecolor" in kinds and kinds.index("definecolor") > b:
            problems.append("colours are defined after \\begin{tikzpicture}")
    # the layer loop emits every layer
    layer_loops = [
        n
        for n in fn.body
        if isinstance(n, ast.For) and isinstance(n.iter, ast.Call) and isinstance(n.iter.func, ast.Attribute)
        and n.iter.func.attr in ("items", "values") and dotted(n.iter.func.value) == layers_name
    ]
    if len(layer_loops) != 1:
        problems.append("the loop over all layers was not found")
    elif any(isinstance(n, (ast.Break, ast.Continue)) for n in walk_no_nested(layer_loops[0])) or any(
        isinstance(n, ast.If) for n in walk_no_nested(layer_loops[0])
    ):
        problems.append("some layers are skipped")
    rets = [n for n in walk_no_nested(fn) if isinstance(n, ast.Return)]
    if not (len(rets) == 1 and isinstance(rets[0].value, ast.Call) and ast.unparse(rets[0].value.func) == "'\\n'.join" and dotted(rets[0].value.args[0]) == result_name):
        problems.append("the result is not the newline-joined list of emitted lines")
    if problems:
        res.fail(construct, "; ".join(problems), mod, fn)
    else:
        res.ok(construct, " -> ".join(kinds))
    # layers dict: the four layers the draw functions append to exist
    used = {l for q, f in prog.defs(TIKZ).items() if isinstance(f, FuncNode) for l, _c in _layer_appends(f)}
    declared: Set[str] = set()
    for node in walk_no_nested(fn):
        if isinstance(node, (ast.Assign, ast.AnnAssign)) and dotted(node.targets[0] if isinstance(node, ast.Assign) else node.target) == layers_name:
            if isinstance(node.value, ast.Dict):
                declared = {k.value for k in node.value.keys if isinstance(k, ast.Constant)}
    construct = f"{TIKZ}:render/layers"
    if used <= declared and declared:
        res.ok(construct, f"layers {sorted(declared)}")
    else:
        res.fail(construct, f"draw functions append to {sorted(used - declared)} which render never emits", mod, fn)
    return res


def _interner_names(prog: Program, fn: ast.AST) -> Set[str]:
    """Names under which the colour interner of render() is known inside `fn`: `get_color` itself (the nested
    function of render) or the parameter of a draw function that receives it at render's call sites."""
    key = ("interner_names", id(fn))
    if key in prog.memo:
        return prog.memo[key]
    render = prog.func(TIKZ, "render")
    inner = {n.name for n in walk_no_nested(render) if isinstance(n, FuncNode)}
    names: Set[str] = set(inner) if fn is render else set()
    params = func_params(fn) if isinstance(fn, FuncNode) else []
    for call in calls_in(render):
        if isinstance(call.func, ast.Name) and isinstance(fn, FuncNode) and call.func.id == fn.name:
            for idx, a in enumerate(call.args):
                if isinstance(a, ast.Name) and a.id in inner and idx < len(params):
                    names.add(params[idx])
            for kw in call.keywords:
                if isinstance(kw.value, ast.Name) and kw.value.id in inner and kw.arg:
                    names.add(kw.arg)
    prog.memo[key] = names
    return names


def color_intern(prog: Program) -> RuleResult:
    res = RuleResult(
        "COLOR-INTERN",
        "every colour used in the picture goes through get_color, which interns it in the list the \\definecolor "
        "loop iterates (after the drawing traversal, before the picture), under the same generated name",
    )
    mod = prog.module(TIKZ)
    n = 0
    for qual, fn in prog.defs(TIKZ).items():
        if not isinstance(fn, FuncNode):
            continue
        for node in ast.walk(fn):
            if isinstance(node, ast.Attribute) and node.attr == "color" and isinstance(node.ctx, ast.Load):
                n += 1
                parent = mod.parent(node)
                construct = f"{TIKZ}:{qual}/color-read#{n}"
                if isinstance(parent, ast.Call) and isinstance(parent.func, ast.Name) and parent.func.id in _interner_names(prog, fn) and parent.args == [node]:
                    res.ok(construct, short(parent))
                else:
                    res.fail(
                        construct,
                        f"`{short(node)}` is used in `{short(parent, 60)}` without get_color(): the raw HTML code is "
                        "emitted as a colour name that is never defined",
                        mod,
                        node,
                    )
    if n < 8:
        raise AnalysisError(f"COLOR-INTERN: only {n} colour reads found in tikz.py")
    render = prog.func(TIKZ, "render")
    gc = None
    for node in walk_no_nested(render):
        if isinstance(node, FuncNode) and node.name == "get_color":
            gc = node
    if gc is None:
        raise AnalysisError("render: get_color not found")
    param = func_params(gc)[0]
    lists = {dotted(c.func.value) for c in calls_in(gc) if isinstance(c.func, ast.Attribute) and c.func.attr == "append"}
    construct = f"{TIKZ}:render.get_color/intern"
    rets = sorted((n_ for n_ in walk_no_nested(gc) if isinstance(n_, ast.Return)), key=lambda r: r.lineno)
    names = [skeleton(r.value) for r in rets]
    problems = []
    if len(lists) != 1:
        problems.append("get_color does not append to exactly one list")
    store = next(iter(lists)) if lists else "?"
    if len(rets) != 2 or any(s is None or len(s.holes) != 2 for s in names):
        problems.append("get_color does not return `<prefix><index>` on both paths")
    else:
        first = ast.unparse(names[0].holes[1])
        second = ast.unparse(names[1].holes[1])
        if first != f"{store}.index({param})":
            problems.append(f"a known colour is named by `{first}`, not by its index in `{store}`")
        if second != f"len({store}) - 1":
            problems.append(f"a new colour is named by `{second}`, not by the index it was appended at")
        gs = guards(gc, rets[0])
        if not any(pol and ast.unparse(g) == f"{param} in {store}" for g, pol in gs):
            problems.append("the lookup branch is not guarded by membership in the list")
        app = [c for c in calls_in(gc) if isinstance(c.func, ast.Attribute) and c.func.attr == "append"]
        if app and not (app[0].args and dotted(app[0].args[0]) == param):
            problems.append("a different value than the requested colour is interned")
    if problems:
        res.fail(construct, "; ".join(problems), mod, gc)
    else:
        res.ok(construct, f"interned in `{store}`")
    # definecolor loop
    construct = f"{TIKZ}:render/definecolor"
    dloops = [
        l
        for l in render.body
        if isinstance(l, ast.For) and any("\\definecolor" in (skeleton(n_).text if skeleton(n_) else "") for n_ in ast.walk(l) if isinstance(n_, (ast.JoinedStr, ast.Constant)))
    ]
    problems = []
    if len(dloops) != 1:
        problems.append("the \\definecolor loop was not found")
    else:
        dl = dloops[0]
        it = dl.iter
        if not (isinstance(it, ast.Call) and dotted(it.func) == "enumerate" and it.args and dotted(it.args[0]) == store):
            problems.append(f"it iterates `{short(it)}`, not enumerate({store})")
        else:
            ivar, cvar = (dotted(e) for e in dl.target.elts)  # type: ignore[union-attr]
            sk = next(skeleton(n_) for n_ in ast.walk(dl) if isinstance(n_, ast.JoinedStr))
            holes = [ast.unparse(h) for h in sk.holes]
            gc_prefix = ast.unparse(names[0].holes[0]) if names and names[0] else "?"
            if holes[:2] != [gc_prefix, ivar] or holes[-1] != cvar:
                problems.append(f"colours are defined as {holes}, get_color names them `{gc_prefix}<index>`")
            if "{HTML}" not in sk.text:
                problems.append("colours are not declared in the HTML model")
        trav = [l for l in render.body if isinstance(l, ast.For) and any(dotted(c.func) == "_tikz_draw_branches" for c in calls_in(l))]
        begin = [s for s in render.body if any("\\begin{tikzpicture}" in (skeleton(n_).text if skeleton(n_) else "") for n_ in ast.walk(s) if isinstance(n_, ast.Constant))]
        if not trav or render.body.index(trav[0]) > render.body.index(dl):
            problems.append("the colours are defined before the drawing traversal has interned them")
        if begin and render.body.index(dl) > render.body.index(begin[0]):
            problems.append("the colours are defined after \\begin{tikzpicture}")
    if problems:
        res.fail(construct, "; ".join(problems), mod, render)
    else:
        res.ok(construct, "after the traversal, before the picture, same names as get_color")
    return res



# ---------------------------------------------------------------------------
# colour of the loss nodes comes from a real object node


def _may_kinds(fn: ast.AST, name: str, at: ast.AST, virtual: Set[str], depth: int = 0) -> Set[str]:
    """Kinds of object a local may denote at `at`: 'virtual' (an instance of a virtual-node class),
    'param' (a parameter / free name), 'other'."""
    if depth > 6:
        return {"other"}
    val = reaching(fn, name, at)
    if val is None:
        return {"param"}
    if isinstance(val, Opaque):
        # loop-carried or loop variable: every assignment inside the enclosing loops may reach, plus the
        # definition before the outermost such loop
        kinds: Set[str] = set()
        loops = loops_around(fn, at)
        carrying = [l for l in loops if any(_assigns(st, name) for st in l.body)]
        if not carrying:
            return {"other"}
        outer = carrying[0]
        before = reaching(fn, name, outer)
        if before is None:
            kinds.add("param")
        elif isinstance(before, Opaque):
            kinds.add("other")
        else:
            kinds |= _expr_kinds(fn, before, before if hasattr(before, "lineno") else outer, virtual, depth + 1)
        for st in ast.walk(outer):
            if isinstance(st, ast.Assign) and any(isinstance(t, ast.Name) and t.id == name for t in st.targets):
                kinds |= _expr_kinds(fn, st.value, st, virtual, depth + 1)
        return kinds
    return _expr_kinds(fn, val, val if hasattr(val, "lineno") else at, virtual, depth + 1)


def _assigns(stmt: ast.AST, name: str) -> bool:
    return any(
        isinstance(n, ast.Name) and n.id == name and isinstance(n.ctx, ast.Store) for n in ast.walk(stmt)
    )


def _expr_kinds(fn: ast.AST, expr: ast.AST, at: ast.AST, virtual: Set[str], depth: int) -> Set[str]:
    if isinstance(expr, ast.Call) and dotted(expr.func) in virtual:
        return {"virtual"}
    if isinstance(expr, ast.Name):
        return _may_kinds(fn, expr.id, at, virtual, depth)
    if isinstance(expr, ast.IfExp):
        return _expr_kinds(fn, expr.body, at, virtual, depth) | _expr_kinds(fn, expr.orelse, at, virtual, depth)
    return {"other"}


def color_source(prog: Program) -> RuleResult:
    res = RuleResult(
        "COLOR-SOURCE",
        "in render/layout.py a colour is only ever read from a real object-tree node: the expression whose "
        "`color` feature is read (getattr / hasattr / attribute) can never denote a virtual loss node "
        "(PseudoGene has no colour, so the read silently yields the default and the colour stops propagating "
        "after the first loss of an edge)",
    )
    mod = prog.module(LAYOUT)
    model = prog.module("render.model")
    virtual = {
        name for name, node in prog.defs("render.model").items()
        if isinstance(node, ast.ClassDef) and not any(isinstance(st, ast.AnnAssign) for st in node.body) and name.startswith("Pseudo")
    }
    if not virtual:
        raise AnalysisError("render.model: virtual node class (PseudoGene) not found")
    del model
    n = 0
    for qual, fn in prog.defs(LAYOUT).items():
        if not isinstance(fn, FuncNode) or "." in qual:
            continue
        for node in walk_no_nested(fn):
            base = None
            if isinstance(node, ast.Call) and dotted(node.func) in ("getattr", "hasattr") and len(node.args) >= 2:
                if isinstance(node.args[1], ast.Constant) and node.args[1].value == "color":
                    base = node.args[0]
            elif isinstance(node, ast.Attribute) and node.attr == "color" and isinstance(node.ctx, ast.Load):
                base = node.value
            if base is None:
                continue
            n += 1
            construct = f"{LAYOUT}:{qual}/color-read[{short(base, 30)}]"
            root = base
            while isinstance(root, ast.Attribute):
                root = root.value
            if not isinstance(root, ast.Name):
                res.ok(construct, "not a local", nontrivial=False)
                continue
            if root is not base:
                # x.up.color etc.: attribute of a node reached from x; virtual nodes have no such attributes
                kinds = _may_kinds(fn, root.id, node, virtual)
            else:
                kinds = _may_kinds(fn, root.id, node, virtual)
            if "virtual" in kinds:
                res.fail(
                    construct,
                    f"`{short(node, 60)}` reads the colour of `{root.id}`, which may be a virtual loss node "
                    f"({sorted(virtual)[0]}() reaches it through the loop): the colour is lost after the first loss",
                    mod,
                    node,
                )
            else:
                res.ok(construct, f"`{root.id}` denotes {sorted(kinds)}")
    if n < 3:
        raise AnalysisError(f"COLOR-SOURCE: only {n} colour reads found in layout.py")
    return res


# ---------------------------------------------------------------------------
# chain of virtual loss nodes


def loss_chain(prog: Program) -> RuleResult:
    res = RuleResult(
        "LOSS-CHAIN",
        "in _add_losses each new virtual node takes as its only child the node created just before it (the real "
        "gene for the first one): the `left` and `right` entries of the branch read the same loop-carried "
        "variable, which is re-bound to the new node at the end of the iteration - so every level of a multi-"
        "level loss points at an anchor that exists in the species just below",
    )
    mod = prog.module(LAYOUT)
    fn = prog.func(LAYOUT, "_add_losses")
    loops = [n for n in fn.body if isinstance(n, ast.While)]
    if len(loops) != 1:
        raise AnalysisError("_add_losses: expected one while loop")
    loop = loops[0]
    dicts = [d for d in ast.walk(loop) if isinstance(d, ast.Dict) and any(isinstance(k, ast.Constant) and k.value == "left" for k in d.keys)]
    if len(dicts) != 1:
        raise AnalysisError("_add_losses: branch literal with 'left'/'right' not found")
    entries = {k.value: v for k, v in zip(dicts[0].keys, dicts[0].values) if isinstance(k, ast.Constant)}
    construct = f"{LAYOUT}:_add_losses/child-link"
    sides = {}
    for side in ("left", "right"):
        v = entries.get(side)
        if not (isinstance(v, ast.IfExp) and isinstance(v.orelse, ast.Constant) and v.orelse.value is None and isinstance(v.body, ast.Name)):
            raise AnalysisError(f"_add_losses: `{side}` entry `{short(v)}` is not `<child> if <side test> else None`")
        sides[side] = v.body.id
    new_nodes = [
        st.targets[0].id for st in loop.body
        if isinstance(st, ast.Assign) and isinstance(st.targets[0], ast.Name) and isinstance(st.value, ast.Call) and (dotted(st.value.func) or "").startswith("Pseudo")
    ]
    if len(new_nodes) != 1:
        raise AnalysisError("_add_losses: creation of the virtual node not found")
    cur = new_nodes[0]
    carried = [
        st.targets[0].id for st in loop.body
        if isinstance(st, ast.Assign) and isinstance(st.targets[0], ast.Name) and isinstance(st.value, ast.Name) and st.value.id == cur
    ]
    problems = []
    if sides["left"] != sides["right"]:
        problems.append(f"the left entry links `{sides['left']}` but the right entry links `{sides['right']}`")
    for side, name in sides.items():
        if name not in carried:
            problems.append(f"the {side} entry links `{name}`, which is not re-bound to the new node `{cur}` at the end of the iteration (carried: {carried or 'none'}): from the second level on it still denotes an older node")
    rets = [r for r in walk_no_nested(fn) if isinstance(r, ast.Return) and r.value is not None]
    if not rets or any(dotted(r.value) not in carried for r in rets):
        problems.append("the function does not return the last node of the chain")
    if problems:
        res.fail(construct, "; ".join(problems), mod, dicts[0])
    else:
        res.ok(construct, f"left/right link `{sides['left']}`, re-bound to `{cur}` each iteration and returned")
    return res


# ---------------------------------------------------------------------------
# colour inheritance and traversal order


def color_inherit(prog: Program) -> RuleResult:
    res = RuleResult(
        "COLOR-INHERIT",
        "colour propagation gives an uncoloured node the colour of its nearest coloured ancestor: either each "
        "node reads its parent (`.up`) in a pre-order walk (the parent is already resolved), or each coloured "
        "node paints its still-uncoloured descendants in a post-order walk (inner colours are painted before "
        "outer ones). The opposite pairing lets an outer colour override a nested one or stop at depth one.",
    )
    mod = prog.module(LAYOUT)
    fn = prog.func(LAYOUT, "_compute_branches")
    sites = [
        c for c in walk_no_nested(fn)
        if isinstance(c, ast.Call) and isinstance(c.func, ast.Attribute) and c.func.attr == "add_feature"
        and c.args and isinstance(c.args[0], ast.Constant) and c.args[0].value == "color"
    ]
    if not sites:
        raise AnalysisError("_compute_branches: colour propagation (add_feature('color', ...)) not found")
    for idx, call in enumerate(sites):
        construct = f"{LAYOUT}:_compute_branches/colour-propagation#{idx}"
        loops = [l for l in loops_around(fn, call) if isinstance(l, ast.For)]
        trav = [l for l in loops if isinstance(l.iter, ast.Call) and isinstance(l.iter.func, ast.Attribute) and l.iter.func.attr == "traverse"]
        # the traversal whose variable is the node being painted (the innermost one when several are nested)
        outer = next((l for l in reversed(trav) if dotted(l.target) == dotted(call.func.value)), trav[0] if trav else None)
        if outer is None:
            raise AnalysisError(f"{construct}: enclosing tree traversal not found")
        strat = kwarg(outer.iter, "strategy", 0)
        order = strat.value if isinstance(strat, ast.Constant) else "levelorder"
        target = dotted(call.func.value)
        source = call.args[1] if len(call.args) > 1 else None
        walker = dotted(outer.target)
        src_base = source.value if isinstance(source, ast.Attribute) and source.attr == "color" else None
        if target == walker and isinstance(src_base, ast.Attribute) and src_base.attr == "up" and dotted(src_base.value) == walker:
            # reads the parent
            if order in ("preorder", "levelorder"):
                res.ok(construct, f"node reads its parent, {order} walk")
            else:
                res.fail(construct, f"each node copies its parent's colour in a {order} walk: the parent has not been resolved yet, the colour reaches only one level", mod, call)
        elif src_base is not None and dotted(src_base) == walker and target != walker:
            # the walker paints other nodes: which ones?
            inner = next((l for l in loops if l is not outer and dotted(l.target) == target), None)
            it = inner.iter if inner is not None else None
            over_desc = isinstance(it, ast.Call) and isinstance(it.func, ast.Attribute) and dotted(it.func.value) == walker and it.func.attr in ("iter_descendants", "get_descendants", "traverse")
            over_children = (isinstance(it, ast.Attribute) and it.attr == "children" and dotted(it.value) == walker) or (
                isinstance(it, ast.Call) and isinstance(it.func, ast.Attribute) and it.func.attr == "get_children" and dotted(it.func.value) == walker
            )
            if over_desc:
                if order == "postorder":
                    res.ok(construct, "coloured node paints its uncoloured descendants, post-order walk")
                else:
                    res.fail(
                        construct,
                        f"each coloured node paints all its uncoloured descendants in a {order} walk: an outer colour is "
                        "painted first and the subtree of a nested coloured node keeps the outer colour",
                        mod,
                        call,
                    )
            elif over_children:
                if order in ("preorder", "levelorder"):
                    res.ok(construct, f"coloured node paints its uncoloured children, {order} walk")
                else:
                    res.fail(construct, f"children are painted in a {order} walk: the colour reaches only one level", mod, call)
            else:
                raise AnalysisError(f"{construct}: painted set `{short(it)}` not recognised")
        else:
            raise AnalysisError(f"{construct}: `{short(call)}` is not a recognised propagation step")
    return res


# ---------------------------------------------------------------------------
# a node is placed in the species it is mapped to; a label shows the node's own synteny


def _walk_same_loop(node: ast.AST):
    """sub-nodes of a statement, not entering nested loops or functions (their break / continue are their own)"""
    stack = [node]
    while stack:
        cur = stack.pop()
        yield cur
        for child in ast.iter_child_nodes(cur):
            if isinstance(child, (ast.For, ast.While, ast.FunctionDef, ast.Lambda)):
                if isinstance(child, (ast.For, ast.While)):
                    stack.extend(x for x in ast.walk(child) if isinstance(x, ast.Return))
                continue
            stack.append(child)


def placed_in_species(prog: Program) -> RuleResult:
    res = RuleResult(
        "PLACED-IN-SPECIES",
        "the branch of an object node is stored in the layout state of the species the node is mapped to, and only "
        "there: inside the double traversal of _compute_branches every store `<state>['branches'][<gene>] = ...` is "
        "dominated by the filter `mapping[<gene>] == <species>` (the `!= ... continue` at the top of the gene loop) "
        "and `<state>` is the object registered as `layout_state[<species>]` for the species of the outer loop; "
        "a virtual loss node is stored in the state of the species the walk of _add_losses is currently at",
    )
    mod = prog.module(LAYOUT)
    fn = prog.func(LAYOUT, "_compute_branches")
    sp = _species_loop_var(fn)
    if sp is None:
        raise AnalysisError("_compute_branches: species loop not found")
    maps = _mapping_names(fn)
    sp_loop = next(l for l in ast.walk(fn) if isinstance(l, ast.For) and dotted(l.target) == sp)
    gene_loop = next(
        (l for st in sp_loop.body for l in ast.walk(st) if isinstance(l, ast.For) and isinstance(l.iter, ast.Call) and isinstance(l.iter.func, ast.Attribute) and l.iter.func.attr == "traverse"),
        None,
    )
    if gene_loop is None:
        raise AnalysisError("_compute_branches: gene loop not found")
    gene = dotted(gene_loop.target)
    # the state object of this species
    state_names = set()
    for st in sp_loop.body:
        if isinstance(st, ast.Assign) and isinstance(st.targets[0], ast.Subscript) and dotted(st.targets[0].slice) == sp and isinstance(st.value, ast.Name):
            state_names.add(st.value.id)
        if isinstance(st, (ast.Assign, ast.AnnAssign)) and isinstance(getattr(st, "value", None), ast.Subscript) and dotted(st.value.slice) == sp:
            tgt = st.targets[0] if isinstance(st, ast.Assign) else st.target
            if isinstance(tgt, ast.Name):
                state_names.add(tgt.id)
    construct = f"{LAYOUT}:_compute_branches/filter"
    first = gene_loop.body[0] if gene_loop.body else None
    ok_filter = False
    if isinstance(first, ast.If) and isinstance(first.test, ast.Compare) and len(first.test.ops) == 1 and isinstance(first.test.ops[0], ast.NotEq):
        sides = {ast.unparse(first.test.left), ast.unparse(first.test.comparators[0])}
        if sp in sides and any(f"{m}[{gene}]" in sides for m in maps) and any(isinstance(x, ast.Continue) for x in first.body):
            ok_filter = True
    # the same filter written the other way round: the whole body of the gene loop under `if mapping[g] == species`
    if isinstance(first, ast.If) and len(gene_loop.body) == 1 and not first.orelse and isinstance(first.test, ast.Compare) and len(first.test.ops) == 1 and isinstance(first.test.ops[0], ast.Eq):
        sides = {ast.unparse(first.test.left), ast.unparse(first.test.comparators[0])}
        if sp in sides and any(f"{m}[{gene}]" in sides for m in maps):
            ok_filter = True
    if ok_filter:
        res.ok(construct, f"`{short(first.test)}` -> continue, first statement of the gene loop")
    else:
        res.fail(construct, f"the gene loop does not start by skipping the genes that are not mapped to `{sp}`: a node can be placed in a species it is not mapped to (or in several)", mod, gene_loop)
    # the state of the species is registered BEFORE its genes are handled: a duplication or transfer of this very
    # species puts loss nodes into layout_state[<species>] while it is being scanned
    construct = f"{LAYOUT}:_compute_branches/state-registered-first"
    reg = [i for i, st in enumerate(sp_loop.body) if isinstance(st, ast.Assign) and isinstance(st.targets[0], ast.Subscript) and dotted(st.targets[0].slice) == sp and not isinstance(st.targets[0].value, ast.Subscript)]
    gl = next((i for i, st in enumerate(sp_loop.body) if st is gene_loop or any(x is gene_loop for x in ast.walk(st))), None)
    if gl is None:
        raise AnalysisError("_compute_branches: gene loop not found in the species loop")
    if not reg:
        res.fail(construct, f"the state of `{sp}` is not registered in the layout state inside the species loop: loss nodes that an event of `{sp}` creates in its own species find no state to go to", mod, sp_loop)
    elif min(reg) < gl:
        res.ok(construct, f"`{short(sp_loop.body[min(reg)], 50)}` precedes the gene loop")
    else:
        res.fail(construct, f"`{short(sp_loop.body[min(reg)], 50)}` comes after the gene loop: loss nodes that an event of `{sp}` creates in its own species find no state to go to (KeyError)", mod, sp_loop.body[min(reg)])
    # every species runs the gene loop: nothing in the species loop skips or ends it before the genes were looked at
    construct = f"{LAYOUT}:_compute_branches/every-species"
    skips = []
    for st in sp_loop.body:
        if st is gene_loop or any(x is gene_loop for x in ast.walk(st)):
            if st is not gene_loop and isinstance(st, (ast.If, ast.For, ast.While)):
                raise AnalysisError(f"_compute_branches: the gene loop is nested under `{short(st, 60)}`; whether every species still looks at its genes is not decided")
            break
        for x in _walk_same_loop(st):
            if isinstance(x, (ast.Continue, ast.Break, ast.Return)):
                skips.append((st, f"`{short(st, 70)}` leaves the iteration of `{sp}` before its genes are looked at"))
    if skips:
        res.fail(construct, f"{skips[0][1]}: the nodes mapped to a skipped species get no event node (a transfer can map a node to any species, including one above the root's)", mod, skips[0][0])
    else:
        res.ok(construct, f"the gene loop runs for every `{sp}`")
    stores = [
        st for st in ast.walk(gene_loop)
        if isinstance(st, ast.Assign) and isinstance(st.targets[0], ast.Subscript) and isinstance(st.targets[0].value, ast.Subscript)
        and isinstance(st.targets[0].value.slice, ast.Constant) and st.targets[0].value.slice.value == "branches"
        and isinstance(st.value, ast.Dict)
    ]
    if len(stores) < 4:
        raise AnalysisError(f"_compute_branches: only {len(stores)} branch stores found")
    for idx, st in enumerate(stores):
        construct = f"{LAYOUT}:_compute_branches/store#{idx}"
        key = dotted(st.targets[0].slice)
        holder = dotted(st.targets[0].value.value)
        if key != gene:
            res.fail(construct, f"`{short(st.targets[0])}` is keyed by `{key}`, not by the gene being visited `{gene}`", mod, st)
        elif holder not in state_names:
            res.fail(construct, f"`{short(st.targets[0])}` is stored in `{holder}`, which is not the state registered for `{sp}` ({sorted(state_names)})", mod, st)
        else:
            res.ok(construct, f"{holder}['branches'][{gene}] in the state of `{sp}`")
    # _add_losses: each loss node is stored in the state of the species the walk is at - decided by LOSS-WALK over
    # the relational model (the species of every recorded branch is compared with the expected chain)
    from ..rules import extra as _extra

    walk = _extra.loss_walk(prog)
    construct = f"{LAYOUT}:_add_losses/state"
    bad = [f for f in walk.findings if f.construct.endswith(("/one-per-species", "/anchor"))]
    if bad:
        res.fail(construct, bad[0].message, mod, prog.func(LAYOUT, "_add_losses"))
    else:
        res.ok(construct, "loss nodes go to the state of the species the walk is at (LOSS-WALK)")
    return res


def label_source(prog: Program) -> RuleResult:
    res = RuleResult(
        "LABEL-SOURCE",
        "the synteny shown for an object node is that node's own synteny: the text given to format_synteny in "
        "_compute_branches is built from `syntenies[<gene>]` for the gene being visited (escaped element-wise), with "
        "the label width of the drawing parameters",
    )
    mod = prog.module(LAYOUT)
    fn = prog.func(LAYOUT, "_compute_branches")
    sp = _species_loop_var(fn)
    gene = None
    for node in ast.walk(fn):
        if isinstance(node, ast.For) and isinstance(node.target, ast.Name) and node.target.id != sp and isinstance(node.iter, ast.Call) and isinstance(node.iter.func, ast.Attribute) and node.iter.func.attr == "traverse":
            if any(isinstance(x, ast.Dict) for st in node.body for x in ast.walk(st)):
                gene = node.target.id
    calls = [c for c in walk_no_nested(fn) if isinstance(c, ast.Call) and dotted(c.func) == "format_synteny"]
    if not calls or gene is None:
        raise AnalysisError("_compute_branches: format_synteny call / gene loop not found")
    syn_map = {
        t.id for node in walk_no_nested(fn) if isinstance(node, ast.Assign)
        and any(isinstance(x, ast.Attribute) and x.attr == "syntenies" for x in ast.walk(node.value))
        for t in node.targets if isinstance(t, ast.Name)
    }
    for idx, call in enumerate(calls):
        construct = f"{LAYOUT}:_compute_branches/label#{idx}"
        arg = call.args[0] if call.args else None
        reads = [x for x in ast.walk(arg) if isinstance(x, ast.Subscript) and (dotted(x.value) in syn_map or (dotted(x.value) or "").endswith(".syntenies"))] if arg is not None else []
        if len(reads) != 1:
            res.fail(construct, f"the label text `{short(arg, 60)}` is not built from one read of the synteny mapping", mod, call)
        elif dotted(reads[0].slice) != gene:
            res.fail(construct, f"the label of `{gene}` is built from `{short(reads[0])}`: another node's synteny", mod, call)
        else:
            res.ok(construct, f"label of `{gene}` = format_synteny({short(arg, 50)}, ...)")
    return res

# ---------------------------------------------------------------------------
# escaping


def _tainted_names(fn: ast.AST, is_source) -> Set[str]:
    tainted: Set[str] = set()

    def expr_tainted(expr: ast.AST) -> bool:
        if isinstance(expr, ast.Call):
            name = dotted(expr.func) or ""
            if name.endswith("escape"):
                return False
            if name == "map" and expr.args and (dotted(expr.args[0]) or "").endswith("escape"):
                return False
            if name in ("len", "isinstance", "hasattr", "bool", "int", "float"):
                return False
        if is_source(expr):
            return True
        if isinstance(expr, ast.Name):
            return expr.id in tainted
        if isinstance(expr, ast.Compare):
            return False
        return any(expr_tainted(c) for c in ast.iter_child_nodes(expr))

    changed = True
    while changed:
        changed = False
        for node in walk_no_nested(fn):
            targets: List[ast.AST] = []
            value = None
            if isinstance(node, ast.Assign):
                targets, value = node.targets, node.value
            elif isinstance(node, ast.For):
                targets, value = [node.target], node.iter
            if value is not None and expr_tainted(value):
                for t in targets:
                    for nm in ast.walk(t):
                        if isinstance(nm, ast.Name) and nm.id not in tainted:
                            tainted.add(nm.id)
                            changed = True
    fn.__dict__["_expr_tainted"] = expr_tainted
    return tainted


def escape_taint(prog: Program) -> RuleResult:
    res = RuleResult(
        "ESCAPE-TAINT",
        "names of tree nodes and gene families reach the generated TeX only through tex.escape: every flow from "
        "`<node>.name` or `syntenies[...]` to a branch label or a template passes the sanitiser",
    )
    n_sources = 0
    for modname, fname in ((LAYOUT, "_compute_branches"), (TIKZ, "_tikz_draw_fork"), (TIKZ, "_tikz_draw_branches")):
        mod = prog.module(modname)
        fn = prog.func(modname, fname)

        # branch records (their .name is the label that was escaped when the layout built it)
        branch_vars: Set[str] = set()
        synteny_vars: Set[str] = set()
        for node0 in ast.walk(fn):
            if isinstance(node0, ast.For) and isinstance(node0.iter, ast.Call) and isinstance(node0.iter.func, ast.Attribute):
                base0 = dealias(fn, node0.iter.func.value, node0)
                if isinstance(base0, ast.Attribute) and base0.attr == "branches" and node0.iter.func.attr in ("items", "values"):
                    tgt0 = node0.target
                    last = tgt0.elts[-1] if isinstance(tgt0, ast.Tuple) else tgt0
                    if isinstance(last, ast.Name):
                        branch_vars.add(last.id)
            if isinstance(node0, ast.Assign) and any(isinstance(x, ast.Attribute) and x.attr == "syntenies" for x in ast.walk(node0.value)):
                synteny_vars |= {t.id for t in node0.targets if isinstance(t, ast.Name)}

        def is_source(expr: ast.AST, branch_vars=branch_vars, synteny_vars=synteny_vars) -> bool:
            if isinstance(expr, ast.Attribute) and expr.attr == "name" and isinstance(expr.value, ast.Name):
                return expr.value.id not in branch_vars
            if isinstance(expr, ast.Subscript) and (dotted(expr.value) in synteny_vars or (dotted(expr.value) or "").endswith(".syntenies")):
                return True
            return False

        tainted = _tainted_names(fn, is_source)
        expr_tainted = fn.__dict__["_expr_tainted"]
        n_sources += sum(1 for n in ast.walk(fn) if is_source(n))
        sinks = []
        for node in walk_no_nested(fn):
            if isinstance(node, ast.Dict):
                for k, v in zip(node.keys, node.values):
                    if isinstance(k, ast.Constant) and k.value == "name":
                        sinks.append(("branch label", v, node))
            if isinstance(node, ast.JoinedStr):
                sk = skeleton(node)
                if sk and "\\" in sk.text:
                    for h in sk.holes:
                        sinks.append(("template", h, node))
        for idx, (kind, expr, where) in enumerate(sinks):
            construct = f"{modname}:{fname}/sink#{idx}[{kind}:{short(expr, 24)}]"
            if expr_tainted(expr):
                res.fail(
                    construct,
                    f"`{short(expr, 60)}` reaches a {kind} without passing tex.escape: an underscore or backslash in a "
                    "name is emitted raw",
                    mod,
                    where,
                )
            else:
                res.ok(construct, "clean", nontrivial=any(isinstance(n, ast.Name) for n in ast.walk(expr)))
    if n_sources < 4:
        raise AnalysisError(f"ESCAPE-TAINT: only {n_sources} name/synteny reads found")
    return res


def escape_order(prog: Program) -> RuleResult:
    res = RuleResult(
        "ESCAPE-ORDER",
        "tex.escape replaces backslashes and underscores, and no later pattern occurs in an earlier replacement "
        "(an already escaped character is not escaped again)",
    )
    mod = prog.module(TEX)
    fn = prog.func(TEX, "escape")
    rets = [n for n in walk_no_nested(fn) if isinstance(n, ast.Return)]
    if len(rets) != 1:
        raise AnalysisError("tex.escape: single return expected")
    chain = []
    cur = rets[0].value
    while isinstance(cur, ast.Call) and isinstance(cur.func, ast.Attribute) and cur.func.attr == "replace":
        if len(cur.args) != 2 or not all(isinstance(a, ast.Constant) and isinstance(a.value, str) for a in cur.args):
            raise AnalysisError("tex.escape: replace() with non-literal arguments")
        chain.append((cur.args[0].value, cur.args[1].value))
        cur = cur.func.value
    chain.reverse()
    param = func_params(fn)[0]
    construct = f"{TEX}:escape/chain"
    problems = []
    if dotted(cur) != param:
        problems.append(f"the chain starts from `{short(cur)}`, not from the argument")
    pats = [p for p, _r in chain]
    for need, label in (("\\", "backslash"), ("_", "underscore")):
        if need not in pats:
            problems.append(f"{label} is not escaped")
    want = {"\\": "\\\\", "_": "\\_"}
    for p, r in chain:
        if p in want and r != want[p]:
            problems.append(f"{p!r} is replaced by {r!r} instead of {want[p]!r}")
    for i, (_p, r) in enumerate(chain):
        for j in range(i + 1, len(chain)):
            if chain[j][0] in r:
                problems.append(
                    f"pattern {chain[j][0]!r} (step {j + 1}) occurs in the replacement {r!r} of step {i + 1}: "
                    "escaped characters are escaped twice"
                )
    if problems:
        res.fail(construct, "; ".join(problems), mod, rets[0])
    else:
        res.ok(construct, " then ".join(f"{p!r}->{r!r}" for p, r in chain))
    return res


def label_omit(prog: Program) -> RuleResult:
    res = RuleResult(
        "LABEL-OMIT",
        "an ancestral synteny label is blanked only when the node's synteny equals its parent's; a leaf shows its "
        "synteny when it has one",
    )
    mod = prog.module(LAYOUT)
    fn = prog.func(LAYOUT, "_compute_branches")
    # roles: the label local (stored under "name"), the formatted synteny, the synteny mapping, the gene loop variable
    label_vars: Set[str] = set()
    for node in walk_no_nested(fn):
        if isinstance(node, ast.Dict):
            keys = {k.value: v for k, v in zip(node.keys, node.values) if isinstance(k, ast.Constant)}
            if "kind" in keys and isinstance(keys.get("name"), ast.Name):
                label_vars.add(keys["name"].id)
    syn_text = {
        t.id for node in walk_no_nested(fn) if isinstance(node, ast.Assign)
        and any(isinstance(c, ast.Call) and dotted(c.func) == "format_synteny" for c in ast.walk(node.value))
        for t in node.targets if isinstance(t, ast.Name)
    }
    syn_map = {
        t.id for node in walk_no_nested(fn) if isinstance(node, ast.Assign)
        and any(isinstance(x, ast.Attribute) and x.attr == "syntenies" for x in ast.walk(node.value))
        for t in node.targets if isinstance(t, ast.Name)
    }
    gene_var = None
    sp = _species_loop_var(fn)
    for node in ast.walk(fn):
        if isinstance(node, ast.For) and isinstance(node.target, ast.Name) and node.target.id != sp and isinstance(node.iter, ast.Call) and isinstance(node.iter.func, ast.Attribute) and node.iter.func.attr == "traverse":
            if any(isinstance(x, ast.Dict) for st in node.body for x in ast.walk(st)):
                gene_var = node.target.id
    if not label_vars or not syn_text or not syn_map or gene_var is None:
        raise AnalysisError(f"LABEL-OMIT: roles not recognised (label {sorted(label_vars)}, synteny text {sorted(syn_text)}, mapping {sorted(syn_map)}, gene {gene_var})")

    def canon(expr: ast.AST) -> str:
        text = ast.unparse(expr)
        for m in syn_map:
            text = re.sub(rf"\b{re.escape(m)}\b", "SYN", text)
        text = re.sub(rf"\b{re.escape(gene_var)}\b", "G", text)
        return text

    found = 0
    # `if c: label = a  else: label = b` is read as `label = a if c else b`
    folded: Dict[int, ast.Assign] = {}
    skip: Set[int] = set()
    for st in walk_no_nested(fn):
        if isinstance(st, ast.If) and len(st.body) == 1 and len(st.orelse) == 1:
            a_, b_ = st.body[0], st.orelse[0]
            if isinstance(a_, ast.Assign) and isinstance(b_, ast.Assign) and dotted(a_.targets[0]) in label_vars and dotted(a_.targets[0]) == dotted(b_.targets[0]):
                merged = ast.copy_location(ast.Assign(targets=a_.targets, value=ast.copy_location(ast.IfExp(test=st.test, body=a_.value, orelse=b_.value), st)), a_)
                folded[id(a_)] = merged
                skip.add(id(b_))
    for node in walk_no_nested(fn):
        if id(node) in skip:
            continue
        if isinstance(node, ast.Assign) and dotted(node.targets[0]) in label_vars:
            gs = [g for g in guards(fn, node) if id(node) not in folded or g[0] is not mod.parent(node).test]
            orig = node
            node = folded.get(id(node), node)
            in_leaf = any(pol and isinstance(g, ast.Call) and isinstance(g.func, ast.Attribute) and g.func.attr == "is_leaf" for g, pol in gs)
            if in_leaf:
                continue
            found += 1
            construct = f"{LAYOUT}:_compute_branches/ancestral-label"
            value = inline(fn, node.value, orig, stop=lambda n: n in syn_text or n in syn_map)
            ok = False
            why = f"`{short(node.value)}`"
            if isinstance(value, ast.IfExp):
                test, shown, blank = value.test, value.body, value.orelse
                neg = False
                if isinstance(test, ast.UnaryOp) and isinstance(test.op, ast.Not):
                    test, neg = test.operand, True
                if not neg:
                    shown, blank = blank, shown
                is_blank = isinstance(blank, ast.Constant) and blank.value == ""
                is_syn = dotted(shown) in syn_text
                cmp_ok = False
                if isinstance(test, ast.Compare) and len(test.ops) == 1 and isinstance(test.ops[0], ast.Eq):
                    sides = sorted(canon(x) for x in (test.left, test.comparators[0]))
                    cmp_ok = sides in (
                        ["SYN.get(G)", "SYN.get(G.up)"],
                        ["SYN.get(G.up)", "SYN[G]"],
                    )
                ok = is_blank and is_syn and cmp_ok
                why = f"label = {short(value, 120)}"
            elif dotted(value) in syn_text:
                ok, why = True, "label always shown"
            if ok:
                res.ok(construct, why)
            else:
                res.fail(
                    construct,
                    f"the ancestral label is blanked under a condition other than 'equal to the parent's synteny': {why}",
                    mod,
                    node,
                )
    if found == 0:
        raise AnalysisError("LABEL-OMIT: assignment of the ancestral label not found")
    # leaves
    leaf_names = [
        n
        for n in walk_no_nested(fn)
        if isinstance(n, ast.Assign) and dotted(n.targets[0]) in label_vars and dotted(n.value) in syn_text
    ]
    okl = False
    for n in leaf_names:
        gs = guards(fn, n)
        if any(pol and dotted(g) in syn_text for g, pol in gs):
            okl = True
    # the formatted synteny itself (what leaves show) must not depend on the parent's synteny
    for node in walk_no_nested(fn):
        if isinstance(node, ast.Assign) and any(isinstance(t, ast.Name) and t.id in syn_text for t in node.targets):
            value = inline(fn, node.value, node, stop=lambda n: n in syn_map or n == gene_var)
            parent_dep = [x for x in ast.walk(value) if isinstance(x, ast.Attribute) and x.attr == "up" and dotted(x.value) == gene_var]
            if parent_dep:
                okl = False
                res.fail(
                    f"{LAYOUT}:_compute_branches/leaf-label-source",
                    f"the text shown for a node's synteny (`{short(node.value, 100)}`) depends on the parent's synteny: a leaf "
                    "whose synteny equals its parent's loses its label (only ancestral labels may be omitted)",
                    mod,
                    node,
                )
                return res
            res.ok(f"{LAYOUT}:_compute_branches/leaf-label-source", "the formatted synteny depends on the node alone")
    if okl:
        res.ok(f"{LAYOUT}:_compute_branches/leaf-label", "a leaf with a synteny is labelled by it")
    else:
        res.fail(f"{LAYOUT}:_compute_branches/leaf-label", "a leaf's synteny label is not used when present", mod, fn)
    return res


def preorder_state(prog: Program) -> RuleResult:
    res = RuleResult(
        "PREORDER-STATE",
        "inside a pre-order traversal no scalar carries node-derived state from one iteration to the next "
        "(the next node in pre-order is not a descendant of the previous one in general): inherited attributes "
        "must be read from the parent node",
    )
    n = 0
    for modname in (LAYOUT, TIKZ, "model.reconciliation"):
        mod = prog.module(modname)
        for qual, fn in prog.defs(modname).items():
            if not isinstance(fn, FuncNode):
                continue
            for loop in [l for l in walk_no_nested(fn) if isinstance(l, ast.For)]:
                it = loop.iter
                if not (isinstance(it, ast.Call) and isinstance(it.func, ast.Attribute) and it.func.attr == "traverse"):
                    continue
                strat = kwarg(it, "strategy", 0)
                if not (isinstance(strat, ast.Constant) and strat.value == "preorder"):
                    continue
                if not isinstance(loop.target, ast.Name):
                    continue
                n += 1
                var = loop.target.id
                derived: Dict[str, ast.Assign] = {}
                for node in walk_no_nested(loop):
                    if isinstance(node, ast.Assign) and len(node.targets) == 1 and isinstance(node.targets[0], ast.Name):
                        if any(isinstance(s, ast.Name) and s.id == var for s in ast.walk(node.value)):
                            derived[node.targets[0].id] = node
                carried = []
                for name, asg in derived.items():
                    for node in walk_no_nested(loop):
                        if isinstance(node, ast.Name) and node.id == name and isinstance(node.ctx, ast.Load):
                            if not _dominated_by_assignment(loop, node, name):
                                carried.append((name, node))
                                break
                construct = f"{modname}:{qual}/preorder[{var}]"
                if carried:
                    names = sorted({c[0] for c in carried})
                    res.fail(
                        construct,
                        f"`{', '.join(names)}` is set from `{var}` in one iteration and read in a later one: after "
                        "leaving a nested subtree the value belongs to the wrong ancestor",
                        mod,
                        carried[0][1],
                    )
                else:
                    res.ok(construct, f"{len(derived)} node-derived locals, none loop-carried", nontrivial=bool(derived))
    if n < 3:
        raise AnalysisError(f"PREORDER-STATE: only {n} pre-order loops found")
    return res


def _dominated_by_assignment(loop: ast.For, use: ast.AST, name: str) -> bool:
    """Within one iteration, is the read preceded by an unconditional assignment of `name`?"""
    from ..flow import _stmt_chain

    shim = ast.Module(body=[loop], type_ignores=[])
    chain = _stmt_chain(shim, use)
    # drop the level of the loop statement itself
    for block, idx, fname, owner in chain[1:]:
        for prev in block[:idx]:
            if isinstance(prev, ast.Assign) and any(isinstance(t, ast.Name) and t.id == name for t in prev.targets):
                return True
    return False


RULES = {
    "PLACED-IN-SPECIES": placed_in_species,
    "LABEL-SOURCE": label_source,
    "LOSS-CHAIN": loss_chain,
    "COLOR-INHERIT": color_inherit,
    "COLOR-SOURCE": color_source,
    "KIND-EXHAUSTIVE": kind_exhaustive,
    "KIND-AGREE": kind_agree,
    "ONE-EVENT-NODE": one_event_node,
    "ONE-ARROW": one_arrow,
    "LOSS-MARKERS": loss_markers,
    "STYLE-DEFINED": style_defined,
    "MEASURE-LOCKSTEP": measure_lockstep,
    "TEMPLATE-BRACES": template_braces,
    "TEMPLATE-TERMINATED": template_terminated,
    "PICTURE-ENV": picture_env,
    "COLOR-INTERN": color_intern,
    "ESCAPE-TAINT": escape_taint,
    "ESCAPE-ORDER": escape_order,
    "LABEL-OMIT": label_omit,
    "PREORDER-STATE": preorder_state,
}


# ---------------------------------------------------------------------------
# ANCHOR-SET


def anchor_set(prog: Program) -> RuleResult:
    res = RuleResult(
        "ANCHOR-SET",
        "anchor bookkeeping of _compute_branches: every handler (leaf, speciation, duplication, transfer) registers "
        "the node it creates among the anchors of its species, unconditionally; the only nodes ever taken out of "
        "that set are children that the handler has just brought into the SAME species (results of _add_losses with "
        "the end `<species>.up`) - removing anything else, or not registering a node, leaves a drawn branch that "
        "refers to an anchor which does not exist",
    )
    mod = prog.module(LAYOUT)
    fn = prog.func(LAYOUT, "_compute_branches")
    sp = _species_loop_var(fn)
    gene_var = None
    for node in ast.walk(fn):
        if isinstance(node, ast.For) and isinstance(node.target, ast.Name) and node.target.id != sp and isinstance(node.iter, ast.Call) and isinstance(node.iter.func, ast.Attribute) and node.iter.func.attr == "traverse":
            if any(isinstance(x, ast.Dict) for st in node.body for x in ast.walk(st)):
                gene_var = node.target.id
    events = _event_names(fn)
    chains = [c for c in _kind_chains(fn) if c[0] in events or "node_event" in c[0]]
    if sp is None or gene_var is None or len(chains) != 1:
        raise AnalysisError("ANCHOR-SET: species loop / gene loop / event dispatch of _compute_branches not recognised")
    _subj, first_if, arms, _else = chains[0]
    blocks: List[Tuple[str, List[ast.stmt], ast.AST]] = [("+".join(sorted(k)), body, n) for k, body, n in arms]
    # the leaf handler: the is_leaf() arm that encloses / precedes the dispatch
    leaf_if = None
    for node in ast.walk(fn):
        if isinstance(node, ast.If) and isinstance(node.test, ast.Call) and isinstance(node.test.func, ast.Attribute) and node.test.func.attr == "is_leaf" and dotted(node.test.func.value) == gene_var:
            if any(n is first_if for st in node.orelse for n in ast.walk(st)):
                leaf_if = node
    if leaf_if is None:
        raise AnalysisError("ANCHOR-SET: leaf handler of _compute_branches not recognised")
    blocks.insert(0, ("LEAF", leaf_if.body, leaf_if))

    def anchor_calls(body, meth):
        out = []
        for st in body:
            for c in ast.walk(st):
                if isinstance(c, ast.Call) and isinstance(c.func, ast.Attribute) and c.func.attr in meth and isinstance(c.func.value, ast.Subscript) and isinstance(c.func.value.slice, ast.Constant) and c.func.value.slice.value == "anchor_nodes":
                    out.append(c)
        return out

    for kind, body, node in blocks:
        construct = f"{LAYOUT}:_compute_branches/{kind}/anchor-registered"
        adds = anchor_calls(body, ("add",))
        mine = [c for c in adds if c.args and dotted(c.args[0]) == gene_var]
        cond = [c for c in mine if any(True for g, _p in guards(fn, c) if any(n is g for st in body for n in ast.walk(st)))]
        if not mine:
            res.fail(construct, f"the {kind} handler never adds `{gene_var}` to the anchors of its species: the parent's branch will refer to an anchor that does not exist", mod, node)
        elif cond:
            res.fail(construct, f"the {kind} handler registers `{gene_var}` only under a condition", mod, cond[0])
        else:
            res.ok(construct, f"`{gene_var}` registered")
        foreign = [c for c in adds if c not in mine]
        if foreign:
            res.fail(f"{LAYOUT}:_compute_branches/{kind}/anchor-foreign", f"`{short(foreign[0])}` registers something else than the node being handled", mod, foreign[0])
        # removals
        same_species = set()
        other = set()
        for st in body:
            for a in ast.walk(st):
                if isinstance(a, ast.Assign) and isinstance(a.value, ast.Call) and (dotted(a.value.func) or "").endswith("_add_losses") and len(a.value.args) >= 4:
                    end = a.value.args[3]
                    names = {t.id for t in a.targets if isinstance(t, ast.Name)}
                    if isinstance(end, ast.Attribute) and end.attr == "up" and dotted(end.value) == sp:
                        same_species |= names
                    else:
                        other |= names
        rems = anchor_calls(body, ("remove", "discard"))
        construct = f"{LAYOUT}:_compute_branches/{kind}/anchor-removed"
        brought_at: Dict[str, int] = {}
        for st in body:
            for a in ast.walk(st):
                if isinstance(a, ast.Assign) and isinstance(a.value, ast.Call) and (dotted(a.value.func) or "").endswith("_add_losses"):
                    for t in a.targets:
                        if isinstance(t, ast.Name):
                            brought_at[t.id] = max(brought_at.get(t.id, 0), a.lineno)
        own_states = {
            t.id for st in ast.walk(fn) if isinstance(st, (ast.Assign, ast.AnnAssign))
            for t in (st.targets if isinstance(st, ast.Assign) else [st.target]) if isinstance(t, ast.Name)
            and any(isinstance(u, ast.Assign) and isinstance(u.targets[0], ast.Subscript) and dotted(u.targets[0].slice) == sp and dotted(u.value) == t.id for u in ast.walk(fn))
        }
        bad = [
            c for c in rems
            if not (c.args and dotted(c.args[0]) in same_species)
            or c.lineno < brought_at.get(dotted(c.args[0]) or "", 0)
            or (own_states and dotted(c.func.value.value) not in own_states)
        ]
        if bad:
            what = dotted(bad[0].args[0]) if bad[0].args else "?"
            res.fail(
                construct,
                f"the {kind} handler removes `{what}` from `{short(bad[0].func.value, 40)}`, but at that point `{what}` is not a child it has just brought into `{sp}` "
                f"(brought: {sorted(same_species) or 'none'}): the node lives in another species (KeyError) or loses the anchor its parent links to",
                mod,
                bad[0],
            )
        else:
            res.ok(construct, f"removes {sorted(dotted(c.args[0]) for c in rems) or 'nothing'}; children brought into the species: {sorted(same_species) or 'none'}")
    return res


RULES["ANCHOR-SET"] = anchor_set


# ---------------------------------------------------------------------------
# DRAW-ANCHOR-SIDES


def draw_anchor_sides(prog: Program) -> RuleResult:
    res = RuleResult(
        "DRAW-ANCHOR-SIDES",
        "the drawing code looks an anchor up where the layout put it: the layout of child species k (bound at the "
        "call site from `layout[children[k]]`) is indexed only with the gene stored on side k of the branch "
        "(`branch.left` for k = 0, `branch.right` for k = 1) and never with a gene that is None on that path; the "
        "foreign end of a transfer is looked up in the layout of the species that very gene is mapped to; an anchor "
        "of the species being drawn is read only after a membership test.  With LAYOUT-SIDES, LOSS-WALK and "
        "ANCHOR-SET this closes `every anchor referenced by a drawn branch exists`",
    )
    mod = prog.module(TIKZ)
    fn = prog.func(TIKZ, "_tikz_draw_branches")
    driver = prog.func(TIKZ, "render")
    params = func_params(fn)
    # sides of the layout parameters, from the call site
    calls = [c for c in calls_in(driver, nested=False) if (dotted(c.func) or "").endswith("_tikz_draw_branches")]
    if len(calls) != 1:
        raise AnalysisError("render: call of _tikz_draw_branches not found")
    call = calls[0]
    child_vars: List[str] = []
    for st in walk_no_nested(driver):
        if isinstance(st, ast.Assign) and isinstance(st.targets[0], ast.Tuple) and isinstance(st.value, ast.Attribute) and st.value.attr == "children":
            child_vars = [dotted(e) for e in st.targets[0].elts]
    side_of_param: Dict[str, int] = {}
    own_param = None
    all_param = None
    for i, arg in enumerate(call.args):
        if not isinstance(arg, ast.Name) or i >= len(params):
            continue
        defs = [a for a in walk_no_nested(driver) if isinstance(a, ast.Assign) and any(isinstance(t, ast.Name) and t.id == arg.id for t in a.targets)]
        for d in defs:
            v = d.value
            if isinstance(v, ast.Subscript) and dotted(v.slice) in child_vars:
                side_of_param[params[i]] = child_vars.index(dotted(v.slice))
                all_name = dotted(v.value)
            elif isinstance(v, ast.Subscript) and isinstance(v.slice, ast.Name) and own_param is None:
                own_param = params[i]
    if set(side_of_param.values()) != {0, 1}:
        raise AnalysisError("render: the two child layouts passed to _tikz_draw_branches are not `layout[children[k]]`")
    for i, arg in enumerate(call.args):
        if isinstance(arg, ast.Name) and i < len(params) and params[i] not in side_of_param and params[i] != own_param:
            if any(isinstance(d.value, ast.Subscript) and dotted(d.value.value) == arg.id for d in walk_no_nested(driver) if isinstance(d, ast.Assign)):
                all_param = params[i]
    # sides of the gene locals
    gene_side: Dict[str, int] = {}
    for st in walk_no_nested(fn):
        if isinstance(st, ast.Assign) and len(st.targets) == 1 and isinstance(st.targets[0], ast.Name) and isinstance(st.value, ast.Attribute) and st.value.attr in ("left", "right"):
            gene_side[st.targets[0].id] = 0 if st.value.attr == "left" else 1
    mapping_params = [p for p in params if any(
        isinstance(n, ast.Subscript) and dotted(n.value) == p and dotted(n.slice) in gene_side for n in walk_no_nested(fn))]
    n = 0
    for node in walk_no_nested(fn):
        if not (isinstance(node, ast.Subscript) and isinstance(node.ctx, ast.Load)):
            continue
        table = dealias(fn, node.value, node)  # `<layout>.anchors`, directly or through a local bound to it
        if not (isinstance(table, ast.Attribute) and table.attr == "anchors"):
            continue
        holder = table.value
        key = dotted(node.slice)
        hname = dotted(holder)
        n += 1
        construct = f"{TIKZ}:_tikz_draw_branches/anchor-lookup#{n}[{short(node, 50)}]"
        gs = guards(fn, node)
        none_here = any(_none_cmp_simple(g, key) is not None and _none_cmp_simple(g, key) == pol for g, pol in gs)
        if hname in side_of_param:
            k = side_of_param[hname]
            if gene_side.get(key) != k:
                res.fail(construct, f"the layout of child species {k} is indexed with `{key}`, which is {'the gene of side ' + str(gene_side[key]) if key in gene_side else 'not the gene stored on that side'} of the branch: the anchor lives in the other child species (KeyError, or a line to the wrong lineage)", mod, node)
            elif none_here:
                res.fail(construct, f"`{key}` is None on this path (the lineage on that side was lost)", mod, node)
            else:
                res.ok(construct, f"child {k} layout indexed with the gene of side {k}")
            continue
        # a local bound to <all layouts>[<mapping>[g]]
        if isinstance(holder, ast.Name):
            defs = [a for a in walk_no_nested(fn) if isinstance(a, ast.Assign) and any(isinstance(t, ast.Name) and t.id == holder.id for t in a.targets)]
            if len(defs) == 1 and isinstance(defs[0].value, ast.Subscript):
                inner = defs[0].value.slice
                if isinstance(inner, ast.Subscript) and dotted(inner.value) in mapping_params:
                    home = dotted(inner.slice)
                    if home == key:
                        res.ok(construct, f"`{key}` looked up in the layout of the species it is mapped to")
                    else:
                        res.fail(construct, f"the anchor of `{key}` is looked up in the layout of the species of `{home}`", mod, node)
                    continue
        # own layout: needs a dominating membership test
        member = any(pol and isinstance(g, ast.Compare) and isinstance(g.ops[0], ast.In) and dotted(g.left) == key and ast.unparse(g.comparators[0]) == ast.unparse(node.value) for g, pol in gs)
        if member:
            res.ok(construct, "guarded by a membership test")
        else:
            res.fail(construct, f"`{short(node)}` is read without knowing that the anchor exists", mod, node)
    if n < 4:
        raise AnalysisError(f"DRAW-ANCHOR-SIDES: only {n} anchor lookups found")
    return res


def _none_cmp_simple(test: ast.AST, name: Optional[str]) -> Optional[bool]:
    """True when `test` is `<name> is None`, False when `<name> is not None`."""
    if name and isinstance(test, ast.Compare) and len(test.ops) == 1 and isinstance(test.comparators[0], ast.Constant) and test.comparators[0].value is None and dotted(test.left) == name:
        if isinstance(test.ops[0], (ast.Is, ast.Eq)):
            return True
        if isinstance(test.ops[0], (ast.IsNot, ast.NotEq)):
            return False
    return None


RULES["DRAW-ANCHOR-SIDES"] = draw_anchor_sides
