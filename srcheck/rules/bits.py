"""Subsequence masks (C18): bit order agreement between writer and readers, and the run-counting loop of
subseq_segment_dist as a finite-state transition table."""
from __future__ import annotations

import ast
import itertools
from fractions import Fraction
from typing import Dict, List, Optional, Tuple

from ..core import AnalysisError, Program, RuleResult, dotted, func_params, short, walk_no_nested
from ..flow import guards
from ..sym import Poly
from .ancestry import _Pow2Norm

SUBSEQ = "utils.subsequences"


def bit_order(prog: Program) -> RuleResult:
    res = RuleResult(
        "BIT-ORDER",
        "the mask writer and the mask readers agree on which bit stands for which element: element i of the parent "
        "sequence is bit i (least significant first). mask_from_subseq sets `1 << i` for the enumerate index i of the "
        "parent; subseq_from_mask and subseq_segment_dist test `& 1` and shift right by one per step, the reader's "
        "element index starting at 0 and advancing by one on EVERY step; subseq_complete is 2**len - 1",
    )
    mod = prog.module(SUBSEQ)
    norm = _Pow2Norm()
    # writer
    w = prog.func(SUBSEQ, "mask_from_subseq")
    construct = f"{SUBSEQ}:mask_from_subseq/bit-of-element"
    loops = [l for l in walk_no_nested(w) if isinstance(l, ast.For)]
    ok = False
    why = "loop `for i, v in enumerate(parent)` not found"
    for loop in loops:
        it = loop.iter
        if isinstance(it, ast.Call) and dotted(it.func) == "enumerate" and isinstance(loop.target, ast.Tuple) and len(loop.target.elts) == 2:
            start = it.args[1] if len(it.args) > 1 else next((k.value for k in it.keywords if k.arg == "start"), None)
            idx = dotted(loop.target.elts[0])
            sets = [
                st for st in ast.walk(loop)
                if isinstance(st, ast.AugAssign) and isinstance(st.op, ast.BitOr)
            ]
            if start is not None and not (isinstance(start, ast.Constant) and start.value == 0):
                why = f"enumerate starts at {short(start)}"
            elif len(sets) != 1:
                why = "expected one `mask |= ...` in the loop"
            elif norm.poly(sets[0].value) != Poly.atom(f"pow2[{idx}]"):
                why = f"sets `{short(sets[0].value)}`, not bit `1 << {idx}` of the element's own index"
            else:
                gs = guards(w, sets[0])
                eq = any(
                    pol and isinstance(t, ast.Compare) and len(t.ops) == 1 and isinstance(t.ops[0], ast.Eq)
                    and dotted(loop.target.elts[1]) in (dotted(t.left), dotted(t.comparators[0]))
                    for t, pol in gs
                )
                if eq:
                    ok = True
                else:
                    why = "the bit is set without comparing the parent element with the next child element"
    if ok:
        res.ok(construct, "bit i <-> parent[i], set when the next child element equals parent[i]")
    else:
        res.fail(construct, why, mod, w)
    # readers
    for fname in ("subseq_from_mask", "subseq_segment_dist"):
        fn = prog.func(SUBSEQ, fname)
        construct = f"{SUBSEQ}:{fname}/lsb-first"
        loops = [l for l in walk_no_nested(fn) if isinstance(l, (ast.For, ast.While))]
        if len(loops) != 1:
            raise AnalysisError(f"{fname}: expected one scanning loop")
        loop = loops[0]
        fparams = func_params(fn)
        masks = fparams[:2] if fname == "subseq_segment_dist" else fparams[:1]
        problems = []
        for m in masks:
            tests = [
                n for n in ast.walk(loop)
                if isinstance(n, ast.BinOp) and isinstance(n.op, ast.BitAnd) and dotted(n.left) == m
            ]
            if not tests or any(not (isinstance(t.right, ast.Constant) and t.right.value == 1) for t in tests):
                problems.append(f"`{m}` is not tested with `& 1`")
            shifts = [
                st for st in loop.body
                if isinstance(st, ast.AugAssign) and dotted(st.target) == m and isinstance(st.op, ast.RShift)
            ]
            if len(shifts) != 1 or not (isinstance(shifts[0].value, ast.Constant) and shifts[0].value.value == 1):
                problems.append(f"`{m}` is not shifted right by exactly one bit at the top level of every iteration")
        if fname == "subseq_from_mask":
            idx_updates = [st for st in loop.body if isinstance(st, ast.AugAssign) and isinstance(st.op, ast.Add) and isinstance(st.value, ast.Constant) and st.value.value == 1]
            reads = [n for n in ast.walk(loop) if isinstance(n, ast.Subscript) and dotted(n.value) == fparams[1]]
            if len(idx_updates) != 1 or not reads or any(dotted(r.slice) != dotted(idx_updates[0].target) for r in reads):
                problems.append("the element index does not advance by one on every iteration (it must follow the bit position, not the number of set bits)")
            else:
                init = [st for st in fn.body if isinstance(st, ast.Assign) and dotted(st.targets[0]) == dotted(idx_updates[0].target)]
                if not init or not (isinstance(init[0].value, ast.Constant) and init[0].value.value == 0):
                    problems.append("the element index does not start at 0")
        if problems:
            res.fail(construct, "; ".join(problems), mod, loop)
        else:
            res.ok(construct, "tests bit 0, shifts right by one per step" + (", element index = bit position" if fname == "subseq_from_mask" else ""))
    # complete mask
    fn = prog.func(SUBSEQ, "subseq_complete")
    construct = f"{SUBSEQ}:subseq_complete/all-ones"
    rets = [r for r in walk_no_nested(fn) if isinstance(r, ast.Return) and r.value is not None]
    p = func_params(fn)[0]
    want = Poly.atom(f"pow2[len({p})]") - Poly.const(1)
    if len(rets) == 1 and norm.poly(rets[0].value) == want:
        res.ok(construct, short(rets[0].value))
    else:
        res.fail(construct, f"returns `{short(rets[0].value) if rets else '?'}`, not 2**len({p}) - 1 (one bit per element)", mod, fn)
    return res


# ---------------------------------------------------------------------------
# run counting as a transition table


class _Abort(Exception):
    def __init__(self, value):
        self.value = value


def _exec(stmts, env: Dict[str, object]) -> None:
    for st in stmts:
        if isinstance(st, ast.If):
            _exec(st.body if _truth(st.test, env) else st.orelse, env)
        elif isinstance(st, ast.Assign) and len(st.targets) == 1 and isinstance(st.targets[0], ast.Name):
            env[st.targets[0].id] = _value(st.value, env)
        elif isinstance(st, ast.AugAssign) and isinstance(st.target, ast.Name):
            cur = env.get(st.target.id)
            if isinstance(st.op, (ast.RShift,)):
                continue  # shifting the masks: handled by the caller (bit supply)
            if not isinstance(cur, int) or isinstance(cur, bool):
                raise AnalysisError(f"segment machine: `{short(st)}` updates a non-integer")
            val = _value(st.value, env)
            if not isinstance(val, int):
                raise AnalysisError(f"segment machine: `{short(st)}` not understood")
            env[st.target.id] = cur + val if isinstance(st.op, ast.Add) else cur - val if isinstance(st.op, ast.Sub) else None
            if env[st.target.id] is None:
                raise AnalysisError(f"segment machine: operator in `{short(st)}` not supported")
        elif isinstance(st, ast.Return):
            raise _Abort(_value(st.value, env) if st.value is not None else None)
        elif isinstance(st, (ast.Pass, ast.Expr)):
            continue
        else:
            raise AnalysisError(f"segment machine: statement `{short(st)}` not supported")


def _value(node: ast.AST, env: Dict[str, object]):
    if isinstance(node, ast.Constant):
        return node.value
    if isinstance(node, ast.Name):
        if node.id not in env:
            raise AnalysisError(f"segment machine: `{node.id}` is not a state variable")
        return env[node.id]
    if isinstance(node, ast.UnaryOp) and isinstance(node.op, ast.USub):
        return -_value(node.operand, env)
    if isinstance(node, ast.UnaryOp) and isinstance(node.op, ast.Not):
        return not _truth(node.operand, env)
    if isinstance(node, ast.BinOp) and isinstance(node.op, ast.BitAnd) and isinstance(node.right, ast.Constant) and node.right.value == 1:
        name = dotted(node.left)
        if name and f"bit:{name}" in env:
            return env[f"bit:{name}"]
    if isinstance(node, (ast.BoolOp, ast.Compare)):
        return _truth(node, env)
    raise AnalysisError(f"segment machine: expression `{short(node)}` not supported")


def _truth(node: ast.AST, env: Dict[str, object]) -> bool:
    if isinstance(node, ast.BoolOp):
        vals = [_truth(v, env) for v in node.values]
        return all(vals) if isinstance(node.op, ast.And) else any(vals)
    if isinstance(node, ast.UnaryOp) and isinstance(node.op, ast.Not):
        return not _truth(node.operand, env)
    if isinstance(node, ast.Compare) and len(node.ops) == 1:
        a, b = _value(node.left, env), _value(node.comparators[0], env)
        op = node.ops[0]
        if isinstance(op, ast.Eq):
            return a == b
        if isinstance(op, ast.NotEq):
            return a != b
        raise AnalysisError(f"segment machine: comparison `{short(node)}` not supported")
    return bool(_value(node, env))


def segment_machine(prog: Program) -> RuleResult:
    res = RuleResult(
        "SEGMENT-MACHINE",
        "the scanning loop of subseq_segment_dist is a finite-state machine over (inside a lost run?, parent bit, "
        "child bit); its transition table, its initial state and its final correction, extracted from the syntax "
        "tree over all Boolean valuations, are those of a counter of maximal runs of parent elements missing from "
        "the child: child bit without parent bit -> -1; a missing parent element opens a run (counted once) unless "
        "one is open; a kept element closes it; with ends excluded the scan starts 'inside a run' (a leading run is "
        "never counted) and a run still open at the end is un-counted",
    )
    mod = prog.module(SUBSEQ)
    fn = prog.func(SUBSEQ, "subseq_segment_dist")
    loops = [l for l in fn.body if isinstance(l, (ast.For, ast.While))]
    if len(loops) != 1:
        raise AnalysisError("subseq_segment_dist: expected one scanning loop")
    loop = loops[0]
    p_child, p_parent, p_edges = (func_params(fn) + [None, None, None])[:3]
    pos = fn.body.index(loop)
    pre, post = fn.body[:pos], fn.body[pos + 1:]
    # names: the run flag and the counter are the variables assigned before the loop
    state_names = [st.targets[0].id for st in pre if isinstance(st, ast.Assign) and isinstance(st.targets[0], ast.Name)]
    if len(state_names) != 2:
        raise AnalysisError(f"subseq_segment_dist: expected two state variables before the loop, found {state_names}")
    # which one is Boolean? evaluate the initialisation for edges = True
    bad: List[str] = []
    for edges in (True, False):
        env: Dict[str, object] = {p_edges: edges}
        try:
            _exec([st for st in pre if isinstance(st, ast.Assign)], env)
        except _Abort:
            raise AnalysisError("subseq_segment_dist: initialisation returns")
        flags = [n for n in state_names if isinstance(env[n], bool)]
        counters = [n for n in state_names if isinstance(env[n], int) and not isinstance(env[n], bool)]
        if len(flags) != 1 or len(counters) != 1:
            raise AnalysisError("subseq_segment_dist: run flag / counter not recognised")
        flag, counter = flags[0], counters[0]
        if env[flag] is not (not edges):
            bad.append(f"with edges={edges} the scan starts with {flag}={env[flag]} (a leading lost run is {'not ' if edges else ''}to be counted)")
        if env[counter] != 0:
            bad.append(f"the counter starts at {env[counter]}")
    construct = f"{SUBSEQ}:subseq_segment_dist/initial-state"
    if bad:
        res.fail(construct, "; ".join(bad), mod, pre[0])
    else:
        res.ok(construct, f"{flag} = not edges, {counter} = 0")
    # transition table
    bits = []
    for st in loop.body:
        if isinstance(st, ast.Assign) and isinstance(st.value, ast.BinOp) and isinstance(st.value.op, ast.BitAnd):
            bits.append((st.targets[0].id, dotted(st.value.left)))
    names = {mask: var for var, mask in bits}
    if set(names) != {p_child, p_parent}:
        raise AnalysisError("subseq_segment_dist: bit extraction `x = mask & 1` for child and parent not found")
    spec = {}
    for in_run, bp, bc in itertools.product((False, True), repeat=3):
        if bc and not bp:
            spec[(in_run, bp, bc)] = ("return", -1)
        elif bp and not bc:
            spec[(in_run, bp, bc)] = (True, 0 if in_run else 1)
        elif bp and bc:
            spec[(in_run, bp, bc)] = (False, 0)
        else:
            spec[(in_run, bp, bc)] = (in_run, 0)
    mism = []
    for (in_run, bp, bc), want in spec.items():
        env = {p_edges: True, flag: in_run, counter: 0, f"bit:{p_child}": int(bc), f"bit:{p_parent}": int(bp)}
        try:
            _exec(loop.body, env)
            got = (env[flag], env[counter])
        except _Abort as stop:
            got = ("return", stop.value)
        if got != want:
            mism.append(f"(in a run: {in_run}, parent bit {int(bp)}, child bit {int(bc)}) -> {got}, expected {want}")
    construct = f"{SUBSEQ}:subseq_segment_dist/transitions"
    if mism:
        res.fail(construct, "the loop body is not the run counter: " + "; ".join(mism), mod, loop)
    else:
        res.ok(construct, "8 transitions = run counter (open on a missing parent element, close on a kept one, -1 on a foreign child bit)")
    # final correction
    construct = f"{SUBSEQ}:subseq_segment_dist/final"
    bad = []
    for edges, in_run in itertools.product((True, False), repeat=2):
        env = {p_edges: edges, flag: in_run, counter: 5}
        try:
            _exec(post, env)
            got = None
        except _Abort as stop:
            got = stop.value
        want = 5 - (1 if (in_run and not edges) else 0)
        if got != want:
            bad.append(f"edges={edges}, run open at the end={in_run}: returns counter{got - 5:+d}" if isinstance(got, int) else f"edges={edges}, open={in_run}: returns {got}")
    if bad:
        res.fail(construct, "; ".join(bad) + " (a run touching the high end is un-counted exactly when ends are excluded)", mod, post[0] if post else loop)
    else:
        res.ok(construct, "a run still open at the end is un-counted exactly when ends are excluded")
    # scan length: all bits of the parent
    construct = f"{SUBSEQ}:subseq_segment_dist/scan-length"
    it = loop.iter if isinstance(loop, ast.For) else None
    ok_len = (
        isinstance(it, ast.Call) and dotted(it.func) == "range" and len(it.args) == 1
        and isinstance(it.args[0], ast.Call) and dotted(it.args[0].func) == f"{p_parent}.bit_length"
    )
    longer = any(
        isinstance(st, ast.If) and isinstance(st.test, ast.Compare)
        and {dotted(getattr(st.test.left, "func", st.test.left)), dotted(getattr(st.test.comparators[0], "func", st.test.comparators[0]))} == {f"{p_parent}.bit_length", f"{p_child}.bit_length"}
        for st in pre
    )
    if ok_len and longer:
        res.ok(construct, "scans parent.bit_length() bits; a child with a higher top bit is rejected beforehand")
    elif not ok_len:
        res.fail(construct, f"the loop scans `{short(it) if it is not None else short(loop)}`, not every bit of the parent", mod, loop)
    else:
        res.fail(construct, "a child mask longer than the parent is not rejected before the scan (its high bits are never looked at)", mod, loop)
    return res


RULES = {"BIT-ORDER": bit_order, "SEGMENT-MACHINE": segment_machine}
