"""Subsequence masks (C18): bit order agreement between writer and readers, and the run-counting loop of
subseq_segment_dist as a finite-state transition table."""
from __future__ import annotations

import ast
import itertools
from fractions import Fraction
from typing import Dict, List, Optional, Tuple

from ..core import AnalysisError, Program, RuleResult, dotted, func_params, short, walk_no_nested
from ..flow import guards
from ..sym import Poly
from .ancestry import _Pow2Norm

SUBSEQ = "utils.subsequences"


def bit_order(prog: Program) -> RuleResult:
    res = RuleResult(
        "BIT-ORDER",
        "the mask writer and the mask readers agree on which bit stands for which element: element i of the parent "
        "sequence is bit i (least significant first). mask_from_subseq sets `1 << i` for the enumerate index i of the "
        "parent; subseq_from_mask and subseq_segment_dist test `& 1` and shift right by one per step, the reader's "
        "element index starting at 0 and advancing by one on EVERY step; subseq_complete is 2**len - 1",
    )
    mod = prog.module(SUBSEQ)
    norm = _Pow2Norm()
    # one answer, computed by the scan: no shortcut around it, nothing that depends on the type of the sequences
    for fname in ("mask_from_subseq", "subseq_from_mask"):
        f = prog.func(SUBSEQ, fname)
        construct = f"{SUBSEQ}:{fname}/answer-from-the-scan"
        floops = [l for l in walk_no_nested(f) if isinstance(l, (ast.For, ast.While))]
        built = {dotted(st.target) for l in floops for st in ast.walk(l) if isinstance(st, ast.AugAssign)} | {
            dotted(c.func.value) for l in floops for c in ast.walk(l) if isinstance(c, ast.Call) and isinstance(c.func, ast.Attribute) and c.func.attr in ("append", "add", "extend")
        }
        rets = [r for r in walk_no_nested(f) if isinstance(r, ast.Return)]
        inits = [ast.dump(st.value) for st in f.body if isinstance(st, ast.Assign) and any(dotted(t) in built for t in st.targets)]
        stray = [r for r in rets if not (isinstance(r.value, ast.Name) and r.value.id in built) and not (r.value is not None and ast.dump(r.value) in inits)]
        typed = [c for c in walk_no_nested(f) if isinstance(c, ast.Call) and dotted(c.func) in ("isinstance", "type")]
        if not floops or not rets:
            continue  # not a scan at all: the clauses below say what is wrong with it
        if stray:
            res.fail(construct, f"`{short(stray[0], 70)}` answers without the scan: the mask / subsequence of every (child, parent) pair is what the element-by-element scan finds", mod, stray[0])
        elif typed:
            res.fail(construct, f"`{short(typed[0], 60)}` makes the answer depend on the type of the sequences: lists, tuples and strings of the same elements have the same masks", mod, typed[0])
        else:
            res.ok(construct, f"returns `{rets[0].value.id}`, built by the scan")
    # writer
    w = prog.func(SUBSEQ, "mask_from_subseq")
    construct = f"{SUBSEQ}:mask_from_subseq/bit-of-element"
    loops = [l for l in walk_no_nested(w) if isinstance(l, ast.For)]
    ok = False
    why = "loop `for i, v in enumerate(parent)` not found"
    for loop in loops:
        it = loop.iter
        if isinstance(it, ast.Call) and dotted(it.func) == "enumerate" and isinstance(loop.target, ast.Tuple) and len(loop.target.elts) == 2:
            start = it.args[1] if len(it.args) > 1 else next((k.value for k in it.keywords if k.arg == "start"), None)
            idx = dotted(loop.target.elts[0])
            sets = [
                st for st in ast.walk(loop)
                if isinstance(st, ast.AugAssign) and isinstance(st.op, ast.BitOr)
            ]
            if start is not None and not (isinstance(start, ast.Constant) and start.value == 0):
                why = f"enumerate starts at {short(start)}"
            elif len(sets) != 1:
                why = "expected one `mask |= ...` in the loop"
            elif norm.poly(sets[0].value) != Poly.atom(f"pow2[{idx}]"):
                why = f"sets `{short(sets[0].value)}`, not bit `1 << {idx}` of the element's own index"
            else:
                gs = guards(w, sets[0])
                eq = any(
                    pol and isinstance(t, ast.Compare) and len(t.ops) == 1 and isinstance(t.ops[0], ast.Eq)
                    and dotted(loop.target.elts[1]) in (dotted(t.left), dotted(t.comparators[0]))
                    for t, pol in gs
                )
                if eq:
                    ok = True
                else:
                    why = "the bit is set without comparing the parent element with the next child element"
    if ok:
        res.ok(construct, "bit i <-> parent[i], set when the next child element equals parent[i]")
    else:
        res.fail(construct, why, mod, w)
    # readers
    for fname in ("subseq_from_mask", "subseq_segment_dist"):
        fn = prog.func(SUBSEQ, fname)
        construct = f"{SUBSEQ}:{fname}/lsb-first"
        loops = [l for l in walk_no_nested(fn) if isinstance(l, (ast.For, ast.While))]
        if len(loops) != 1:
            raise AnalysisError(f"{fname}: expected one scanning loop")
        loop = loops[0]
        fparams = func_params(fn)
        masks = fparams[:2] if fname == "subseq_segment_dist" else fparams[:1]
        problems = []
        for m in masks:
            tests = [
                n for n in ast.walk(loop)
                if isinstance(n, ast.BinOp) and isinstance(n.op, ast.BitAnd) and dotted(n.left) == m
            ]
            if not tests or any(not (isinstance(t.right, ast.Constant) and t.right.value == 1) for t in tests):
                problems.append(f"`{m}` is not tested with `& 1`")
            shifts = [
                st for st in loop.body
                if isinstance(st, ast.AugAssign) and dotted(st.target) == m and isinstance(st.op, ast.RShift)
            ]
            if len(shifts) != 1 or not (isinstance(shifts[0].value, ast.Constant) and shifts[0].value.value == 1):
                problems.append(f"`{m}` is not shifted right by exactly one bit at the top level of every iteration")
        if fname == "subseq_from_mask":
            idx_updates = [st for st in loop.body if isinstance(st, ast.AugAssign) and isinstance(st.op, ast.Add) and isinstance(st.value, ast.Constant) and st.value.value == 1]
            reads = [n for n in ast.walk(loop) if isinstance(n, ast.Subscript) and dotted(n.value) == fparams[1]]
            if len(idx_updates) != 1 or not reads or any(dotted(r.slice) != dotted(idx_updates[0].target) for r in reads):
                problems.append("the element index does not advance by one on every iteration (it must follow the bit position, not the number of set bits)")
            else:
                init = [st for st in fn.body if isinstance(st, ast.Assign) and dotted(st.targets[0]) == dotted(idx_updates[0].target)]
                if not init or not (isinstance(init[0].value, ast.Constant) and init[0].value.value == 0):
                    problems.append("the element index does not start at 0")
        if problems:
            res.fail(construct, "; ".join(problems), mod, loop)
        else:
            res.ok(construct, "tests bit 0, shifts right by one per step" + (", element index = bit position" if fname == "subseq_from_mask" else ""))
    # complete mask
    fn = prog.func(SUBSEQ, "subseq_complete")
    construct = f"{SUBSEQ}:subseq_complete/all-ones"
    rets = [r for r in walk_no_nested(fn) if isinstance(r, ast.Return) and r.value is not None]
    p = func_params(fn)[0]
    want = Poly.atom(f"pow2[len({p})]") - Poly.const(1)
    if len(rets) == 1 and norm.poly(rets[0].value) == want:
        res.ok(construct, short(rets[0].value))
    else:
        res.fail(construct, f"returns `{short(rets[0].value) if rets else '?'}`, not 2**len({p}) - 1 (one bit per element)", mod, fn)
    return res


# ---------------------------------------------------------------------------
# run counting as a transition table


class _Abort(Exception):
    def __init__(self, value):
        self.value = value


def _exec(stmts, env: Dict[str, object]) -> None:
    for st in stmts:
        if isinstance(st, ast.If):
            _exec(st.body if _truth(st.test, env) else st.orelse, env)
        elif isinstance(st, ast.Assign) and len(st.targets) == 1 and isinstance(st.targets[0], ast.Name):
            env[st.targets[0].id] = _value(st.value, env)
        elif isinstance(st, ast.AugAssign) and isinstance(st.target, ast.Name):
            cur = env.get(st.target.id)
            if isinstance(cur, tuple):
                raise AnalysisError(f"segment machine: `{short(st)}` updates a word of which only the lowest bit is followed")
            if isinstance(st.op, (ast.RShift,)):
                continue  # shifting the masks: handled by the caller (bit supply)
            if not isinstance(cur, int) or isinstance(cur, bool):
                raise AnalysisError(f"segment machine: `{short(st)}` updates a non-integer")
            val = _value(st.value, env)
            if not isinstance(val, int):
                raise AnalysisError(f"segment machine: `{short(st)}` not understood")
            env[st.target.id] = cur + val if isinstance(st.op, ast.Add) else cur - val if isinstance(st.op, ast.Sub) else None
            if env[st.target.id] is None:
                raise AnalysisError(f"segment machine: operator in `{short(st)}` not supported")
        elif isinstance(st, ast.Return):
            raise _Abort(_value(st.value, env) if st.value is not None else None)
        elif isinstance(st, (ast.Pass, ast.Expr)):
            continue
        else:
            raise AnalysisError(f"segment machine: statement `{short(st)}` not supported")


def _value(node: ast.AST, env: Dict[str, object]):
    if isinstance(node, ast.Constant):
        return node.value
    if isinstance(node, ast.Name):
        if node.id not in env:
            raise AnalysisError(f"segment machine: `{node.id}` is not a state variable")
        return env[node.id]
    if isinstance(node, ast.UnaryOp) and isinstance(node.op, ast.USub):
        return -_value(node.operand, env)
    if isinstance(node, ast.UnaryOp) and isinstance(node.op, ast.Not):
        return not _truth(node.operand, env)
    if isinstance(node, ast.BinOp) and isinstance(node.op, ast.BitAnd) and isinstance(node.right, ast.Constant) and node.right.value == 1:
        name = dotted(node.left)
        if name and f"bit:{name}" in env:
            return env[f"bit:{name}"]
        if name and isinstance(env.get(name), tuple) and env[name][0] == "lowbit":
            return env[name][1]
    if isinstance(node, (ast.BinOp, ast.UnaryOp)) and isinstance(node.op, (ast.BitAnd, ast.BitOr, ast.BitXor, ast.Invert)) and not _masked_by_one(node):
        names = [x.id for x in ast.walk(node) if isinstance(x, ast.Name)]
        if names and all(f"bit:{x}" in env for x in names) and all(isinstance(x, (ast.Name, ast.BinOp, ast.UnaryOp, ast.BitAnd, ast.BitOr, ast.BitXor, ast.Invert, ast.Load)) for x in ast.walk(node)):
            # a word computed from the masks as they are NOW: only its lowest bit is kept (any other use of it
            # than `<name> & 1` is refused below)
            return ("lowbit", _lowbit(node, env))
    if isinstance(node, ast.BinOp) and isinstance(node.op, ast.BitAnd) and _masked_by_one(node):
        return _lowbit(node, env)
    if isinstance(node, ast.Call) and dotted(node.func) in ("bool", "int") and len(node.args) == 1:
        val = _value(node.args[0], env)
        return bool(val) if dotted(node.func) == "bool" else int(val)
    if isinstance(node, (ast.BoolOp, ast.Compare)):
        return _truth(node, env)
    raise AnalysisError(f"segment machine: expression `{short(node)}` not supported")


def _masked_by_one(node: ast.AST) -> bool:
    """`a & b & ... & 1`: only the lowest bit of every operand matters."""
    if isinstance(node, ast.BinOp) and isinstance(node.op, ast.BitAnd):
        return _masked_by_one(node.left) or _masked_by_one(node.right)
    return isinstance(node, ast.Constant) and node.value == 1


def _lowbit(node: ast.AST, env: Dict[str, object]) -> int:
    if isinstance(node, ast.Constant) and isinstance(node.value, int):
        return node.value & 1
    if isinstance(node, ast.Name) and f"bit:{node.id}" in env:
        return int(env[f"bit:{node.id}"])  # type: ignore[arg-type]
    if isinstance(node, ast.UnaryOp) and isinstance(node.op, ast.Invert):
        return 1 - _lowbit(node.operand, env)
    if isinstance(node, ast.BinOp) and isinstance(node.op, (ast.BitAnd, ast.BitOr, ast.BitXor)):
        a, b = _lowbit(node.left, env), _lowbit(node.right, env)
        return a & b if isinstance(node.op, ast.BitAnd) else a | b if isinstance(node.op, ast.BitOr) else a ^ b
    raise AnalysisError(f"segment machine: bit expression `{short(node)}` not supported")


def _truth(node: ast.AST, env: Dict[str, object]) -> bool:
    if isinstance(node, ast.BoolOp):
        vals = [_truth(v, env) for v in node.values]
        return all(vals) if isinstance(node.op, ast.And) else any(vals)
    if isinstance(node, ast.UnaryOp) and isinstance(node.op, ast.Not):
        return not _truth(node.operand, env)
    if isinstance(node, ast.Compare) and len(node.ops) == 1:
        a, b = _value(node.left, env), _value(node.comparators[0], env)
        op = node.ops[0]
        if isinstance(op, ast.Eq):
            return a == b
        if isinstance(op, ast.NotEq):
            return a != b
        if isinstance(a, int) and isinstance(b, int) and isinstance(op, (ast.Lt, ast.LtE, ast.Gt, ast.GtE)):
            return a < b if isinstance(op, ast.Lt) else a <= b if isinstance(op, ast.LtE) else a > b if isinstance(op, ast.Gt) else a >= b
        if isinstance(op, (ast.Is, ast.IsNot)):
            return (a is b) == isinstance(op, ast.Is)
        raise AnalysisError(f"segment machine: comparison `{short(node)}` not supported")
    val = _value(node, env)
    if isinstance(val, tuple):
        raise AnalysisError(f"segment machine: `{short(node)}` tests a whole word of which only the lowest bit is followed")
    return bool(val)


def segment_machine(prog: Program) -> RuleResult:
    res = RuleResult(
        "SEGMENT-MACHINE",
        "the scanning loop of subseq_segment_dist is a finite-state transducer over (parent bit, child bit) pairs; "
        "its state variables, initialisation, loop body and final correction are extracted from the syntax tree and "
        "the PRODUCT of that transducer with the reference run counter (child bit without parent bit -> -1; a "
        "missing parent element opens a run, counted once; a kept element closes it; with ends excluded a leading "
        "run and a run still open after the parent's top bit are not counted) is explored exhaustively: in every "
        "reachable product state both agree on returning -1 and on the final answer (the counters may differ by a "
        "bounded amount in between)",
    )
    mod = prog.module(SUBSEQ)
    fn = prog.func(SUBSEQ, "subseq_segment_dist")
    loops = [l for l in fn.body if isinstance(l, (ast.For, ast.While))]
    if len(loops) != 1:
        raise AnalysisError("subseq_segment_dist: expected one scanning loop")
    loop = loops[0]
    p_child, p_parent, p_edges = (func_params(fn) + [None, None, None])[:3]
    pos = fn.body.index(loop)
    pre, post = fn.body[:pos], fn.body[pos + 1:]
    state_names = [st.targets[0].id for st in pre if isinstance(st, ast.Assign) and isinstance(st.targets[0], ast.Name)]
    if not state_names:
        raise AnalysisError("subseq_segment_dist: no state variable is initialised before the loop")
    # the masks reach the scanning loop as they were given: the transducer below reads their bits from the lowest
    # upwards and assumes nothing was cut off, shifted or masked before the first iteration
    for st in pre:
        for n in ast.walk(st):
            tgt = None
            if isinstance(n, ast.AugAssign):
                tgt = n.target
            elif isinstance(n, ast.Assign) and not (isinstance(n.value, ast.Name) or (isinstance(n.value, ast.Call) and dotted(n.value.func) == "int" and len(n.value.args) == 1 and isinstance(n.value.args[0], ast.Name))):
                tgt = n.targets[0]
            if isinstance(tgt, ast.Name) and tgt.id in (p_child, p_parent):
                res.fail(f"{SUBSEQ}:subseq_segment_dist/masks-as-given", f"`{short(n, 70)}` changes the mask `{tgt.id}` before the scan: the loop length, the -1 verdict (a child element missing from the parent) and the trailing run are all read from the masks as given", mod, n)
                return res
    res.ok(f"{SUBSEQ}:subseq_segment_dist/masks-as-given", "no statement before the loop changes a mask")
    # ... and no answer is given before the scan except the -1 verdict: a closed formula for 'easy' masks (a complete
    # parent, equal masks) is a second implementation of the count that the transducer below never sees
    early = [r for st in pre for r in ast.walk(st) if isinstance(r, ast.Return) and not (isinstance(r.value, ast.UnaryOp) and isinstance(r.value.op, ast.USub) and isinstance(r.value.operand, ast.Constant) and r.value.operand.value == 1) and not (isinstance(r.value, ast.Constant) and r.value.value == -1)]
    if early:
        res.fail(f"{SUBSEQ}:subseq_segment_dist/answer-from-the-scan", f"`{short(early[0], 70)}` answers before the scan: the number of lost runs of every (child, parent) pair is what the bit-by-bit scan counts", mod, early[0])
        return res
    res.ok(f"{SUBSEQ}:subseq_segment_dist/answer-from-the-scan", "only the -1 verdict is returned before the scan")
    bits = []
    for st in loop.body:
        if isinstance(st, ast.Assign) and isinstance(st.value, ast.BinOp) and isinstance(st.value.op, ast.BitAnd):
            bits.append((st.targets[0].id, dotted(st.value.left)))
    names = {mask: var for var, mask in bits}
    if set(names) != {p_child, p_parent}:
        raise AnalysisError("subseq_segment_dist: bit extraction `x = mask & 1` for child and parent not found")
    # an explicit position variable may only be compared with 0 / 1 (it is abstracted to 0, 1, 'more')
    idx_var = dotted(loop.target) if isinstance(loop, ast.For) and isinstance(loop.target, ast.Name) and loop.target.id != "_" else None
    if idx_var:
        for n in ast.walk(loop):
            if isinstance(n, ast.Name) and n.id == idx_var and isinstance(n.ctx, ast.Load):
                ok_use = False
                for c in ast.walk(loop):
                    if isinstance(c, ast.Compare) and len(c.ops) == 1 and any(x is n for x in (c.left, c.comparators[0])):
                        other = c.comparators[0] if c.left is n else c.left
                        if isinstance(other, ast.Constant) and other.value in (0, 1):
                            ok_use = True
                if not ok_use:
                    raise AnalysisError(f"subseq_segment_dist: the position `{idx_var}` is used otherwise than in a comparison with 0 or 1")
    BASE = 10

    def spec_step(in_run: bool, bp: int, bc: int):
        if bc and not bp:
            return "abort", in_run, 0
        if bp and not bc:
            return None, True, 0 if in_run else 1
        if bp and bc:
            return None, False, 0
        return None, in_run, 0

    for edges in (True, False):
        construct = f"{SUBSEQ}:subseq_segment_dist/equivalent[edges={edges}]"
        def initial(bp0: int, bc0: int):
            """state after the statements before the loop; they may look at the lowest bits of the masks"""
            env0: Dict[str, object] = {p_edges: edges, f"bit:{p_child}": bc0, f"bit:{p_parent}": bp0}
            try:
                _exec([st for st in pre if isinstance(st, ast.Assign)], env0)
            except _Abort:
                raise AnalysisError("subseq_segment_dist: initialisation returns")
            return env0

        probe = initial(0, 0)
        bools = [n for n in state_names if isinstance(probe.get(n), (bool, tuple))]
        ints = [n for n in state_names if isinstance(probe.get(n), int) and not isinstance(probe.get(n), bool)]
        if len(bools) + len(ints) != len(state_names):
            raise AnalysisError("subseq_segment_dist: a state variable is neither Boolean nor integer")
        start = (None, None, 0, (not edges), False)
        seen = {start: ()}
        frontier = [start]
        problem = None
        while frontier and problem is None:
            cur = frontier.pop()
            bvals, idiffs, step_no, s_run, nonempty = cur
            path = seen[cur]
            for bp, bc in ((0, 0), (1, 0), (1, 1), (0, 1)):
                if cur is start or bvals is None:
                    env_i = initial(bp, bc)
                    bvals = tuple(env_i[b] for b in bools)
                    idiffs = tuple(env_i[i] for i in ints)
                env = {p_edges: edges, f"bit:{p_child}": bc, f"bit:{p_parent}": bp}
                env.update(dict(zip(bools, bvals)))
                env.update({n: BASE + d for n, d in zip(ints, idiffs)})
                if idx_var:
                    env[idx_var] = step_no
                s_out, s_run2, s_inc = spec_step(s_run, bp, bc)
                word = path + ((bp, bc),)
                try:
                    _exec(loop.body, env)
                    got_abort = None
                except _Abort as stop:
                    got_abort = ("abort", stop.value)
                shown = " ".join(f"(parent {a}, child {b})" for a, b in word)
                if s_out == "abort":
                    if got_abort is None or got_abort[1] != -1:
                        problem = f"after the bit pairs {shown} (least significant first) the child has an element the parent lacks, but the scan {'goes on' if got_abort is None else f'returns {got_abort[1]}'} instead of returning -1"
                        break
                    continue
                if got_abort is not None:
                    problem = f"after the bit pairs {shown} the scan returns {got_abort[1]} although the child is still contained in the parent"
                    break
                nb = tuple(env[b] for b in bools)
                nd = tuple(env[i] - (BASE + s_inc) for i in ints)
                if any(abs(d) > 4 for d in nd):
                    raise AnalysisError("subseq_segment_dist: an integer state variable drifts away from the run count (machine not understood)")
                nxt = (nb, nd, min(step_no + 1, 2), s_run2, nonempty or bool(bc))
                if bp and nxt[4]:  # the parent's top bit is a set bit: the scan may end here (non-empty children only)
                    fenv = {p_edges: edges}
                    fenv.update(dict(zip(bools, nb)))
                    fenv.update({n: BASE + d for n, d in zip(ints, nd)})
                    try:
                        _exec(post, fenv)
                        got = None
                    except _Abort as stop:
                        got = stop.value
                    want = BASE - (1 if (s_run2 and not edges) else 0)
                    if got != want:
                        delta = (got - want) if isinstance(got, int) else None
                        problem = (
                            f"for a parent/child whose bit pairs are {shown} (least significant first) the answer is "
                            + (f"{delta:+d} off the number of lost runs" if delta is not None else f"`{got}`")
                            + (" with the end runs ignored" if not edges else "")
                        )
                        break
                if nxt not in seen:
                    seen[nxt] = word
                    frontier.append(nxt)
        if problem:
            res.fail(construct, problem, mod, loop)
        else:
            res.ok(construct, f"{len(seen)} product states explored; same -1 verdicts and same final answers as the run counter")
    # scan length: all bits of the parent
    construct = f"{SUBSEQ}:subseq_segment_dist/scan-length"
    it = loop.iter if isinstance(loop, ast.For) else None
    ok_len = (
        isinstance(it, ast.Call) and dotted(it.func) == "range" and len(it.args) == 1
        and isinstance(it.args[0], ast.Call) and dotted(it.args[0].func) == f"{p_parent}.bit_length"
    )
    longer = any(
        isinstance(st, ast.If) and isinstance(st.test, ast.Compare)
        and {dotted(getattr(st.test.left, "func", st.test.left)), dotted(getattr(st.test.comparators[0], "func", st.test.comparators[0]))} == {f"{p_parent}.bit_length", f"{p_child}.bit_length"}
        for st in pre
    )
    if ok_len and longer:
        res.ok(construct, "scans parent.bit_length() bits; a child with a higher top bit is rejected beforehand")
    elif not ok_len:
        res.fail(construct, f"the loop scans `{short(it) if it is not None else short(loop)}`, not every bit of the parent", mod, loop)
    else:
        res.fail(construct, "a child mask longer than the parent is not rejected before the scan (its high bits are never looked at)", mod, loop)
    return res


RULES = {"BIT-ORDER": bit_order, "SEGMENT-MACHINE": segment_machine}
