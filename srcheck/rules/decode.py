"""Rules on the decoders, table fills and solver drivers (C01-C05, C08)."""
from __future__ import annotations

import ast
from typing import Dict, List, Optional, Set, Tuple

from ..core import (
    AnalysisError,
    FuncNode,
    Module,
    Program,
    RuleResult,
    calls_in,
    dotted,
    func_params,
    kwarg,
    short,
    walk_no_nested,
)
from ..flow import Opaque, always_exits, guards, loops_around, reaching
from ..resolve import all_fields, resolve_name

COMPUTE = [
    "compute.reconciliation",
    "compute.super_reconciliation",
    "compute.unordered_super_reconciliation",
    "compute.exhaustive",
]

MUTATORS = {
    "add", "update", "append", "extend", "insert", "remove", "discard", "pop", "popitem", "clear",
    "setdefault", "sort", "reverse", "intersection_update", "difference_update",
    "symmetric_difference_update", "add_child", "add_feature", "remove_child", "detach", "delete",
    "add_features", "del_feature", "unite",
}
FRESH_CALLS = {
    "set", "frozenset", "list", "dict", "tuple", "sorted", "sort_synteny", "deepcopy", "copy",
    "Tree", "TreeNode", "union", "difference", "intersection", "symmetric_difference",
}


def _compute_funcs(prog: Program):
    for modname in COMPUTE:
        mod = prog.module(modname)
        for qual, node in prog.defs(modname).items():
            if isinstance(node, FuncNode) and "." not in qual:
                yield mod, modname, qual, node


def _is_generator(fn: ast.AST) -> bool:
    return any(isinstance(n, (ast.Yield, ast.YieldFrom)) for n in walk_no_nested(fn))


def _self_calls(fn: ast.AST) -> List[ast.Call]:
    return [c for c in calls_in(fn, nested=False) if isinstance(c.func, ast.Name) and c.func.id == fn.name]


def _output_class(prog: Program, mod: Module, call: ast.AST) -> Optional[Tuple[Module, ast.ClassDef]]:
    if not isinstance(call, ast.Call) or not isinstance(call.func, ast.Name):
        return None
    res = resolve_name(prog, mod, call.func.id)
    if res and isinstance(res[1], ast.ClassDef) and res[1].name.endswith("Output"):
        return res[0], res[1]
    return None


def decoders(prog: Program):
    """(mod, modname, fn, has_table) for every recursive generator yielding outputs."""
    out = []
    for mod, modname, qual, fn in _compute_funcs(prog):
        if not _is_generator(fn) or not _self_calls(fn):
            continue
        yields = [n for n in walk_no_nested(fn) if isinstance(n, ast.Yield) and n.value is not None]
        if not any(_output_class(prog, mod, y.value) for y in yields):
            continue
        has_table = "table" in func_params(fn)
        out.append((mod, modname, fn, has_table))
    return out


def _ctor_fields(prog: Program, mod: Module, call: ast.Call) -> Dict[str, ast.AST]:
    cmod, cls = _output_class(prog, mod, call)  # type: ignore[misc]
    fields = all_fields(prog, cmod, cls)
    out: Dict[str, ast.AST] = {}
    for idx, arg in enumerate(call.args):
        if idx < len(fields):
            out[fields[idx]] = arg
    for kw in call.keywords:
        if kw.arg:
            out[kw.arg] = kw.value
    return out


def _object_param(fn: ast.AST) -> Optional[str]:
    """The parameter holding the current object-tree node (the one `.children` is read from)."""
    params = func_params(fn)
    for node in walk_no_nested(fn):
        if isinstance(node, ast.Attribute) and node.attr == "children" and isinstance(node.value, ast.Name):
            if node.value.id in params:
                return node.value.id
    # generate_all rebinds `node`
    for node in walk_no_nested(fn):
        if isinstance(node, ast.Attribute) and node.attr == "children" and isinstance(node.value, ast.Name):
            return node.value.id
    return None


def _mapping_fields(prog: Program, mod: Module, cls_pair) -> List[str]:
    cmod, cls = cls_pair
    out = []
    seen = set()

    def visit(m, c):
        from ..resolve import class_bases

        for bm, bc in class_bases(prog, m, c):
            visit(bm, bc)
        for stmt in c.body:
            if isinstance(stmt, ast.AnnAssign) and isinstance(stmt.target, ast.Name):
                ann = dotted(stmt.annotation) or ""
                if ann.endswith("Mapping") and stmt.target.id not in seen:
                    seen.add(stmt.target.id)
                    out.append(stmt.target.id)

    visit(cmod, cls)
    return out


# ---------------------------------------------------------------------------


def decode_guard(prog: Program) -> RuleResult:
    res = RuleResult(
        "DECODE-GUARD",
        "an output whose mapping contains only the current node may be yielded only for a leaf of the "
        "object tree and (table decoders) only from a finite table entry",
    )
    found = decoders(prog)
    for mod, modname, fn, has_table in found:
        obj = _object_param(fn)
        for y in [n for n in walk_no_nested(fn) if isinstance(n, ast.Yield) and n.value is not None]:
            if not _output_class(prog, mod, y.value):
                continue
            fields = _ctor_fields(prog, mod, y.value)
            mapping = fields.get("object_species")
            if not isinstance(mapping, ast.Dict):
                raise AnalysisError(f"{modname}:{fn.name}: object_species of a yielded output is not a dict display")
            spreads = [v for k, v in zip(mapping.keys, mapping.values) if k is None]
            if spreads:
                continue
            gs = guards(fn, y)
            leaf = any(pol and _mentions_is_leaf(g, obj) for g, pol in gs)
            finite = any(_finite_test(g, pol) for g, pol in gs)
            construct = f"{modname}:{fn.name}/single-node-yield"
            if not leaf:
                res.fail(
                    construct,
                    f"`{short(y.value, 90)}` maps only the current node but is not restricted to leaves of the "
                    "object tree: an internal node whose entry has no tags yields a partial mapping "
                    "(cost() then fails on the unmapped children)",
                    mod,
                    y,
                    guards=[("" if pol else "not ") + short(g) for g, pol in gs],
                )
            elif has_table and not finite:
                res.fail(
                    construct,
                    f"`{short(y.value, 90)}` is yielded for a leaf without testing that its table entry is finite "
                    "(a leaf placed in a species other than its own would be returned)",
                    mod,
                    y,
                )
            else:
                res.ok(construct, "guarded by is_leaf()" + (" and a finite-entry test" if has_table else ""))
    res.floor(4, "single-node yields (3 table decoders + generate_all)")
    return res


def _mentions_is_leaf(test: ast.AST, obj: Optional[str]) -> bool:
    """The guard (or one of its conjuncts) is `<obj>.is_leaf()`."""
    for part in _conj(test):
        if (
            isinstance(part, ast.Call)
            and isinstance(part.func, ast.Attribute)
            and part.func.attr == "is_leaf"
            and (obj is None or dotted(part.func.value) == obj)
        ):
            return True
    return False


def _conj(test: ast.AST) -> List[ast.AST]:
    if isinstance(test, ast.BoolOp) and isinstance(test.op, ast.And):
        out: List[ast.AST] = []
        for v in test.values:
            out.extend(_conj(v))
        return out
    return [test]


def _finite_test(test: ast.AST, pol: bool) -> bool:
    """positive guard containing `not X.is_infinite()` or negative guard `X.is_infinite()`."""
    if pol:
        for part in _conj(test):
            if isinstance(part, ast.UnaryOp) and isinstance(part.op, ast.Not) and _is_infinite_call(part.operand):
                return True
        return False
    # negated guard: not (A or B) gives not A and not B
    parts = test.values if isinstance(test, ast.BoolOp) and isinstance(test.op, ast.Or) else [test]
    return any(_is_infinite_call(p) for p in parts)


def _is_infinite_call(node: ast.AST) -> bool:
    return (
        isinstance(node, ast.Call)
        and (
            (isinstance(node.func, ast.Attribute) and node.func.attr == "is_infinite")
            or dotted(node.func) == "is_infinite"
        )
    )


# ---------------------------------------------------------------------------


def _product_loop(fn: ast.AST):
    """`for A, B in product(rec(...), rec(...))` (possibly via a local name)."""
    for node in walk_no_nested(fn):
        if not isinstance(node, ast.For):
            continue
        it = node.iter
        if isinstance(it, ast.Name):
            val = reaching(fn, it.id, node)
            if val is not None and not isinstance(val, Opaque):
                it = val
        if (
            isinstance(it, ast.Call)
            and dotted(it.func) in ("product", "itertools.product")
            and len(it.args) == 2
            and all(isinstance(a, ast.Call) and isinstance(a.func, ast.Name) and a.func.id == fn.name for a in it.args)
            and isinstance(node.target, ast.Tuple)
            and len(node.target.elts) == 2
        ):
            return node, it
    return None, None


def decode_complete(prog: Program) -> RuleResult:
    res = RuleResult(
        "DECODE-COMPLETE",
        "every output yielded for an internal node contains the current node and spreads the decoded "
        "mapping of both children into each mapping field; the two recursive calls decode the first child "
        "with the first half of the tag and the second child with the second half",
    )
    for mod, modname, fn, has_table in decoders(prog):
        loop, it = _product_loop(fn)
        base = f"{modname}:{fn.name}"
        if loop is None:
            raise AnalysisError(f"{base}: loop over product(recursive call, recursive call) not recognised")
        left_var, right_var = (e.id for e in loop.target.elts)  # type: ignore[union-attr]
        obj = _object_param(fn)
        full_yields = 0
        for y in [n for n in walk_no_nested(loop) if isinstance(n, ast.Yield) and n.value is not None]:
            pair = _output_class(prog, mod, y.value)
            if not pair:
                continue
            fields = _ctor_fields(prog, mod, y.value)
            for fname in _mapping_fields(prog, mod, pair):
                construct = f"{base}/yield.{fname}"
                value = fields.get(fname)
                if not isinstance(value, ast.Dict):
                    res.fail(construct, f"mapping field `{fname}` of the yielded output is not built in place", mod, y)
                    continue
                spread = {dotted(v) for k, v in zip(value.keys, value.values) if k is None}
                keys = [dotted(k) for k in value.keys if k is not None]
                missing = [f"{v}.{fname}" for v in (left_var, right_var) if f"{v}.{fname}" not in spread]
                if missing:
                    res.fail(
                        construct,
                        f"the yielded `{fname}` does not include {', '.join(missing)}: nodes of that subtree "
                        "are missing from the solution",
                        mod,
                        y,
                    )
                elif obj is not None and obj not in keys:
                    res.fail(construct, f"the yielded `{fname}` has no entry for the current node `{obj}`", mod, y)
                else:
                    res.ok(construct, f"{{{obj}: ..., **{left_var}.{fname}, **{right_var}.{fname}}}")
                full_yields += 1
        if not full_yields:
            raise AnalysisError(f"{base}: no output yielded inside the product loop")

        # the two recursive calls: sides
        child_names = _children_unpack(fn, obj)
        tag_var = _tag_loop_var(fn, loop)
        for idx, call in enumerate(it.args):
            side = ("left", "right")[idx]
            construct = f"{base}/recursion[{idx}]"
            arg_names = [dotted(a) for a in call.args]
            objs = [n for n in arg_names if n in child_names]
            tags = sorted(
                {
                    n.attr
                    for a in call.args
                    for n in ast.walk(a)
                    if isinstance(n, ast.Attribute) and n.attr in ("left", "right") and _rooted_at(n, tag_var)
                }
            )
            problems = []
            if child_names and (len(objs) != 1 or child_names.index(objs[0]) != idx):
                problems.append(f"decodes object `{objs}` instead of child {idx}")
            if tag_var is not None and tags and tags != [side]:
                problems.append(f"uses the `{'/'.join(tags)}` half of the tag for child {idx}")
            if tag_var is not None and has_table and not tags:
                problems.append("does not read the tag of the current entry")
            if problems:
                res.fail(construct, f"`{short(call, 80)}` " + "; ".join(problems), mod, call)
            else:
                res.ok(construct, f"child {idx} decoded with tag half `{side}`" if tags else f"child {idx}")
    res.floor(8)
    return res


def _children_unpack(fn: ast.AST, obj: Optional[str]) -> List[str]:
    for node in walk_no_nested(fn):
        if (
            isinstance(node, ast.Assign)
            and isinstance(node.value, ast.Attribute)
            and node.value.attr == "children"
            and dotted(node.value.value) == obj
            and isinstance(node.targets[0], ast.Tuple)
        ):
            return [e.id for e in node.targets[0].elts if isinstance(e, ast.Name)]
    return []


def _tag_loop_var(fn: ast.AST, inner: ast.AST) -> Optional[str]:
    for loop in loops_around(fn, inner):
        if isinstance(loop, ast.For) and isinstance(loop.target, ast.Name):
            it = loop.iter
            if isinstance(it, ast.Call) and isinstance(it.func, ast.Attribute) and it.func.attr in ("infos", "info"):
                return loop.target.id
    return None


def _rooted_at(node: ast.AST, name: Optional[str]) -> bool:
    while isinstance(node, ast.Attribute):
        node = node.value
    return isinstance(node, ast.Name) and node.id == name


def decode_product(prog: Program) -> RuleResult:
    res = RuleResult(
        "DECODE-PRODUCT",
        "a table decoder iterates all retained tags (.infos()) of the entry, takes the full product of the two "
        "children decodings and never leaves those loops early",
    )
    for mod, modname, fn, has_table in decoders(prog):
        base = f"{modname}:{fn.name}"
        loop, it = _product_loop(fn)
        if loop is None:
            raise AnalysisError(f"{base}: product loop not recognised")
        res.ok(f"{base}/product", short(it, 80))
        outer = [l for l in loops_around(fn, loop)]
        if has_table:
            tag_loops = []
            for l in outer:
                if not isinstance(l, ast.For):
                    continue
                tag_calls = [
                    c
                    for c in calls_in(l.iter)
                    if isinstance(c.func, ast.Attribute) and c.func.attr in ("infos", "info") and not c.args
                ]
                if tag_calls:
                    tag_loops.append((l, tag_calls))
            if not tag_loops:
                raise AnalysisError(f"{base}: loop over the entry's tags not recognised")
            tl, tag_calls = tag_loops[0]
            direct = isinstance(tl.iter, ast.Call) and tl.iter is tag_calls[0] and tag_calls[0].func.attr == "infos"
            wrapped_ok = (
                tag_calls[0].func.attr == "infos"
                and isinstance(tl.iter, ast.Call)
                and dotted(tl.iter.func) in ("sorted", "list", "tuple", "set", "iter", "tqdm")
            )
            if direct or wrapped_ok:
                res.ok(f"{base}/tags", short(tl.iter, 80))
            else:
                res.fail(
                    f"{base}/tags",
                    f"iterates `{short(tl.iter)}` instead of all retained tags `.infos()`: co-optimal solutions are dropped",
                    mod,
                    tl,
                )
        scope = outer[0] if outer else loop
        early = [n for n in walk_no_nested(scope) if isinstance(n, (ast.Break, ast.Return))]
        if early:
            res.fail(
                f"{base}/no-early-exit",
                f"`{short(early[0])}` inside the decoding loops drops solutions",
                mod,
                early[0],
            )
        else:
            res.ok(f"{base}/no-early-exit", "no break/return inside the decoding loops")
        # slicing / truncating the iterables
        for sub in ast.walk(loop.iter if not isinstance(loop.iter, ast.Name) else it):
            if isinstance(sub, ast.Call) and dotted(sub.func) in ("islice", "itertools.islice", "next"):
                res.fail(f"{base}/truncate", f"`{short(sub)}` truncates the enumeration", mod, sub)
    res.floor(9)
    return res


# ---------------------------------------------------------------------------
# freshness / mutation


def _annotation_mutable(prog: Program, mod: Module, ann: Optional[ast.AST]) -> Optional[bool]:
    if ann is None:
        return None
    text = ast.unparse(ann)
    for token in ("Set", "Dict", "List", "Mapping", "Synteny", "Table", "Tree", "TreeNode", "set", "dict", "list"):
        if token in text:
            return True
    for token in ("int", "str", "bool", "float", "SyntenyAssignment", "RetentionPolicy"):
        if text in (token, f"Optional[{token}]"):
            return False
    return None


def _shared_origin(fn: ast.AST, expr: ast.AST, at: ast.AST, depth: int = 6) -> Optional[str]:
    """If the value of `expr` may alias something reachable from a parameter, name it."""
    params = func_params(fn)
    if isinstance(expr, ast.Name):
        val = reaching(fn, expr.id, at)
        if val is None:
            return expr.id if expr.id in params else None
        if isinstance(val, Opaque):
            # loop variables over shared containers and the like: find the binding loop
            for loop in loops_around(fn, at):
                if isinstance(loop, ast.For) and expr.id in [n.id for n in ast.walk(loop.target) if isinstance(n, ast.Name)]:
                    return _shared_origin(fn, loop.iter, loop, depth - 1)
            return None
        if depth <= 0:
            return None
        pos = val if hasattr(val, "lineno") else at
        return _shared_origin(fn, val, pos, depth - 1)
    if isinstance(expr, (ast.Subscript, ast.Attribute)):
        return _shared_origin(fn, expr.value, at, depth)
    if isinstance(expr, ast.IfExp):
        return _shared_origin(fn, expr.body, at, depth) or _shared_origin(fn, expr.orelse, at, depth)
    if isinstance(expr, ast.Call):
        name = dotted(expr.func) or ""
        last = name.rsplit(".", 1)[-1]
        if last in ("get", "values", "items", "keys", "infos", "info") and isinstance(expr.func, ast.Attribute):
            return _shared_origin(fn, expr.func.value, at, depth)
        return None
    return None


def readonly_decode(prog: Program) -> RuleResult:
    res = RuleResult(
        "READONLY-DECODE",
        "a decoder performs no in-place operation on a parameter or on anything reachable from one "
        "(tables, required-content and gain sets are shared between all recursive calls and all solutions)",
    )
    for mod, modname, fn, has_table in decoders(prog):
        base = f"{modname}:{fn.name}"
        n_checked = 0
        argmap = {a.arg: a.annotation for a in fn.args.args + fn.args.kwonlyargs}
        for node in walk_no_nested(fn):
            if isinstance(node, ast.AugAssign):
                n_checked += 1
                target = node.target
                if isinstance(target, ast.Name):
                    val = reaching(fn, target.id, node)
                    origin = None
                    if val is None and target.id in argmap:
                        origin = target.id
                    elif val is not None and not isinstance(val, Opaque):
                        origin = _shared_origin(fn, val, val if hasattr(val, "lineno") else node)
                    if origin is None:
                        continue
                    mutable = _annotation_mutable(prog, mod, argmap.get(origin))
                    inplace_set_op = isinstance(node.op, (ast.BitOr, ast.BitAnd, ast.BitXor))
                    if mutable or (mutable is None and inplace_set_op):
                        res.fail(
                            f"{base}/inplace[{target.id}]",
                            f"`{short(node)}` updates in place an object that aliases parameter `{origin}`; "
                            "the change is visible to sibling subtrees and to later solutions",
                            mod,
                            node,
                        )
                else:
                    origin = _shared_origin(fn, target, node)
                    if origin is not None:
                        res.fail(
                            f"{base}/inplace[{short(target, 30)}]",
                            f"`{short(node)}` writes into a structure reachable from parameter `{origin}`",
                            mod,
                            node,
                        )
            elif isinstance(node, (ast.Assign, ast.Delete)):
                targets = node.targets
                for target in targets:
                    if isinstance(target, (ast.Subscript, ast.Attribute)):
                        n_checked += 1
                        origin = _shared_origin(fn, target.value, node)
                        if origin is not None:
                            res.fail(
                                f"{base}/store[{short(target, 30)}]",
                                f"`{short(node)}` writes into a structure reachable from parameter `{origin}`",
                                mod,
                                node,
                            )
            elif isinstance(node, ast.Call) and isinstance(node.func, ast.Attribute) and node.func.attr in MUTATORS:
                n_checked += 1
                origin = _shared_origin(fn, node.func.value, node)
                if origin is not None:
                    res.fail(
                        f"{base}/call[{node.func.attr}]",
                        f"`{short(node)}` mutates an object reachable from parameter `{origin}`",
                        mod,
                        node,
                    )
        # sub-solutions (loop variables of the product over the children's decodings) are shared too: the same
        # left sub-solution is combined with every right one
        subsol = set()
        for loop in walk_no_nested(fn):
            if isinstance(loop, ast.For):
                subsol |= {n.id for n in ast.walk(loop.target) if isinstance(n, ast.Name)}

        def sub_origin(expr: ast.AST, at: ast.AST, depth: int = 0):
            root = expr
            while isinstance(root, (ast.Attribute, ast.Subscript)):
                root = root.value
            if not isinstance(root, ast.Name) or depth > 4:
                return None
            if root.id in subsol and root is not expr:
                return root.id
            if root.id in subsol and isinstance(expr, ast.Name):
                return root.id
            val = reaching(fn, root.id, at) if hasattr(at, "lineno") else None
            if val is not None and not isinstance(val, Opaque) and isinstance(val, (ast.Attribute, ast.Subscript, ast.Name)):
                return sub_origin(val, val if hasattr(val, "lineno") else at, depth + 1)
            return None

        for node in walk_no_nested(fn):
            hit = None
            if isinstance(node, ast.Call) and isinstance(node.func, ast.Attribute) and node.func.attr in MUTATORS:
                hit = sub_origin(node.func.value, node)
            elif isinstance(node, (ast.Assign, ast.AugAssign, ast.Delete)):
                for target in (node.targets if isinstance(node, (ast.Assign, ast.Delete)) else [node.target]):
                    if isinstance(target, (ast.Subscript, ast.Attribute)):
                        hit = hit or sub_origin(target.value, node)
            if hit is not None:
                n_checked += 1
                res.fail(
                    f"{base}/sub-solution[{hit}]",
                    f"`{short(node)}` changes the sub-solution `{hit}` in place; it is combined with several partners "
                    "(the product re-uses the same object), so solutions yielded earlier change with it",
                    mod,
                    node,
                )
        if not any(o.construct.startswith(base) and not o.ok for o in res.obligations):
            res.ok(base, f"{n_checked} candidate mutation sites, none on shared data")
    res.floor(4)
    return res



# ---------------------------------------------------------------------------
# content flow of the unordered decoder


def _set_atoms(expr: ast.AST, env: Dict[str, ast.AST], depth: int = 0) -> Optional[Tuple[str, ...]]:
    """Normal form of a set-valued expression: sorted atoms of a union (`a | b`, `a.union(b)`,
    `set(a) | b`, `frozenset(a)`); names are followed through `env`."""
    if depth == 0:
        expr = _subst_env(expr, env)  # closed form: names stand for their value on entry of the function
        env = {}
    if isinstance(expr, ast.BinOp) and isinstance(expr.op, ast.BitOr):
        left, right = _set_atoms(expr.left, env, depth + 1), _set_atoms(expr.right, env, depth + 1)
        if left is None or right is None:
            return None
        return tuple(sorted(set(left) | set(right)))
    if isinstance(expr, ast.Call):
        name = dotted(expr.func)
        if name in ("set", "frozenset", "sort_synteny", "sorted", "list", "tuple") and len(expr.args) == 1 and not expr.keywords:
            return _set_atoms(expr.args[0], env, depth + 1)
        if isinstance(expr.func, ast.Attribute) and expr.func.attr == "union" and not expr.keywords:
            parts = [_set_atoms(expr.func.value, env, depth + 1)] + [_set_atoms(a, env, depth + 1) for a in expr.args]
            if any(p is None for p in parts):
                return None
            out: Set[str] = set()
            for p in parts:
                out |= set(p)  # type: ignore[arg-type]
            return tuple(sorted(out))
        if isinstance(expr.func, ast.Attribute) and expr.func.attr == "copy" and not expr.args:
            return _set_atoms(expr.func.value, env, depth + 1)
    if isinstance(expr, (ast.Name, ast.Subscript, ast.Attribute)):
        return (" ".join(ast.unparse(expr).split()).replace("@in", ""),)
    return None


def _branch_env(stmts: List[ast.stmt], env: Dict[str, ast.AST]) -> Dict[str, ast.AST]:
    """Sequential simple assignments of a straight-line block (AugAssign `x |= y` becomes `x | y`)."""
    env = dict(env)
    for stmt in stmts:
        if isinstance(stmt, ast.Assign) and len(stmt.targets) == 1 and isinstance(stmt.targets[0], ast.Name):
            env[stmt.targets[0].id] = _subst_env(stmt.value, env)
        elif isinstance(stmt, ast.AnnAssign) and isinstance(stmt.target, ast.Name) and stmt.value is not None:
            env[stmt.target.id] = _subst_env(stmt.value, env)
        elif isinstance(stmt, ast.AugAssign) and isinstance(stmt.target, ast.Name):
            env[stmt.target.id] = ast.BinOp(
                left=env.get(stmt.target.id, ast.Name(id=stmt.target.id + "@in", ctx=ast.Load())), op=stmt.op, right=_subst_env(stmt.value, env)
            )
    return env


def _subst_env(expr: ast.AST, env: Dict[str, ast.AST]) -> ast.AST:
    import copy as _copy

    class Sub(ast.NodeTransformer):
        def visit_Name(self, node):
            if isinstance(node.ctx, ast.Load) and node.id in env:
                return _copy.deepcopy(env[node.id])
            if isinstance(node.ctx, ast.Load) and not node.id.endswith("@in"):
                return ast.Name(id=node.id + "@in", ctx=ast.Load())
            return node

        def visit_Attribute(self, node):
            # method / attribute names are not variables; only rewrite the base
            node.value = self.visit(node.value)
            return node

        def visit_Call(self, node):
            if isinstance(node.func, ast.Name):
                node.args = [self.visit(a) for a in node.args]
                node.keywords = [ast.keyword(arg=k.arg, value=self.visit(k.value)) for k in node.keywords]
                return node
            return self.generic_visit(node)

    return Sub().visit(_copy.deepcopy(expr))


def decode_content_flow(prog: Program) -> RuleResult:
    res = RuleResult(
        "DECODE-CONTENT-FLOW",
        "in the unordered decoder, on each branch of the kind dispatch the family set handed down to the two "
        "recursive calls (the content an INHERIT child starts from) is the node's own content, i.e. the very set "
        "whose sorted form is stored as the node's synteny in the yielded solution - the table priced an "
        "inheriting child as 'parent's content plus own gains'",
    )
    modname = "compute.unordered_super_reconciliation"
    mod = prog.module(modname)
    found = 0
    for dmod, dmodname, fn, _has_table in decoders(prog):
        if dmodname != modname:
            continue
        params = func_params(fn)
        # the inherited-content parameter: annotated with an (optional) unordered synteny, not a dict of them
        inherited = None
        for arg in fn.args.args:  # type: ignore[attr-defined]
            ann = ast.unparse(arg.annotation) if arg.annotation is not None else ""
            if "UnorderedSynteny" in ann and "Dict" not in ann and "Mapping" not in ann:
                inherited = arg.arg
        if inherited is None:
            raise AnalysisError(f"{fn.name}: inherited-content parameter not recognised")
        idx = params.index(inherited)
        # the kind dispatch: first top-level `if` that binds names
        dispatch = next((st for st in fn.body if isinstance(st, ast.If) and st.orelse), None)  # type: ignore[attr-defined]
        if dispatch is None:
            raise AnalysisError(f"{fn.name}: kind dispatch (if/else at the top of the decoder) not recognised")
        pre = _branch_env([st for st in fn.body[: fn.body.index(dispatch)]], {})  # type: ignore[attr-defined]
        obj = _object_param(fn)
        # content stored for the node in the yielded outputs
        stored: List[ast.AST] = []
        for y in walk_no_nested(fn):
            if isinstance(y, ast.Yield) and isinstance(y.value, ast.Call) and _output_class(prog, mod, y.value):
                fields = _ctor_fields(prog, mod, y.value)
                syn = fields.get("syntenies")
                if isinstance(syn, ast.Dict):
                    for k, v in zip(syn.keys, syn.values):
                        if k is not None and dotted(k) == obj:
                            stored.append(v)
        if not stored:
            raise AnalysisError(f"{fn.name}: no `syntenies={{<node>: ...}}` entry found in the yielded outputs")
        rec_calls = _self_calls(fn)
        for label, block in (("if", dispatch.body), ("else", dispatch.orelse)):
            env = _branch_env(block, pre)
            found += 1
            construct = f"{modname}:{fn.name}/content-flow[{label}: {short(dispatch.test, 40)}]"
            own = {_set_atoms(v, env) for v in stored}
            if None in own or len(own) != 1:
                raise AnalysisError(f"{fn.name}: the node's stored content is not a recognisable set expression on the {label} branch")
            own_atoms = next(iter(own))
            bad = []
            for call in rec_calls:
                passed = call.args[idx] if len(call.args) > idx else kwarg(call, inherited)
                if passed is None:
                    raise AnalysisError(f"{fn.name}: recursive call does not pass `{inherited}` positionally or by keyword")
                got = _set_atoms(passed, env)
                if got is None:
                    raise AnalysisError(f"{fn.name}: `{short(passed)}` handed down is not a recognisable set expression")
                if got != own_atoms:
                    bad.append((call, got))
            if bad:
                call, got = bad[0]
                res.fail(
                    construct,
                    f"on this branch the node's own content is {{{' | '.join(own_atoms)}}} but the recursive calls "
                    f"hand down {{{' | '.join(got)}}} as `{inherited}`: an inheriting child is rebuilt from a set "
                    "that is not its parent's content",
                    mod,
                    call,
                )
            else:
                res.ok(construct, f"children inherit {{{' | '.join(own_atoms)}}} = the node's stored content ({len(rec_calls)} recursive calls)")
    if found < 2:
        raise AnalysisError("DECODE-CONTENT-FLOW: the unordered decoder was not found")
    return res


def result_unconditional(prog: Program) -> RuleResult:
    res = RuleResult(
        "RESULT-UNCONDITIONAL",
        "inside the loops over refinements, root orders and root species of a solver driver, no `continue` / `break` "
        "/ `return` depends on the result entry collected so far unless the test is a STRICT bound (`bound > "
        "results.value()`): skipping an alternative that merely ties with the best found drops optimal solutions "
        "under ALL, and stopping at the first solution under ANY returns whatever refinement happened to come first",
    )
    n = 0
    for mod, modname, qual, fn in _compute_funcs(prog):
        entries = [
            st.targets[0].id for st in walk_no_nested(fn)
            if isinstance(st, (ast.Assign, ast.AnnAssign))
            and isinstance(getattr(st, "value", None), ast.Call) and dotted(st.value.func) == "Entry"
            and isinstance((st.targets[0] if isinstance(st, ast.Assign) else st.target), ast.Name)
            for st in [st]
        ] if False else []
        for st in walk_no_nested(fn):
            tgt = None
            if isinstance(st, ast.Assign) and len(st.targets) == 1:
                tgt = st.targets[0]
            elif isinstance(st, ast.AnnAssign):
                tgt = st.target
            if tgt is not None and isinstance(tgt, ast.Name) and isinstance(getattr(st, "value", None), ast.Call) and dotted(st.value.func) == "Entry":
                entries.append(tgt.id)
        if not entries:
            continue
        loops = [l for l in walk_no_nested(fn) if isinstance(l, ast.For)]
        if not loops:
            continue
        n += 1
        construct = f"{modname}:{qual}/result-driven-exits"
        bad = []
        for node in walk_no_nested(fn):
            if not isinstance(node, (ast.Continue, ast.Break, ast.Return)):
                continue
            if isinstance(node, ast.Return) and not loops_around(fn, node):
                continue
            for test, pol in guards(fn, node):
                reads = [
                    c for c in ast.walk(test)
                    if isinstance(c, ast.Call) and isinstance(c.func, ast.Attribute) and dotted(c.func.value) in entries
                ] + [x for x in ast.walk(test) if isinstance(x, ast.Name) and x.id in entries and not isinstance(mod.parent(x), ast.Attribute)]
                if not reads:
                    continue
                if _strict_bound(test, pol, entries):
                    continue
                bad.append((node, test, pol))
        if bad:
            node, test, pol = bad[0]
            res.fail(
                construct,
                f"`{type(node).__name__.lower()}` under `{'' if pol else 'not '}{short(test, 70)}` depends on the result entry without being a strict bound: alternatives that tie with the best found so far (or everything after the first hit) are skipped",
                mod,
                node,
            )
        else:
            res.ok(construct, f"no exit from the enumeration loops depends on {entries}")
    res.floor(4)
    return res


def _strict_bound(test: ast.AST, pol: bool, entries: List[str]) -> bool:
    """`X > results.value()` known true / `X <= results.value()` known false (results MIN entry)."""
    if not (isinstance(test, ast.Compare) and len(test.ops) == 1):
        return False

    def is_value(e: ast.AST) -> bool:
        return isinstance(e, ast.Call) and isinstance(e.func, ast.Attribute) and e.func.attr == "value" and dotted(e.func.value) in entries

    left, op, right = test.left, test.ops[0], test.comparators[0]
    if is_value(right) and not is_value(left):
        return (isinstance(op, ast.Gt) and pol) or (isinstance(op, ast.LtE) and not pol)
    if is_value(left) and not is_value(right):
        return (isinstance(op, ast.Lt) and pol) or (isinstance(op, ast.GtE) and not pol)
    return False

# ---------------------------------------------------------------------------


def _table_fills(prog: Program):
    """Functions that build a Table and fill it in a traversal loop."""
    out = []
    for mod, modname, qual, fn in _compute_funcs(prog):
        tables = [
            n
            for n in walk_no_nested(fn)
            if isinstance(n, ast.Assign) and isinstance(n.value, ast.Call) and dotted(n.value.func) == "Table"
        ]
        if tables:
            out.append((mod, modname, fn, tables[0]))
    return out


def leaf_anchor(prog: Program) -> RuleResult:
    res = RuleResult(
        "LEAF-ANCHOR",
        "the leaf case of each table fill writes exactly one entry of cost 0, keyed by the leaf's given "
        "species (and, for the ordered solver, by the leaf's own synteny)",
    )
    fills = _table_fills(prog)
    for mod, modname, fn, tbl in fills:
        base = f"{modname}:{fn.name}"
        tname = tbl.targets[0].id  # type: ignore[union-attr]
        leaf_ifs = [
            n
            for n in walk_no_nested(fn)
            if isinstance(n, ast.If)
            and isinstance(n.test, ast.Call)
            and isinstance(n.test.func, ast.Attribute)
            and n.test.func.attr == "is_leaf"
        ]
        leaf_ifs = [n for n in leaf_ifs if any(isinstance(l, ast.For) for l in loops_around(fn, n))]
        if not leaf_ifs:
            raise AnalysisError(f"{base}: leaf branch not recognised")
        branch = leaf_ifs[0]
        obj = dotted(branch.test.func.value)  # type: ignore[union-attr]
        writes = []
        for node in branch.body:
            for sub in ast.walk(node):
                if isinstance(sub, ast.Assign) and any(_rooted_at_sub(t, tname) for t in sub.targets):
                    writes.append(sub)
                if (
                    isinstance(sub, ast.Call)
                    and isinstance(sub.func, ast.Attribute)
                    and sub.func.attr == "update"
                    and _rooted_at_sub(sub.func.value, tname)
                ):
                    writes.append(sub)
        construct = f"{base}/leaf-entry"
        if len(writes) != 1 or not isinstance(writes[0], ast.Assign):
            res.fail(construct, f"the leaf branch writes {len(writes)} table entries (expected one assignment)", mod, branch)
            continue
        write = writes[0]
        keys = _subscript_keys(write.targets[0])
        problems = []
        if not keys or dotted(keys[0]) != obj:
            problems.append(f"first key is `{short(keys[0]) if keys else '?'}`, not the leaf `{obj}`")
        if len(keys) < 2 or not _derives_from(fn, keys[1], write, "leaf_object_species", obj):
            problems.append("species key is not the leaf's entry of leaf_object_species")
        needs_synteny = any("leaf_syntenies" in ast.unparse(n) for n in branch.body)
        if needs_synteny and (len(keys) < 3 or not _derives_from(fn, keys[2], write, "leaf_syntenies", obj)):
            problems.append("synteny key is not derived from the leaf's entry of leaf_syntenies")
        value = write.value
        cost = None
        if isinstance(value, ast.Call) and dotted(value.func) == "Candidate":
            cost = kwarg(value, "value", 0)
        if not (isinstance(cost, ast.Constant) and cost.value == 0):
            problems.append(f"leaf cost is `{short(cost)}`, not 0")
        if problems:
            res.fail(construct, "; ".join(problems), mod, write)
        else:
            res.ok(construct, short(write, 90))
    res.floor(3)
    return res


def _rooted_at_sub(node: ast.AST, name: str) -> bool:
    while isinstance(node, (ast.Subscript, ast.Attribute)):
        node = node.value
    return isinstance(node, ast.Name) and node.id == name


def _subscript_keys(node: ast.AST) -> List[ast.AST]:
    keys: List[ast.AST] = []
    while isinstance(node, ast.Subscript):
        keys.append(node.slice)
        node = node.value
    return list(reversed(keys))


def _derives_from(fn: ast.AST, expr: ast.AST, at: ast.AST, attr: str, obj: Optional[str], depth: int = 4) -> bool:
    """expr is (a function of) `<something>.<attr>[<obj>]`."""
    for sub in ast.walk(expr):
        if (
            isinstance(sub, ast.Subscript)
            and isinstance(sub.value, ast.Attribute)
            and sub.value.attr == attr
            and dotted(sub.slice) == obj
        ):
            return True
    if depth > 0:
        for sub in ast.walk(expr):
            if isinstance(sub, ast.Name) and isinstance(sub.ctx, ast.Load):
                val = reaching(fn, sub.id, at)
                if val is not None and not isinstance(val, Opaque):
                    if _derives_from(fn, val, val if hasattr(val, "lineno") else at, attr, obj, depth - 1):
                        return True
    return False


# ---------------------------------------------------------------------------


def _retention_params(fn: ast.AST) -> List[str]:
    out = []
    for a in fn.args.args + fn.args.kwonlyargs:
        if a.annotation is not None and "RetentionPolicy" in ast.unparse(a.annotation):
            out.append(a.arg)
    return out


def policy_flow(prog: Program) -> RuleResult:
    res = RuleResult(
        "POLICY-FLOW",
        "the retention policy requested by the caller reaches every Table and result Entry the solver builds: "
        "each such constructor, and each call of a function taking a RetentionPolicy, receives the caller's own "
        "policy parameter, never a constant",
    )
    policy_funcs: Dict[str, Tuple[Module, ast.AST, List[str]]] = {}
    for mod, modname, qual, fn in _compute_funcs(prog):
        rp = _retention_params(fn)
        if rp:
            policy_funcs[fn.name] = (mod, fn, rp)
    for mod, modname, qual, fn in _compute_funcs(prog):
        own = _retention_params(fn)
        base = f"{modname}:{fn.name}"
        for call in calls_in(fn, nested=False):
            name = dotted(call.func)
            arg = None
            what = None
            if name == "Entry" and len(call.args) == 2 and (dotted(call.args[1]) or "").startswith("RetentionPolicy."):
                # an aggregate or result entry with a hard-wired retention policy, whatever its merge policy
                res.fail(
                    f"{base}/Entry[{short(call.args[1])}]",
                    f"`{short(call, 70)}` fixes the retention policy of an entry to `{short(call.args[1])}`: under ALL the "
                    "tied candidates it drops are optimal solutions that are never decoded (aggregates are made with "
                    "`table.entry()`, results with the caller's policy)",
                    mod,
                    call,
                )
                continue
            if name == "Entry" and len(call.args) == 2 and dotted(call.args[0]) in ("MergePolicy.MIN", "MergePolicy.MAX"):
                arg, what = call.args[1], "Entry"
            elif name == "Table":
                arg, what = kwarg(call, "retention_policy", 2), "Table"
                if arg is None:
                    res.fail(
                        f"{base}/Table",
                        f"`{short(call, 70)}` is built without a retention policy (defaults to NONE: no tags, "
                        "nothing can be decoded)",
                        mod,
                        call,
                    )
                    continue
            elif name in policy_funcs and name != fn.name:
                cmod, cfn, crp = policy_funcs[name]
                params = func_params(cfn)
                idx = params.index(crp[0])
                arg, what = kwarg(call, crp[0], idx), f"call {name}"
            if what is None or arg is None:
                continue
            construct = f"{base}/{what}"
            if isinstance(arg, ast.Name) and arg.id in own:
                res.ok(construct, f"receives parameter `{arg.id}`")
            elif not own:
                # a driver without a policy parameter (e.g. a fixed-policy helper): must not exist for solvers
                res.fail(
                    construct,
                    f"`{short(call, 70)}` fixes the retention policy to `{short(arg)}` in a function that has no "
                    "policy parameter",
                    mod,
                    call,
                )
            else:
                res.fail(
                    construct,
                    f"`{short(call, 70)}` receives `{short(arg)}` instead of the caller's policy `{own[0]}`",
                    mod,
                    call,
                )
    res.floor(10)
    return res


def result_scope(prog: Program) -> RuleResult:
    res = RuleResult(
        "RESULT-SCOPE",
        "the result entry of a solver is created once, outside every loop (refinements, root orders, root "
        "species), updated inside them with Candidate(cost(), output), and its tags are returned after them",
    )
    for mod, modname, qual, fn in _compute_funcs(prog):
        base = f"{modname}:{fn.name}"
        entries = [
            n
            for n in walk_no_nested(fn)
            if isinstance(n, (ast.Assign, ast.AnnAssign))
            and isinstance(n.value, ast.Call)
            and dotted(n.value.func) == "Entry"
        ]
        rets = [
            n
            for n in walk_no_nested(fn)
            if isinstance(n, ast.Return)
            and isinstance(n.value, ast.Call)
            and isinstance(n.value.func, ast.Attribute)
            and n.value.func.attr in ("infos", "info")
        ]
        if not entries or not rets:
            continue
        for ent in entries:
            target = ent.targets[0] if isinstance(ent, ast.Assign) else ent.target
            if not isinstance(target, ast.Name):
                continue
            name = target.id
            if not any(dotted(r.value.func.value) == name for r in rets):  # type: ignore[union-attr]
                continue
            construct = f"{base}/result-entry"
            problems = []
            if loops_around(fn, ent):
                problems.append("the result entry is re-created inside a loop (earlier iterations are forgotten)")
            for r in rets:
                if dotted(r.value.func.value) == name:  # type: ignore[union-attr]
                    if loops_around(fn, r):
                        problems.append("the result is returned from inside a loop (later iterations never run)")
                    if r.value.func.attr != "infos":  # type: ignore[union-attr]
                        problems.append("returns a single tag (.info()) instead of the retained set (.infos())")
            updates = [
                c
                for c in calls_in(fn, nested=False)
                if isinstance(c.func, ast.Attribute) and c.func.attr == "update" and dotted(c.func.value) == name
            ]
            if not updates:
                problems.append("the result entry is never updated")
            binar = [
                l
                for l in walk_no_nested(fn)
                if isinstance(l, ast.For) and any(
                    isinstance(c.func, ast.Attribute) and c.func.attr == "binarize" for c in calls_in(l.iter)
                )
            ]
            for upd in updates:
                around = loops_around(fn, upd)
                if not around:
                    problems.append("the result entry is updated outside any loop")
                if binar and not any(l is binar[0] for l in around):
                    problems.append("the update is outside the loop over binarize()")
                if not _update_uses_cost(fn, upd):
                    problems.append(f"`{short(upd, 60)}` does not rank outputs by their cost()")
                # every decoded solution is offered: nothing filters them between the decoder and the result entry
                sieves = [c for c in ast.walk(upd) if isinstance(c, ast.Call) and dotted(c.func) in ("filter", "itertools.filterfalse", "filterfalse", "itertools.islice", "islice", "itertools.takewhile", "takewhile")]
                sieves += [c for c in ast.walk(upd) if isinstance(c, (ast.GeneratorExp, ast.ListComp, ast.SetComp)) and any(g.ifs for g in c.generators)]
                if sieves:
                    problems.append(f"the decoded solutions pass through `{short(sieves[0], 60)}` before they are offered: a solution the decoder produced is a solution")
            for node in walk_no_nested(fn):
                if isinstance(node, (ast.Break,)) :
                    problems.append("a `break` leaves the enumeration early")
            # every species is tried as the host of the root object: the innermost loop that feeds the result
            # entry walks the whole species tree (a transfer can put the root anywhere, also below the LCA of
            # the leaf species)
            for upd in updates:
                around = [l for l in loops_around(fn, upd) if isinstance(l, ast.For)]
                if not around:
                    continue
                inner = around[-1]
                it = inner.iter
                if isinstance(it, ast.Call) and (dotted(it.func) or "").endswith("tqdm") and it.args:
                    it = it.args[0]
                if isinstance(it, ast.Name):
                    got = reaching(fn, it.id, inner)
                    it = got if got is not None and not isinstance(got, Opaque) else it
                whole = (
                    isinstance(it, ast.Call) and isinstance(it.func, ast.Attribute) and it.func.attr == "traverse"
                    and isinstance(it.func.value, ast.Attribute) and it.func.value.attr == "tree"
                )
                text = ast.unparse(it)
                # ... and none of them is skipped: nothing in that loop stands between a species and the update
                inside = {id(x) for x in ast.walk(inner)}
                filt = [t for t, _pol in guards(fn, upd) if id(t) in inside]
                if "species" in ast.unparse(inner.target) and filt:
                    problems.append(f"the host species of the root object are filtered by `{short(filt[0], 60)}`: with transfers the root can sit anywhere, also below the species spanning the leaves of its children")
                if "species" in ast.unparse(inner.target) and not whole:
                    problems.append(f"the host species of the root object range over `{short(it, 70)}`, not over every species of the tree")
                elif "species" in ast.unparse(inner.target) and whole and "species" not in text:
                    problems.append(f"the root hosts range over `{short(it, 70)}`, which is not the species tree")
            if problems:
                res.fail(construct, "; ".join(sorted(set(problems))), mod, ent)
            else:
                res.ok(construct, f"`{name}` created outside loops, updated in {len(updates)} site(s), returned after")
    res.floor(4)
    return res


def _update_uses_cost(fn: ast.AST, upd: ast.Call) -> bool:
    """Some Candidate(<x>.cost(), <x>) flows into the update (directly, via map/lambda or comprehension)."""
    for sub in ast.walk(upd):
        if isinstance(sub, ast.Call) and dotted(sub.func) == "Candidate":
            value = kwarg(sub, "value", 0)
            info = kwarg(sub, "info", 1)
            if (
                isinstance(value, ast.Call)
                and isinstance(value.func, ast.Attribute)
                and value.func.attr == "cost"
                and info is not None
                and dotted(info) == dotted(value.func.value)
            ):
                return True
    return False


# ---------------------------------------------------------------------------
# traversal order


def _children_derived(fn: ast.AST, node_var: str) -> Set[str]:
    """Names bound to children of `node_var` inside fn."""
    out: Set[str] = set()
    changed = True
    while changed:
        changed = False
        for sub in ast.walk(fn):
            if isinstance(sub, ast.Assign):
                val = sub.value
                if _is_children_expr(val, node_var):
                    for t in sub.targets:
                        for n in ast.walk(t):
                            if isinstance(n, ast.Name) and n.id not in out:
                                out.add(n.id)
                                changed = True
            if isinstance(sub, (ast.For, ast.comprehension)):
                if _is_children_expr(sub.iter, node_var):
                    for n in ast.walk(sub.target):
                        if isinstance(n, ast.Name) and n.id not in out:
                            out.add(n.id)
                            changed = True
    return out


def _is_children_expr(val: ast.AST, node_var: str) -> bool:
    if isinstance(val, ast.Attribute) and val.attr == "children" and dotted(val.value) == node_var:
        return True
    if isinstance(val, ast.Subscript):
        return _is_children_expr(val.value, node_var)
    return False


def _index_uses(root: ast.AST, container: str) -> List[Tuple[ast.Subscript, str]]:
    """(subscript node, first key name) for `container[key]...` expressions."""
    out = []
    for sub in ast.walk(root):
        if isinstance(sub, ast.Subscript) and isinstance(sub.value, ast.Name) and sub.value.id == container:
            key = dotted(sub.slice)
            if key is None and isinstance(sub.slice, ast.Subscript):
                # container[node.children[i]]
                inner = getattr(sub.slice.value, "value", None)
                if inner is not None and _is_children_expr(sub.slice, dotted(inner) or ""):
                    key = "<child-of>" + (dotted(inner) or "")
            if key is not None:
                out.append((sub, key))
    return out


def _aliases_of(fn_body: ast.AST, container: str, key: str) -> Set[str]:
    out = set()
    for sub in ast.walk(fn_body):
        if (
            isinstance(sub, ast.Assign)
            and isinstance(sub.value, ast.Subscript)
            and isinstance(sub.value.value, ast.Name)
            and sub.value.value.id == container
            and dotted(sub.value.slice) == key
        ):
            for t in sub.targets:
                if isinstance(t, ast.Name):
                    out.add(t.id)
    return out


def _is_store(prog_mod: Module, node: ast.AST) -> bool:
    """Is this subscript expression (or a chain on top of it) written to / updated?"""
    cur = node
    parent = prog_mod.parent(cur)
    while isinstance(parent, (ast.Subscript, ast.Attribute)) and getattr(parent, "value", None) is cur:
        cur = parent
        parent = prog_mod.parent(cur)
    if isinstance(parent, ast.Assign) and cur in parent.targets:
        return True
    if isinstance(parent, ast.AugAssign) and parent.target is cur:
        return True
    if isinstance(parent, ast.Call) and parent.func is cur and isinstance(cur, ast.Attribute):
        return cur.attr in MUTATORS
    if isinstance(parent, ast.Delete):
        return True
    return False


def _subkey(mod: Module, node: ast.AST) -> str:
    """Constant second-level key of `container[key][<const>]`, else '*'."""
    parent = mod.parent(node)
    if isinstance(parent, ast.Subscript) and parent.value is node and isinstance(parent.slice, ast.Constant):
        return repr(parent.slice.value)
    return "*"


def _summary(prog: Program, mod: Module, fn: ast.AST, node_param: str, cont_param: str, depth: int = 2) -> Set[Tuple[str, str, str]]:
    """Accesses {(role, 'r'|'w', subkey)} of container[...] relative to node_param (role: self|child)."""
    kids = _children_derived(fn, node_param)
    acc: Set[Tuple[str, str, str]] = set()

    def role_of(key: str) -> Optional[str]:
        if key == node_param:
            return "self"
        if key in kids or key == "<child-of>" + node_param:
            return "child"
        return None

    alias_role: Dict[str, str] = {}
    for sub, key in _index_uses(fn, cont_param):
        role = role_of(key)
        if role is None:
            continue
        parent = mod.parent(sub)
        if isinstance(parent, ast.Assign) and parent.value is sub:
            for t in parent.targets:
                if isinstance(t, ast.Name):
                    alias_role[t.id] = role
            continue
        top = sub
        sk = _subkey(mod, sub)
        if sk != "*":
            top = mod.parent(sub)
        acc.add((role, "w" if _is_store(mod, top) else "r", sk))
    for alias, role in alias_role.items():
        seen_use = False
        for sub in ast.walk(fn):
            if isinstance(sub, (ast.Subscript, ast.Attribute)) and isinstance(sub.value, ast.Name) and sub.value.id == alias:
                seen_use = True
                sk = repr(sub.slice.value) if isinstance(sub, ast.Subscript) and isinstance(sub.slice, ast.Constant) else "*"
                acc.add((role, "w" if _is_store(mod, sub) else "r", sk))
        if not seen_use:
            acc.add((role, "r", "*"))
    if depth > 0:
        from ..resolve import resolve_callee

        for call in calls_in(fn, nested=False):
            res = resolve_callee(prog, mod, call.func) if isinstance(call.func, ast.Name) else None
            if not res or not isinstance(res[1], FuncNode):
                continue
            cmod, cfn = res
            params = func_params(cfn)
            amap: Dict[str, str] = {}
            for idx, arg in enumerate(call.args):
                if idx < len(params) and isinstance(arg, ast.Name):
                    amap[params[idx]] = arg.id
            for kw in call.keywords:
                if kw.arg and isinstance(kw.value, ast.Name):
                    amap[kw.arg] = kw.value.id
            inv = {v: k for k, v in amap.items()}
            if cont_param not in inv:
                continue
            for cand, role in [(node_param, "self")] + [(k, "child") for k in sorted(kids)]:
                if cand in inv:
                    sub_acc = _summary(prog, cmod, cfn, inv[cand], inv[cont_param], depth - 1)
                    for r2, a2, k2 in sub_acc:
                        if role == "self":
                            acc.add((r2, a2, k2))
                        elif r2 == "self":
                            acc.add(("child", a2, k2))
    return acc


def _dep(acc: Set[Tuple[str, str, str]], writer: str, reader: str) -> bool:
    ws = {k for r, a, k in acc if r == writer and a == "w"}
    rs = {k for r, a, k in acc if r == reader and a == "r"}
    return any(w == r or w == "*" or r == "*" for w in ws for r in rs)


TRAVERSAL_MODULES = COMPUTE + ["model.reconciliation", "utils.trees", "render.layout"]


def traversal(prog: Program) -> RuleResult:
    res = RuleResult(
        "TRAVERSAL",
        "a traversal loop that fills M[node] from M[child] must run in post-order; one that fills M[child] "
        "from M[node] must not (ete3's default is level-order, parents first)",
    )
    for modname in TRAVERSAL_MODULES:
        mod = prog.module(modname)
        for qual, fn in prog.defs(modname).items():
            if not isinstance(fn, FuncNode):
                continue
            fn_loops = sorted((n for n in walk_no_nested(fn) if isinstance(n, ast.For)), key=lambda n: n.lineno)
            seen_vars: Dict[str, int] = {}
            for loop in fn_loops:
                it = loop.iter
                # unwrap tqdm(x, ...)
                if isinstance(it, ast.Call) and dotted(it.func) == "tqdm" and it.args:
                    it = it.args[0]
                if not (isinstance(it, ast.Call) and isinstance(it.func, ast.Attribute) and it.func.attr == "traverse"):
                    continue
                if not isinstance(loop.target, ast.Name):
                    continue
                strategy = "levelorder"
                sarg = kwarg(it, "strategy", 0)
                if sarg is not None:
                    if isinstance(sarg, ast.Constant) and isinstance(sarg.value, str):
                        strategy = sarg.value
                    else:
                        strategy = "?"
                node_var = loop.target.id
                seen_vars[node_var] = seen_vars.get(node_var, 0) + 1
                loop_tag = f"{node_var}#{seen_vars[node_var]}" if seen_vars[node_var] > 1 else node_var
                containers = set()
                body_wrap = ast.Module(body=loop.body, type_ignores=[])
                for sub in ast.walk(body_wrap):
                    if isinstance(sub, ast.Subscript) and isinstance(sub.value, ast.Name):
                        containers.add(sub.value.id)
                    if isinstance(sub, ast.Call):
                        for a in sub.args:
                            if isinstance(a, ast.Name):
                                containers.add(a.id)
                for cont in sorted(containers):
                    if cont == node_var:
                        continue
                    shim = _LoopShim(fn, loop)
                    acc = _summary(prog, mod, shim, node_var, cont)
                    bottom_up = _dep(acc, "self", "child")
                    top_down = _dep(acc, "child", "self")
                    if not (bottom_up or top_down):
                        continue
                    construct = f"{modname}:{qual}/for[{loop_tag}]/{cont}"
                    if bottom_up and top_down:
                        # both directions inside one loop cannot be ordered by any strategy
                        res.ok(construct, f"reads and writes both directions; strategy {strategy}", nontrivial=True)
                    elif bottom_up:
                        if strategy == "postorder":
                            res.ok(construct, f"{cont}[{node_var}] depends on {cont}[child]: postorder")
                        else:
                            res.fail(
                                construct,
                                f"{cont}[{node_var}] is computed from {cont}[child of {node_var}] but the loop "
                                f"visits nodes in `{strategy}` order (children not yet computed)",
                                mod,
                                loop,
                            )
                    else:
                        if strategy in ("preorder", "levelorder"):
                            res.ok(construct, f"{cont}[child] depends on {cont}[{node_var}]: {strategy}")
                        else:
                            res.fail(
                                construct,
                                f"{cont}[child of {node_var}] is computed from {cont}[{node_var}] but the loop "
                                f"visits nodes in `{strategy}` order (parents not yet computed)",
                                mod,
                                loop,
                            )
    res.floor(8)
    return res


class _LoopShim(ast.AST):
    """A pseudo-function whose body is the loop body (so summaries see only the loop)."""

    _fields = ("body",)

    def __init__(self, fn: ast.AST, loop: ast.For):
        super().__init__()
        self.body = loop.body
        self.name = getattr(fn, "name", "<loop>")
        self.args = fn.args  # type: ignore[attr-defined]


# ---------------------------------------------------------------------------


def event_exhaustive(prog: Program) -> RuleResult:
    res = RuleResult(
        "EVENT-EXHAUSTIVE",
        "node_event returns a NodeEvent member on every path; the cost evaluator handles every member "
        "(INVALID -> infinite cost, LEAF -> 0) and ends with the remaining one under an assertion",
    )
    from ..resolve import enum_members, method_def

    modname = "model.reconciliation"
    mod = prog.module(modname)
    members = enum_members(prog.cls(modname, "NodeEvent"))
    out = prog.cls(modname, "ReconciliationOutput")
    ne = method_def(out, "node_event")
    cr = method_def(out, "_cost_rec")
    if ne is None or cr is None:
        raise AnalysisError("node_event/_cost_rec not found")
    if not always_exits(ne.body):
        res.fail(f"{modname}:ReconciliationOutput.node_event/total", "some path falls off the end (returns None)", mod, ne)
    else:
        res.ok(f"{modname}:ReconciliationOutput.node_event/total", "every path ends in return")
    returned = set()
    for node in walk_no_nested(ne):
        if isinstance(node, ast.Return):
            vals = [node.value]
            while vals:
                v = vals.pop()
                if isinstance(v, ast.IfExp):
                    vals.extend([v.body, v.orelse])
                    continue
                name = dotted(v) if v is not None else None
                if name and name.startswith("NodeEvent.") and name.split(".")[1] in members:
                    returned.add(name.split(".")[1])
                else:
                    res.fail(
                        f"{modname}:ReconciliationOutput.node_event/returns",
                        f"returns `{short(v)}`, not a NodeEvent member",
                        mod,
                        node,
                    )
    missing = [m for m in members if m not in returned]
    if missing:
        res.fail(
            f"{modname}:ReconciliationOutput.node_event/all-kinds",
            f"never classifies a node as {missing}",
            mod,
            ne,
        )
    else:
        res.ok(f"{modname}:ReconciliationOutput.node_event/all-kinds", f"returns each of {members}")
    handled = {}
    for node in walk_no_nested(cr):
        if isinstance(node, ast.Compare) and len(node.ops) == 1 and isinstance(node.ops[0], ast.Eq):
            for side in (node.left, node.comparators[0]):
                name = dotted(side)
                if name and name.startswith("NodeEvent."):
                    handled[name.split(".")[1]] = node
    missing = [m for m in members if m not in handled]
    if missing:
        res.fail(
            f"{modname}:ReconciliationOutput._cost_rec/handles",
            f"the evaluator has no case for {missing}",
            mod,
            cr,
        )
    else:
        res.ok(f"{modname}:ReconciliationOutput._cost_rec/handles", f"cases for {sorted(handled)}")
    # INVALID -> inf ; LEAF -> 0
    for member, want in (("INVALID", "inf"), ("LEAF", 0)):
        ok = False
        for node in walk_no_nested(cr):
            if isinstance(node, ast.Return) and node.value is not None:
                gs = guards(cr, node)
                if any(pol and _eq_member(g, member) for g, pol in gs):
                    val = node.value
                    if want == "inf":
                        ok = isinstance(val, ast.Name) and val.id == "inf"
                    else:
                        ok = isinstance(val, ast.Constant) and val.value == 0
        construct = f"{modname}:ReconciliationOutput._cost_rec/{member}"
        if ok:
            res.ok(construct, f"{member} -> {want}")
        else:
            res.fail(construct, f"the case {member} does not return {want}", mod, cr)
    return res


def _eq_member(test: ast.AST, member: str) -> bool:
    """the test holds (at least) whenever the event is `member`: `e == M`, `e is M`, `e in (.., M, ..)`, or a
    disjunction with such a part"""
    if isinstance(test, ast.BoolOp) and isinstance(test.op, ast.Or):
        return any(_eq_member(v, member) for v in test.values)
    if isinstance(test, ast.Compare) and len(test.ops) == 1 and isinstance(test.ops[0], (ast.Eq, ast.Is)):
        return any(dotted(s) == f"NodeEvent.{member}" for s in (test.left, test.comparators[0]))
    if isinstance(test, ast.Compare) and len(test.ops) == 1 and isinstance(test.ops[0], ast.In) and isinstance(test.comparators[0], (ast.Tuple, ast.List, ast.Set)):
        return any(dotted(e) == f"NodeEvent.{member}" for e in test.comparators[0].elts)
    return False



def lca_propagate(prog: Program) -> RuleResult:
    res = RuleResult(
        "LCA-PROPAGATE",
        "reconcile_lca maps a leaf to its given species and every internal node to the LCA oracle of the images "
        "of all of its children (computed bottom-up), and returns that mapping for its own input",
    )
    modname = "compute.reconciliation"
    mod = prog.module(modname)
    fn = prog.func(modname, "reconcile_lca")
    inp = func_params(fn)[0]
    loops = [n for n in fn.body if isinstance(n, ast.For)]
    if len(loops) != 1 or not isinstance(loops[0].target, ast.Name):
        raise AnalysisError("reconcile_lca: traversal loop not recognised")
    loop = loops[0]
    node = loop.target.id
    stores = [
        n
        for n in walk_no_nested(loop)
        if isinstance(n, ast.Assign)
        and isinstance(n.targets[0], ast.Subscript)
        and dotted(n.targets[0].slice) == node
        and isinstance(n.targets[0].value, ast.Name)
    ]
    if not stores:
        raise AnalysisError("reconcile_lca: no assignment rec[node] = ... found")
    rec = stores[0].targets[0].value.id  # type: ignore[union-attr]
    kids = _children_derived(_LoopShim(fn, loop), node)
    for st in stores:
        gs = guards(fn, st)
        leaf = [pol for g, pol in gs if isinstance(g, ast.Call) and isinstance(g.func, ast.Attribute) and g.func.attr == "is_leaf" and dotted(g.func.value) == node]
        value = st.value
        if isinstance(value, ast.Name):
            v = reaching(fn, value.id, st)
            if v is not None and not isinstance(v, Opaque):
                value = v
        if leaf and leaf[0]:
            construct = f"{modname}:reconcile_lca/leaf"
            ok = (
                isinstance(value, ast.Subscript)
                and isinstance(value.value, ast.Attribute)
                and value.value.attr == "leaf_object_species"
                and dotted(value.value.value) == inp
                and dotted(value.slice) == node
            )
            if ok:
                res.ok(construct, short(st))
            else:
                res.fail(construct, f"a leaf is mapped to `{short(st.value)}`, not to {inp}.leaf_object_species[{node}]", mod, st)
        else:
            construct = f"{modname}:reconcile_lca/internal"
            problems = []
            if not (isinstance(value, ast.Call) and dotted(value.func) == f"{inp}.species_lca"):
                problems.append(f"the image is `{short(value)}`, not a call of {inp}.species_lca")
            else:
                covered = set()
                all_children = False
                for arg in value.args:
                    inner = arg.value if isinstance(arg, ast.Starred) else arg
                    if isinstance(inner, ast.Subscript) and dotted(inner.value) == rec and dotted(inner.slice) in kids:
                        covered.add(dotted(inner.slice))
                    elif isinstance(inner, (ast.GeneratorExp, ast.ListComp)) and isinstance(arg, ast.Starred):
                        gen = inner.generators[0]
                        if (
                            isinstance(gen.iter, ast.Attribute)
                            and gen.iter.attr == "children"
                            and dotted(gen.iter.value) == node
                            and not gen.ifs
                            and isinstance(inner.elt, ast.Subscript)
                            and dotted(inner.elt.value) == rec
                            and dotted(inner.elt.slice) == dotted(gen.target)
                        ):
                            all_children = True
                    else:
                        problems.append(f"argument `{short(arg)}` is not the image of a child")
                unpacked = [
                    n
                    for n in walk_no_nested(loop)
                    if isinstance(n, ast.Assign) and isinstance(n.value, ast.Attribute) and n.value.attr == "children" and isinstance(n.targets[0], ast.Tuple)
                ]
                expected = {e.id for u in unpacked for e in u.targets[0].elts if isinstance(e, ast.Name)}
                if not all_children and (not expected or covered != expected):
                    problems.append(
                        f"the LCA is taken over the images of {sorted(covered)} but the node's children are {sorted(expected)}"
                    )
            if problems:
                res.fail(construct, "; ".join(problems), mod, st)
            else:
                res.ok(construct, short(st))
    rets = [n for n in walk_no_nested(fn) if isinstance(n, ast.Return)]
    okr = (
        len(rets) == 1
        and isinstance(rets[0].value, ast.Call)
        and dotted(rets[0].value.func) == "ReconciliationOutput"
        and [dotted(a) for a in rets[0].value.args] == [inp, rec]
        and not loops_around(fn, rets[0])
    )
    if okr:
        res.ok(f"{modname}:reconcile_lca/return", short(rets[0]))
    else:
        res.fail(f"{modname}:reconcile_lca/return", "does not return ReconciliationOutput(input, mapping) after the traversal", mod, fn)
    res.floor(3)
    return res


RULES = {
    "LCA-PROPAGATE": lca_propagate,
    "DECODE-GUARD": decode_guard,
    "DECODE-COMPLETE": decode_complete,
    "DECODE-PRODUCT": decode_product,
    "READONLY-DECODE": readonly_decode,
    "LEAF-ANCHOR": leaf_anchor,
    "POLICY-FLOW": policy_flow,
    "RESULT-SCOPE": result_scope,
    "TRAVERSAL": traversal,
    "EVENT-EXHAUSTIVE": event_exhaustive,
    "RESULT-UNCONDITIONAL": result_unconditional,
    "DECODE-CONTENT-FLOW": decode_content_flow,
}
