"""Ancestry queries (C17): derived predicates as decision tables, index discipline of the Euler tour and of the
sparse table (symbolic window algebra)."""
from __future__ import annotations

import ast
from fractions import Fraction
from typing import Dict, List, Optional, Tuple

from ..core import AnalysisError, FuncNode, Program, RuleResult, dotted, func_params, kwarg, short, walk_no_nested
from ..flow import conditions, guards, loops_around, reaching, Opaque
from ..relmodel import FnEval, RelEval, TreeModel, Undefined, number, run_block
from ..resolve import method_def
from ..sym import Normaliser, Poly

TREES = "utils.trees"
RMQ = "utils.range_min_query"


def derived_queries(prog: Program) -> RuleResult:
    res = RuleResult(
        "DERIVED-QUERIES",
        "given an exact LCA query and exact levels, the derived queries of LowestCommonAncestor agree with their "
        "definitions on parent chains: is_ancestor_of(a, b) <=> a is b or an ancestor of b; is_strict_ancestor_of "
        "adds a != b; is_comparable <=> one is an ancestor of the other; distance(a, b) = number of edges between "
        "them. Each body is evaluated over every pair of nodes of a complete binary tree of depth 3 with "
        "`self(a, b)` read as the LCA and `self.level(x)` as the depth.",
    )
    mod = prog.module(TREES)
    cls = prog.cls(TREES, "LowestCommonAncestor")
    model = TreeModel(3)
    specs = {
        "is_ancestor_of": lambda a, b: model.anc(a, b),
        "is_strict_ancestor_of": lambda a, b: model.strict_anc(a, b),
        "is_comparable": lambda a, b: model.comparable(a, b),
        "distance": lambda a, b: model.distance(a, b),
    }
    methods = {m.name: m for m in cls.body if isinstance(m, FuncNode)}
    for name, spec in specs.items():
        fn = methods.get(name)
        construct = f"{TREES}:LowestCommonAncestor.{name}"
        if fn is None:
            raise AnalysisError(f"{construct} not found")
        params = [p for p in func_params(fn) if p != "self"]
        if len(params) != 2:
            raise AnalysisError(f"{construct}: expected two node parameters")
        foreign = [c for c in ast.walk(fn) if isinstance(c, ast.Call) and isinstance(c.func, ast.Attribute) and c.func.attr == "get_distance"]
        if foreign:
            res.fail(
                construct,
                f"`{short(foreign[0])}` delegates to ete3's get_distance, which sums branch LENGTHS (fact table): it equals "
                "the number of edges only on trees whose branches all have length 1, so full losses are counted wrongly "
                "as soon as the species Newick carries lengths",
                mod,
                foreign[0],
            )
            continue
        # a query answers from the index alone: the indexed tree may be a clade of a larger tree, where the
        # surroundings of a node (`.up` of the indexed root, `get_tree_root()`) lie outside what was indexed
        outside = [
            n for n in ast.walk(fn)
            if isinstance(n, ast.Attribute) and isinstance(n.value, ast.Name) and n.value.id in params
            and n.attr in ("up", "get_ancestors", "iter_ancestors", "get_tree_root", "is_root", "get_common_ancestor")
        ]
        if outside:
            res.fail(
                construct,
                f"`{short(outside[0])}` is read from the node itself, not from the index: when the indexed tree is a clade of a "
                "larger tree, the parent of its root is a node the index does not know (and `is None` does not recognise that root)",
                mod,
                outside[0],
            )
            continue
        bad = None
        count = 0
        for a in model.nodes:
            for b in model.nodes:
                env = {params[0]: a, params[1]: b}
                got = _eval_method(methods, fn, env, model, depth=0)
                want = spec(a, b)
                count += 1
                if got != want and bad is None:
                    bad = (a, b, got, want)
        if bad is None:
            res.ok(construct, f"agrees with its definition on {count} ordered pairs")
        else:
            a, b, got, want = bad
            res.fail(
                construct,
                f"`{name}` returns {got} where its definition gives {want} for "
                f"{model.describe((params[0], params[1]), (a, b))} (levels {model.level(a)} and {model.level(b)})",
                mod,
                fn,
            )
    return res


def _eval_method(methods: Dict[str, ast.AST], fn: ast.AST, env: Dict[str, int], model: TreeModel, depth: int):
    """Value (bool or int) returned by a derived query with its parameters bound to model nodes."""
    if depth > 4:
        raise AnalysisError("derived queries: recursion too deep")

    def bind(node: ast.AST) -> Optional[int]:
        if isinstance(node, ast.Name) and node.id in env:
            return env[node.id]
        return None

    ev = FnEval(model, fn, ("self",), bind)

    def sub_call(node: ast.AST):
        """self.<other query>(x, y) -> value"""
        if (
            isinstance(node, ast.Call)
            and isinstance(node.func, ast.Attribute)
            and isinstance(node.func.value, ast.Name)
            and node.func.value.id == "self"
            and node.func.attr in methods
            and node.func.attr not in ("level", "__call__")
        ):
            callee = methods[node.func.attr]
            cparams = [p for p in func_params(callee) if p != "self"]
            if len(cparams) != len(node.args):
                raise AnalysisError(f"derived queries: call `{short(node)}` does not match the callee's parameters")
            cenv = {p: ev.term(a) for p, a in zip(cparams, node.args)}
            return _eval_method(methods, callee, cenv, model, depth + 1)
        return None

    def pred(node: ast.AST) -> Optional[bool]:
        val = sub_call(node)
        if isinstance(val, bool):
            return val
        return None

    ev.pred = pred

    def level_fn(node: ast.AST) -> Optional[int]:
        if (
            isinstance(node, ast.Call)
            and isinstance(node.func, ast.Attribute)
            and node.func.attr == "level"
            and isinstance(node.func.value, ast.Name)
            and node.func.value.id == "self"
            and len(node.args) == 1
        ):
            return model.level(ev.term(node.args[0]))
        val = sub_call(node)
        if isinstance(val, int) and not isinstance(val, bool):
            return val
        return None

    got = run_block(fn.body, ev)  # type: ignore[attr-defined]
    if got is None or got[0] != "return" or got[1] is None:
        raise AnalysisError(f"{fn.name}: does not end in `return <expr>`")  # type: ignore[attr-defined]
    expr = got[1]
    try:
        return ev.truth(expr)
    except AnalysisError:
        return number(ev, expr, level_fn)


# ---------------------------------------------------------------------------


def euler_index(prog: Program) -> RuleResult:
    res = RuleResult(
        "EULER-INDEX",
        "the LCA query reads the Euler tour consistently: a node is indexed by its FIRST occurrence, the range "
        "queried is [min index, max index + 1) (the half-open convention of RangeMinQuery.__call__), the tour "
        "re-visits a node after each of its children (so the minimum level between two nodes is their LCA), "
        "children are one level deeper, `level` reads component 0 and the query returns component 1 of the "
        "(level, node) pairs",
    )
    mod = prog.module(TREES)
    cls = prog.cls(TREES, "LowestCommonAncestor")
    init = method_def(cls, "__init__")
    call = method_def(cls, "__call__")
    level = method_def(cls, "level")
    tour = prog.func(TREES, "_euler_tour")
    if init is None or call is None or level is None:
        raise AnalysisError("LowestCommonAncestor.__init__/__call__/level not found")
    # (1) first occurrence
    construct = f"{TREES}:LowestCommonAncestor.__init__/first-occurrence"
    stores = [
        st for st in walk_no_nested(init)
        if isinstance(st, ast.Assign) and isinstance(st.targets[0], ast.Subscript) and dotted(st.targets[0].value) == "self.traversal_index"
    ]
    if len(stores) != 1:
        raise AnalysisError("__init__: store into self.traversal_index not found")
    st = stores[0]
    key = st.targets[0].slice
    gs = guards(init, st)
    first = any(
        isinstance(t, ast.Compare) and len(t.ops) == 1 and isinstance(t.ops[0], ast.NotIn if pol else ast.In)
        and ast.dump(t.left) == ast.dump(key) and dotted(t.comparators[0]) == "self.traversal_index"
        for t, pol in gs
    )
    loop = next((l for l in loops_around(init, st) if isinstance(l, ast.For)), None)
    fwd = loop is not None and isinstance(loop.iter, ast.Call) and dotted(loop.iter.func) == "enumerate" and dotted(loop.iter.args[0]) == "self.traversal"
    if first and fwd:
        res.ok(construct, "index stored only when the node is not indexed yet, scanning the tour forwards")
    elif not first:
        res.fail(construct, f"`{short(st)}` is not guarded by `node not in self.traversal_index`: a node is indexed by its last occurrence, and the range between two nodes no longer contains their LCA", mod, st)
    else:
        res.fail(construct, "the tour is not scanned forwards with enumerate(self.traversal)", mod, st)
    # (1b) the tour is the tour of the tree given to the constructor
    construct = f"{TREES}:LowestCommonAncestor.__init__/tour-source"
    tparam = [p for p in func_params(init) if p != "self"][0]
    tours = [c for c in walk_no_nested(init) if isinstance(c, ast.Call) and dotted(c.func) == "_euler_tour"]
    rebound = any(isinstance(x, ast.Name) and x.id == tparam and not isinstance(x.ctx, ast.Load) for x in ast.walk(init))
    if len(tours) == 1 and tours[0].args and dotted(tours[0].args[0]) == tparam and not rebound:
        res.ok(construct, f"_euler_tour({tparam}) of the constructor's own tree")
    else:
        shown = short(tours[0]) if tours else "no tour"
        res.fail(construct, f"the tour is `{shown}`, not the tour of the whole tree `{tparam}` given to the constructor: nodes outside it have no index and every level is shifted", mod, tours[0] if tours else init)
    # (1c) the range-minimum structure indexes the WHOLE tour: the positions stored in traversal_index are
    # positions of self.traversal, and a one-node tree has a tour of one entry
    construct = f"{TREES}:LowestCommonAncestor.__init__/rmq-over-tour"
    rmqs = [c for c in walk_no_nested(init) if isinstance(c, ast.Call) and dotted(c.func) == "RangeMinQuery"]
    if len(rmqs) != 1 or not rmqs[0].args:
        raise AnalysisError("__init__: construction of the RangeMinQuery not found")
    arg = rmqs[0].args[0]
    src = arg
    if isinstance(arg, ast.Name):
        got = reaching(init, arg.id, rmqs[0])
        src = got if got is not None and not isinstance(got, Opaque) else arg
    while isinstance(src, ast.Call) and dotted(src.func) in ("list", "tuple") and len(src.args) == 1:
        src = src.args[0]
    tour_names = {"self.traversal"} | {dotted(t) for st in walk_no_nested(init) if isinstance(st, ast.Assign) and isinstance(st.value, ast.Call) and dotted(st.value.func) == "_euler_tour" for t in st.targets}
    if dotted(src) in tour_names:
        res.ok(construct, f"RangeMinQuery({short(arg)}) over the whole tour")
    else:
        res.fail(construct, f"the range-minimum structure is built over `{short(src, 60)}`, not over the tour itself: positions of the tour and positions of the table no longer coincide for every tree (a one-node tree has a tour of one entry)", mod, rmqs[0])
    # (2) range = [min, max + 1)
    construct = f"{TREES}:LowestCommonAncestor.__call__/range"
    q = [c for c in walk_no_nested(call) if isinstance(c, ast.Call) and dotted(c.func) == "self.range_min_query"]
    if len(q) != 1 or len(q[0].args) != 2:
        raise AnalysisError("__call__: query of self.range_min_query(start, stop) not found")
    lo, hi = q[0].args
    norm = Normaliser()
    lo_name, hi_poly = dotted(lo), norm.poly(hi)
    hi_atoms = hi_poly.atom_keys()
    problems = []
    if lo_name is None or len(hi_atoms) != 1 or hi_poly != Poly.atom(hi_atoms[0]) + Poly.const(1):
        problems.append(f"the query is `{short(q[0])}`, expected (<min index>, <max index> + 1)")
    else:
        hi_name = hi_atoms[0]
        for nm, fn_name in ((lo_name, "min"), (hi_name, "max")):
            upd = [
                s2 for s2 in walk_no_nested(call)
                if isinstance(s2, ast.Assign) and any(dotted(t) == nm for t in s2.targets) and isinstance(s2.value, ast.Call) and dotted(s2.value.func) in ("min", "max")
            ]
            if not upd or any(dotted(u.value.func) != fn_name for u in upd):
                problems.append(f"`{nm}` is not maintained with {fn_name}(...) over the indices of the nodes")
    if problems:
        res.fail(construct, "; ".join(problems), mod, q[0])
    else:
        res.ok(construct, short(q[0]))
    # (3) components
    construct = f"{TREES}:LowestCommonAncestor/components"
    rets = [r for r in walk_no_nested(call) if isinstance(r, ast.Return) and r.value is not None]
    lrets = [r for r in walk_no_nested(level) if isinstance(r, ast.Return) and r.value is not None]
    ok_node = len(rets) == 1 and isinstance(rets[0].value, ast.Subscript) and isinstance(rets[0].value.slice, ast.Constant) and rets[0].value.slice.value == 1
    ok_level = len(lrets) == 1 and isinstance(lrets[0].value, ast.Subscript) and isinstance(lrets[0].value.slice, ast.Constant) and lrets[0].value.slice.value == 0
    pairs = [t for st2 in tour.body for t in ast.walk(st2) if isinstance(t, ast.Tuple) and len(t.elts) == 2 and isinstance(t.ctx, ast.Load)]
    tour_params = func_params(tour)
    lvl_param = tour_params[1] if len(tour_params) > 1 else "level"
    ok_pairs = pairs and all(dotted(t.elts[0]) == lvl_param for t in pairs)
    if ok_node and ok_level and ok_pairs:
        res.ok(construct, "tour entries are (level, node); level() reads [0], the query returns [1]")
    else:
        res.fail(construct, "the (level, node) components are not read consistently (level() must read [0] of the tour entry, the query must return [1], the tour must store (level, node))", mod, call)
    # (4) tour shape
    construct = f"{TREES}:_euler_tour/revisit"
    loops = [l for l in walk_no_nested(tour) if isinstance(l, ast.For) and isinstance(l.iter, ast.Attribute) and l.iter.attr == "children"]
    if len(loops) != 1:
        raise AnalysisError("_euler_tour: loop over the children not found")
    body = loops[0].body
    rec = [c for s2 in body for c in ast.walk(s2) if isinstance(c, ast.Call) and dotted(c.func) == "_euler_tour"]
    revisit = [
        s2 for s2 in body
        if isinstance(s2, ast.Expr) and isinstance(s2.value, ast.Call) and isinstance(s2.value.func, ast.Attribute) and s2.value.func.attr == "append"
    ]
    problems = []
    if len(rec) != 1:
        problems.append("no single recursive call per child")
    else:
        lvl = kwarg(rec[0], lvl_param, 1)
        if lvl is None or norm.poly(lvl) != Poly.atom(lvl_param) + Poly.const(1):
            problems.append(f"children are toured at level `{short(lvl)}`, not level + 1")
    if len(revisit) != 1 or body.index(revisit[0]) < max((body.index(s2) for s2 in body if any(c in list(ast.walk(s2)) for c in rec)), default=0):
        problems.append("the node is not appended again after each child's tour")
    if problems:
        res.fail(construct, "; ".join(problems), mod, loops[0])
    else:
        res.ok(construct, "each child toured at level + 1, node re-visited after each child")
    return res


# ---------------------------------------------------------------------------
# sparse table: window algebra


class _Pow2Norm(Normaliser):
    """2**e and 2**(e + c) are normalised to 2^c * pow2[e]."""

    def poly(self, node: ast.AST) -> Poly:
        if isinstance(node, ast.BinOp) and isinstance(node.op, ast.Pow) and isinstance(node.left, ast.Constant) and node.left.value == 2:
            e = super().poly(node.right)
            c = e.const_value()
            rest = e - Poly.const(c)
            if c.denominator == 1:
                key = f"pow2[{rest}]" if rest.terms else None
                base = Poly.atom(key) if key else Poly.const(1)
                factor = Fraction(2) ** int(c)
                return base.scale(factor)
        if isinstance(node, ast.BinOp) and isinstance(node.op, ast.LShift) and isinstance(node.left, ast.Constant) and node.left.value == 1:
            return self.poly(ast.BinOp(left=ast.Constant(value=2), op=ast.Pow(), right=node.right))
        return super().poly(node)


def rmq_windows(prog: Program) -> RuleResult:
    res = RuleResult(
        "RMQ-WINDOWS",
        "index algebra of the sparse table (2**e normalised symbolically): level d of the table is built from two "
        "adjacent windows of level d-1 (second starts 2**(d-1) after the first), for every start i with "
        "i + 2**d <= length; a query [start, stop) uses depth = ilog2(stop - start), a window starting at `start` "
        "and a window ENDING at `stop` (its start + 2**depth == stop), and answers None exactly when start >= stop",
    )
    mod = prog.module(RMQ)
    cls = prog.cls(RMQ, "RangeMinQuery")
    init = method_def(cls, "__init__")
    call = method_def(cls, "__call__")
    if init is None or call is None:
        raise AnalysisError("RangeMinQuery.__init__/__call__ not found")
    norm = _Pow2Norm()
    # ---- build
    dloops = [l for l in walk_no_nested(init) if isinstance(l, ast.For) and isinstance(l.iter, ast.Call) and dotted(l.iter.func) == "range"]
    outer = next((l for l in dloops if any(isinstance(s, ast.For) for s in l.body)), None)
    inner = next((s for s in (outer.body if outer else []) if isinstance(s, ast.For)), None)
    if outer is None or inner is None:
        raise AnalysisError("RangeMinQuery.__init__: nested build loops not found")
    d = dotted(outer.target)
    i = dotted(inner.target)
    construct = f"{RMQ}:RangeMinQuery.__init__/levels"
    oargs = outer.iter.args
    if len(oargs) == 2 and norm.poly(oargs[0]) == Poly.const(1):
        res.ok(construct, f"levels {short(oargs[0])} .. {short(oargs[1])} - 1 built from the level below")
    else:
        res.fail(construct, f"the build loop is `range({', '.join(short(a) for a in oargs)})`: level 0 is the data itself, levels must start at 1", mod, outer)
    construct = f"{RMQ}:RangeMinQuery.__init__/starts"
    iargs = inner.iter.args
    stop = norm.poly(iargs[-1]) if iargs else None
    length_names = [n.id for n in ast.walk(iargs[-1]) if isinstance(n, ast.Name) and n.id != d] if iargs else []
    want = None
    if length_names:
        want = Poly.atom(length_names[0]) - Poly.atom(f"pow2[{d}]") + Poly.const(1)
    if stop is not None and want is not None and stop == want and (len(iargs) == 1 or norm.poly(iargs[0]) == Poly.const(0)):
        res.ok(construct, f"i ranges over 0 .. {short(iargs[-1])} - 1, i.e. every window [i, i + 2**{d}) inside the data")
    else:
        res.fail(construct, f"window starts range over `range({', '.join(short(a) for a in iargs)})`, expected range(length - 2**{d} + 1): "
                 "a missing last window leaves a None in the table, an extra one reads past the end", mod, inner)
    # the two halves
    reads = []
    for node in ast.walk(inner):
        if isinstance(node, ast.Subscript) and isinstance(node.value, ast.Subscript) and dotted(node.value.value) == "self.sparse_table" and isinstance(node.ctx, ast.Load):
            reads.append((norm.poly(node.value.slice), norm.poly(node.slice), node))
    construct = f"{RMQ}:RangeMinQuery.__init__/halves"
    dm1 = Poly.atom(d) - Poly.const(1)
    starts = sorted((str(p - Poly.atom(i)) for lvl, p, _n in reads if lvl == dm1))
    half = str(Poly.atom(f"pow2[{d}]").scale(Fraction(1, 2)))
    if len(reads) == 2 and all(lvl == dm1 for lvl, _p, _n in reads) and starts == sorted(["0", half]):
        res.ok(construct, f"T[{d}][{i}] = min(T[{d}-1][{i}], T[{d}-1][{i} + 2**({d}-1)]): two adjacent windows of half the size")
    else:
        shown = [f"T[{lvl}][{p}]" for lvl, p, _n in reads]
        res.fail(construct, f"level {d} is built from {shown}; expected the two adjacent half windows T[{d}-1][{i}] and T[{d}-1][{i} + 2**({d}-1)]", mod, inner)
    # ---- query
    construct = f"{RMQ}:RangeMinQuery.__call__/empty"
    params = [p for p in func_params(call) if p != "self"]
    a, b = params[0], params[1]
    none_rets = [r for r in walk_no_nested(call) if isinstance(r, ast.Return) and (r.value is None or (isinstance(r.value, ast.Constant) and r.value.value is None))]
    ok_empty = False
    for r in none_rets:
        for t, pol in guards(call, r):
            if isinstance(t, ast.Compare) and len(t.ops) == 1 and pol:
                l, op, rr = dotted(t.left), t.ops[0], dotted(t.comparators[0])
                if (l, rr) == (a, b) and isinstance(op, ast.GtE) or (l, rr) == (b, a) and isinstance(op, ast.LtE):
                    ok_empty = True
    if ok_empty:
        res.ok(construct, f"None exactly when {a} >= {b}")
    else:
        res.fail(construct, f"the empty-range answer is not guarded by `{a} >= {b}` (a one-element range is not empty, an empty one must not index the table)", mod, call)
    # no other refusal: every `return None` / `raise` of the query is the answer to an empty range
    construct = f"{RMQ}:RangeMinQuery.__call__/only-empty-refused"

    def is_empty_test(t: ast.AST, pol: bool) -> bool:
        if isinstance(t, ast.Compare) and len(t.ops) == 1 and pol:
            l, op, rr = dotted(t.left), t.ops[0], dotted(t.comparators[0])
            return ((l, rr) == (a, b) and isinstance(op, ast.GtE)) or ((l, rr) == (b, a) and isinstance(op, ast.LtE))
        if isinstance(t, ast.Compare) and len(t.ops) == 1 and not pol:
            l, op, rr = dotted(t.left), t.ops[0], dotted(t.comparators[0])
            return ((l, rr) == (a, b) and isinstance(op, ast.Lt)) or ((l, rr) == (b, a) and isinstance(op, ast.Gt))
        return False

    refusals = [x for x in walk_no_nested(call) if isinstance(x, ast.Raise)] + none_rets
    length_names = {
        t.id for st in walk_no_nested(call) if isinstance(st, ast.Assign) and isinstance(st.value, ast.Call) and dotted(st.value.func) == "len"
        for t in st.targets if isinstance(t, ast.Name)
    }

    def truth(t: ast.AST, env) -> bool:
        from ..arith import evaluate as aeval

        if isinstance(t, ast.BoolOp):
            vals = [truth(v, env) for v in t.values]
            return all(vals) if isinstance(t.op, ast.And) else any(vals)
        if isinstance(t, ast.UnaryOp) and isinstance(t.op, ast.Not):
            return not truth(t.operand, env)
        if isinstance(t, ast.Compare):
            vals = [aeval(t.left, env)] + [aeval(c, env) for c in t.comparators]
            ops = {ast.Lt: lambda x, y: x < y, ast.LtE: lambda x, y: x <= y, ast.Gt: lambda x, y: x > y, ast.GtE: lambda x, y: x >= y, ast.Eq: lambda x, y: x == y, ast.NotEq: lambda x, y: x != y}
            for (x, y), op in zip(zip(vals, vals[1:]), t.ops):
                if type(op) not in ops:
                    raise AnalysisError(f"RangeMinQuery.__call__: test `{short(t)}` not understood")
                if not ops[type(op)](x, y):
                    return False
            return True
        raise AnalysisError(f"RangeMinQuery.__call__: test `{short(t)}` not understood")

    from ..arith import Unsupported as _Unsupported

    class _LenOfData(ast.NodeTransformer):
        """`len(<anything of self>)` inside a test is the length of the data"""

        def visit_Call(self, node: ast.Call):
            if dotted(node.func) == "len" and len(node.args) == 1 and (dotted(node.args[0]) or ast.unparse(node.args[0])).startswith("self."):
                return ast.Name(id="__length__", ctx=ast.Load())
            return self.generic_visit(node)

    import copy as _copy

    length_names = set(length_names) | {"__length__"}
    stray = None
    for x in refusals:
        gs = [(_LenOfData().visit(_copy.deepcopy(t)), pol) for t, pol in conditions(call, x)]
        for length in range(1, 7):
            for lo in range(0, length + 1):
                for hi in range(0, length + 1):
                    env = {a: lo, b: hi}
                    env.update({n: length for n in length_names})
                    try:
                        fires = all(truth(t, env) == pol for t, pol in gs)
                    except _Unsupported as err:
                        raise AnalysisError(f"RangeMinQuery.__call__: the condition of `{short(x, 50)}` is not understood ({err})")
                    if not fires:
                        continue
                    if lo < hi or (isinstance(x, ast.Raise)):
                        stray = stray or (x, gs, lo, hi, length)
    if stray:
        x, gs, lo, hi, length = stray
        cond = " and ".join(("" if pol else "not ") + short(t, 50) for t, pol in gs) or "always"
        what = "raises" if isinstance(x, ast.Raise) else "answers None"
        res.fail(construct, f"the query [{lo}, {hi}) on data of length {length} {what} (`{short(x, 50)}` when {cond}): every half-open range with 0 <= {a}, {b} <= length is legitimate - {b} == length is the end of the data, {a} == length bounds an empty range, and the LCA of a one-node tree asks for [0, 1)", mod, x)
    else:
        res.ok(construct, f"{len(refusals)} refusal(s); over all ranges within data of length 1..6 only empty ranges are answered None and none raises")
    construct = f"{RMQ}:RangeMinQuery.__call__/bounds-as-given"
    rebinds = [
        st for st in walk_no_nested(call)
        if isinstance(st, (ast.Assign, ast.AugAssign)) and any(dotted(t) in (a, b) for t in (st.targets if isinstance(st, ast.Assign) else [st.target]))
    ]
    if rebinds:
        res.fail(construct, f"`{short(rebinds[0])}` changes a bound of the requested range before it is used: the minimum returned is not that of [{a}, {b}) as asked (a stop equal to the length is a legitimate bound)", mod, rebinds[0])
    else:
        res.ok(construct, f"{a} and {b} are used as given")
    construct = f"{RMQ}:RangeMinQuery.__call__/windows"
    depth_name = None
    for st in walk_no_nested(call):
        if isinstance(st, ast.Assign) and isinstance(st.value, ast.Call) and (dotted(st.value.func) or "").endswith("ilog2"):
            depth_name = dotted(st.targets[0])
            if norm.poly(st.value.args[0]) != Poly.atom(b) - Poly.atom(a):
                res.fail(construct, f"depth is ilog2 of `{short(st.value.args[0])}`, not of the length {b} - {a}", mod, st)
                return res
    if depth_name is None:
        raise AnalysisError("RangeMinQuery.__call__: depth = _ilog2(stop - start) not found")
    qreads = []
    for node in walk_no_nested(call):
        if isinstance(node, ast.Subscript) and isinstance(node.value, ast.Subscript) and dotted(node.value.value) == "self.sparse_table":
            qreads.append((norm.poly(node.value.slice), norm.poly(node.slice), node))
    p2 = Poly.atom(f"pow2[{depth_name}]")
    wants = sorted([str(Poly.atom(a)), str(Poly.atom(b) - p2)])
    got = sorted(str(p) for _l, p, _n in qreads)
    if len(qreads) == 2 and all(l == Poly.atom(depth_name) for l, _p, _n in qreads) and got == wants:
        res.ok(construct, f"windows [{a}, {a} + 2**{depth_name}) and [{b} - 2**{depth_name}, {b}) cover exactly [{a}, {b})")
    else:
        res.fail(construct, f"the query reads windows starting at {got} of level(s) {[str(l) for l, _p, _n in qreads]}; expected starts {wants} at level {depth_name}: "
                 "the second window must end exactly at the requested stop", mod, call)
    # ---- number of levels: decision table over lengths 1..64 (the analyser's own arithmetic, see arith.py)
    from ..arith import EvalError, Unsupported, evaluate

    construct = f"{RMQ}:RangeMinQuery.__init__/level-count"
    depth_call = next(
        (st.value for st in walk_no_nested(call) if isinstance(st, ast.Assign) and dotted(st.targets[0]) == depth_name),
        None,
    )
    upper = oargs[-1] if oargs else None
    lv_expr = upper
    hops = 0
    while isinstance(lv_expr, ast.Name) and hops < 4:
        hops += 1
        defs = [st for st in walk_no_nested(init) if isinstance(st, ast.Assign) and any(dotted(t) == lv_expr.id for t in st.targets)]
        if len(defs) != 1:
            break
        if isinstance(defs[0].value, ast.Call) and dotted(defs[0].value.func) == "len":
            break
        lv_expr = defs[0].value
    len_names = [dotted(t) for st in walk_no_nested(init) if isinstance(st, ast.Assign) and isinstance(st.value, ast.Call) and dotted(st.value.func) == "len" for t in st.targets]
    funcs = {q: f for q, f in prog.defs(RMQ).items() if isinstance(f, ast.FunctionDef) and "." not in q}
    if depth_call is None or lv_expr is None or not len_names:
        raise AnalysisError("RangeMinQuery: level count / depth expression not found")
    witness = None
    try:
        for n_ in range(1, 65):
            env = {nm: n_ for nm in len_names}
            try:
                have = evaluate(lv_expr, env, funcs)
            except EvalError as err:
                witness = (n_, f"the level count `{short(lv_expr)}` fails ({err})")
                break
            import copy as _copy

            dc = _copy.deepcopy(depth_call)
            dc.args = [ast.Constant(value=n_)]
            need = evaluate(dc, {}, funcs) + 1
            if have < need or have < 1:
                witness = (n_, f"the table has {have} level(s) but a query over the whole data uses level {need - 1}")
                break
    except Unsupported as err:
        raise AnalysisError(f"{construct}: level arithmetic not understood ({err})")
    if witness:
        res.fail(construct, f"for {witness[0]} element(s) {witness[1]}: `levels = {short(lv_expr)}` does not cover `depth = {short(depth_call)}`", mod, init)
    else:
        res.ok(construct, f"for every length 1..64: {short(lv_expr)} >= {short(depth_call)} + 1 with the range as long as the data")
    return res


RULES = {
    "DERIVED-QUERIES": derived_queries,
    "EULER-INDEX": euler_index,
    "RMQ-WINDOWS": rmq_windows,
}
