"""Optimiser / evaluator agreement rules (C01, C02, C03, C06, C09, C10)."""
from __future__ import annotations

import ast
from fractions import Fraction
from typing import Dict, List, Optional, Sequence, Set, Tuple

from .. import costmodel as cm
from ..core import (
    AnalysisError,
    FuncNode,
    Module,
    Program,
    RuleResult,
    calls_in,
    dotted,
    func_params,
    kwarg,
    short,
    walk_no_nested,
)
from ..flow import Opaque, guards, inline, loops_around, reaching
from ..resolve import CallGraph, call_graph, method_def, resolve_callee
from ..sym import Normaliser, Poly

SOLVERS = {
    "plain": "compute.reconciliation:reconcile_thl",
    "ordered": "compute.super_reconciliation:_spfs",
    "unordered": "compute.unordered_super_reconciliation:_uspfs",
}


def _evaluator_funcs(graph: CallGraph) -> Set[str]:
    return {k for k in graph.nodes if k.startswith("model.reconciliation:")}


def costkeys(prog: Program) -> RuleResult:
    res = RuleResult(
        "COSTKEYS",
        "every unit cost the evaluator charges is read by the optimiser (an optimiser that never looks at "
        "c[K] minimises a different objective as soon as c[K] != 0)",
    )
    graph = call_graph(prog)
    out_cls = prog.cls(cm.MODEL, "ReconciliationOutput")
    cost_rec = method_def(out_cls, "_cost_rec")
    if cost_rec is None:
        raise AnalysisError("_cost_rec not found")
    base_keys = cm.cost_keys_in(cost_rec)
    sup = prog.cls(cm.MODEL, "SuperReconciliationOutput")
    lab_keys: Set[str] = set()
    for name in ("_ordered_labeling_cost", "_unordered_labeling_cost"):
        fn = method_def(sup, name)
        if fn is None:
            raise AnalysisError(f"{name} not found")
        lab_keys |= cm.cost_keys_in(fn)
    if len(base_keys) < 4 or not lab_keys:
        raise AnalysisError(f"evaluator cost keys not recognised: {sorted(base_keys)} / {sorted(lab_keys)}")
    excluded = _evaluator_funcs(graph)
    for model, entry in SOLVERS.items():
        reach = graph.reachable(entry, exclude=excluded)
        read: Set[str] = set()
        for key in reach:
            _mod, node = graph.nodes[key]
            read |= cm.cost_keys_in(node)
        want = set(base_keys) | (lab_keys if model != "plain" else set())
        construct = f"{entry}/cost-keys"
        missing = sorted(want - read)
        if missing:
            res.fail(
                construct,
                f"the optimiser reachable from {entry} never reads the unit cost(s) {missing} that the evaluator "
                f"charges (reads only {sorted(read)})",
                graph.nodes[entry][0],
                graph.nodes[entry][1],
                reachable=sorted(reach),
            )
        else:
            res.ok(construct, f"reads {sorted(read)} over {len(reach)} reachable functions")
    res.floor(3)
    return res


# ---------------------------------------------------------------------------


def _comb_reads_info(comb: cm.Combine) -> List[str]:
    bad = []
    for sub in ast.walk(comb.comb_value):
        if isinstance(sub, ast.Attribute) and sub.attr in ("info", "infos") and isinstance(sub.value, ast.Name):
            if sub.value.id in comb.comb_params:
                bad.append(short(sub))
        if isinstance(sub, ast.Call):
            for arg in list(sub.args) + [k.value for k in sub.keywords]:
                if isinstance(arg, ast.Name) and arg.id in comb.comb_params:
                    bad.append(short(sub, 60))
    return bad


def prune(prog: Program) -> RuleResult:
    res = RuleResult(
        "PRUNE",
        "no tag-dependent cost after pruning: the value a combinator returns may depend on the two optimal "
        "values but not on which tag (placement) survived in the entries it combines - "
        "min_i(a_i) + f(argmin) differs from min_i(a_i + f(i))",
    )
    recs = cm.find_recurrences(prog)
    for rec in recs:
        for idx, comb in enumerate(rec.combines):
            construct = f"{rec.modname}:{rec.fn.name}/combine#{idx}[{comb.comb_label}]/value"
            bad = _comb_reads_info(comb)
            if bad:
                res.fail(
                    construct,
                    f"the combinator `{comb.comb_label}` adds a cost that depends on the retained tag "
                    f"({', '.join(sorted(set(bad)))}) after the candidates were pruned by value alone: "
                    "optimal and co-optimal placements with a larger sub-cost are lost",
                    rec.mod,
                    comb.call,
                )
            else:
                res.ok(construct, f"value = {short(comb.comb_value, 80)}")
    res.floor(17, "combine call sites")
    return res


# ---------------------------------------------------------------------------
# composed totals


class _CombHook(cm.OptHook):
    """Atoms of a combinator body: V@k for <param k>.value, D@k for distance(root, <param k>.info)."""

    def __init__(self, rec: cm.Recurrence, comb: cm.Combine):
        super().__init__(rec.fn, rec.root_species, rec.root_object, comb.call)
        self.params = comb.comb_params

    def __call__(self, node: ast.AST) -> Optional[str]:
        if isinstance(node, ast.Attribute) and node.attr == "value" and isinstance(node.value, ast.Name):
            if node.value.id in self.params:
                return f"V@{self.params.index(node.value.id)}"
        if isinstance(node, ast.Call) and isinstance(node.func, ast.Attribute) and node.func.attr == "distance":
            if len(node.args) == 2:
                for a, b in ((node.args[0], node.args[1]), (node.args[1], node.args[0])):
                    if (
                        dotted(a) == self.root_species
                        and isinstance(b, ast.Attribute)
                        and b.attr == "info"
                        and isinstance(b.value, ast.Name)
                        and b.value.id in self.params
                    ):
                        return f"D@{self.params.index(b.value.id)}"
        return super().__call__(node)


def _class_for(rec: cm.Recurrence, ref: Tuple, pk: Optional[str]) -> Tuple[Optional[cm.EntryClass], Optional[object]]:
    """(class, child index) an entry reference denotes for parent kind pk."""
    if ref[0] == "local":
        cls = rec.classes.get(("local", ref[1]))
        child = None
        if cls:
            kids = {s.child for s in cls.sites}
            child = next(iter(kids)) if len(kids) == 1 else "mixed"
        return cls, child
    _t, _b, idx, fieldname = ref
    child = idx[0] if idx and idx[0] in (0, 1) else None
    kind = pk
    for item in idx[1:]:
        if isinstance(item, str):
            kind = item
    return rec.classes.get(("sub", fieldname, kind)), child


def _unit_kind(poly: Poly) -> List[str]:
    return [k for k in cm.KINDS if f"c[{k}]" in poly.atom_keys()]


# documented unordered model (C03): charge of a child on an edge whose parent holds `pk` content
def _u_charge(pk: str, ck: str, role: str) -> Poly:
    sl = Poly.atom("c[SEGMENTAL_LOSS]")
    if pk == "INHERIT":
        return sl if ck == "LCA" else Poly()
    if ck == "LCA":
        return Poly.atom(f"Phi[sub.{role}](0;c[SEGMENTAL_LOSS])")
    return Poly()


def _u_feasible(pk: str, ck: str, role: str) -> Poly:
    # an INHERIT child under an LCA parent is only a distinct labelling when the parent's required
    # content is not already contained in the child's
    if pk == "LCA" and ck == "INHERIT":
        return Poly.atom(f"Phi[sub.{role}](inf;0)")
    return Poly()


def _expected(sig: cm.EvalSignature, model: str, pk: Optional[str], ck_a: Optional[str], ck_b: Optional[str]):
    totals = sig.total(model)
    if model != "unordered":
        return totals
    out: Dict[str, Dict[str, Poly]] = {}
    for kind, alts in totals.items():
        out[kind] = {}
        for name, pol in alts.items():
            sub = {
                "U.a": _u_charge(pk or "LCA", ck_a or "LCA", "a"),
                "U.b": _u_charge(pk or "LCA", ck_b or "LCA", "b"),
            }
            out[kind][name] = pol.substitute(sub) + _u_feasible(pk or "LCA", ck_a or "LCA", "a") + _u_feasible(
                pk or "LCA", ck_b or "LCA", "b"
            )
    return out


def composed_totals(prog: Program):
    if "composed_totals" not in prog.memo:
        prog.memo["composed_totals"] = _composed_totals(prog)
    return prog.memo["composed_totals"]


def _composed_totals(prog: Program):
    """For every recurrence: list of (rec, idx, comb, cpoly, pk, class a, child a, class b, child b)."""
    out = []
    for rec in cm.find_recurrences(prog):
        for idx, comb in enumerate(rec.combines):
            hook = _CombHook(rec, comb)
            cpoly = Normaliser(hook).poly(comb.comb_value)
            for pk in rec.parent_kinds:
                ca, child_a = _class_for(rec, comb.receiver, pk)
                cb, child_b = _class_for(rec, comb.argument, pk)
                out.append((rec, idx, comb, cpoly, pk, ca, child_a, cb, child_b))
    return out


def event_sig(prog: Program) -> RuleResult:
    res = RuleResult(
        "EVENT-SIG",
        "each candidate the optimiser forms (class entry of the first child + class entry of the second child + "
        "combinator) costs exactly what the evaluator charges for that event kind: one unit event cost, "
        "full losses D.a + D.b - 2 / D.a + D.b / D.conserved, and the labelling terms of the model",
    )
    sig = cm.evaluator_signature(prog)
    n_rec = 0
    for rec, idx, comb, cpoly, pk, ca, child_a, cb, child_b in composed_totals(prog):
        n_rec += 1
        base = f"{rec.modname}:{rec.fn.name}/combine#{idx}[{comb.comb_label}]" + (f"/{pk}" if pk else "")
        if ca is None or cb is None or not ca.sites or not cb.sites:
            res.fail(
                base,
                f"`{short(comb.call, 80)}` combines an entry that is never filled "
                f"({'receiver' if ca is None or not ca.sites else 'argument'})",
                rec.mod,
                comb.call,
            )
            continue
        kinds = _unit_kind(cpoly)
        for sa in ca.sites:
            for sb in cb.sites:
                role_a = cm.ROLE.get(child_a if child_a in (0, 1) else None)
                role_b = cm.ROLE.get(child_b if child_b in (0, 1) else None)
                if role_a is None or role_b is None or role_a == role_b:
                    res.fail(
                        base,
                        f"`{short(comb.call, 80)}` does not combine an entry of the first child with an entry of "
                        f"the second child (children: {child_a}, {child_b})",
                        rec.mod,
                        comb.call,
                    )
                    continue
                roles = {0: role_a, 1: role_b}
                sub = {
                    "V@0": cm.suffix_child(sa.poly, role_a),
                    "V@1": cm.suffix_child(sb.poly, role_b),
                    "D@0": Poly.atom(f"D.{role_a}"),
                    "D@1": Poly.atom(f"D.{role_b}"),
                }
                total = cpoly.substitute(sub)
                tag = base + (f"/{sa.child_kind}-{sb.child_kind}" if sa.child_kind or sb.child_kind else "")
                unit = _unit_kind(total)
                if len(unit) != 1:
                    res.fail(
                        tag,
                        f"the candidate {ca.label} x {cb.label} -> {comb.comb_label} charges "
                        f"{'no unit event cost' if not unit else 'several unit event costs ' + str(unit)}: "
                        f"total = {total}",
                        rec.mod,
                        comb.call,
                        total=str(total),
                    )
                    continue
                kind = unit[0]
                ck = {role_a: sa.child_kind, role_b: sb.child_kind}
                expected = _expected(sig, rec.model, pk, ck.get("a"), ck.get("b"))[kind]
                match = [name for name, pol in expected.items() if pol == total]
                if match:
                    res.ok(tag, f"{kind}{'/' + match[0] if match[0] else ''}: {total}")
                else:
                    closest = min(expected.items(), key=lambda kv: len((kv[1] - total).terms))
                    diff = total - closest[1]
                    res.fail(
                        tag,
                        f"the {kind} candidate {ca.label}(child {role_a}) x {cb.label}(child {role_b}) -> "
                        f"{comb.comb_label} costs [{total}] but the evaluator charges [{closest[1]}] "
                        f"(difference optimiser - evaluator: {diff})",
                        rec.mod,
                        comb.call,
                        total=str(total),
                        evaluator={n: str(p) for n, p in expected.items()},
                    )
    if n_rec < 17:
        raise AnalysisError(f"EVENT-SIG: only {n_rec} combine instances found (expected at least 17)")
    res.floor(17)
    return res



# ---------------------------------------------------------------------------
# homogeneity (C09: multiplying every unit cost by k multiplies every value by k)


def _atom_weight(key: str) -> Optional[int]:
    """Degree of an atom in the unit costs: 1 for unit costs and for values that are themselves sums of
    unit costs (sub-problem values, labelling charges), 0 for counts; None when the atom is itself
    inhomogeneous."""
    if key.startswith("c["):
        return 1
    head = key.split(".")[0].split("@")[0]
    if head in ("S", "V", "U") or key == "inf":
        return 1
    if key.startswith("Phi["):
        inner = key[key.index("](") + 2 : -1]
        for part in inner.split(";"):
            part = part.strip()
            if part in ("0", "inf"):
                continue
            for term in part.replace(" - ", " + ").split(" + "):
                if "c[" not in term:
                    return None
        return 1
    return 0


def _inhomogeneous_terms(poly: Poly) -> List[str]:
    bad = []
    for mono, coef in poly.terms.items():
        weight = 0
        broken = False
        for key, exp in mono:
            w = _atom_weight(key)
            if w is None:
                broken = True
                break
            weight += w * exp
        if broken or weight != 1:
            bad.append(str(Poly({mono: coef})))
    return bad


def cost_homogeneous(prog: Program) -> RuleResult:
    res = RuleResult(
        "COST-HOMOGENEOUS",
        "every value the optimisers and the evaluator compute is a homogeneous linear form in the unit costs "
        "(each monomial contains exactly one unit cost, sub-problem value or labelling charge, multiplied by "
        "counts only): multiplying all unit costs by k then multiplies every table value and every total by k, "
        "so minima scale by k and the optimal sets do not change",
    )
    sig = cm.evaluator_signature(prog)
    emod = prog.module(cm.MODEL)
    for part, store in (("rec", sig.rec), ("ordered", sig.ordered), ("unordered", sig.unordered)):
        for kind in cm.KINDS:
            for alt, pol in store[kind].items():
                construct = f"{cm.MODEL}:{part}/{kind}" + (f"/{alt}" if alt else "") + "/homogeneous"
                bad = _inhomogeneous_terms(pol)
                site = sig.sites.get(f"{'rec' if part == 'rec' else '_' + part + '_labeling_cost'}.{kind}")
                if bad:
                    res.fail(construct, f"the evaluator's charge [{pol}] has terms that do not scale with the unit costs: {bad}", emod, site)
                else:
                    res.ok(construct, str(pol))
    for rec in cm.find_recurrences(prog):
        for key, cls in rec.classes.items():
            for idx, site in enumerate(cls.sites):
                construct = f"{rec.modname}:{rec.fn.name}/class[{cls.label}]#{idx}/homogeneous"
                bad = _inhomogeneous_terms(site.poly) if site.poly is not None else ["<no polynomial>"]
                if bad:
                    res.fail(
                        construct,
                        f"the candidate value [{site.poly}] offered to `{cls.label}` has terms that do not scale "
                        f"with the unit costs: {bad}",
                        rec.mod,
                        site.node,
                    )
                else:
                    res.ok(construct, str(site.poly))
        for idx, comb in enumerate(rec.combines):
            hook = _CombHook(rec, comb)
            cpoly = Normaliser(hook).poly(comb.comb_value)
            construct = f"{rec.modname}:{rec.fn.name}/combine#{idx}[{comb.comb_label}]/homogeneous"
            bad = _inhomogeneous_terms(cpoly)
            if bad:
                res.fail(construct, f"the combinator value [{cpoly}] has terms that do not scale with the unit costs: {bad}", rec.mod, comb.call)
            else:
                res.ok(construct, str(cpoly))
    res.floor(40)
    return res


# ---------------------------------------------------------------------------
# monotonicity (C09: raising one unit cost never lowers the minimum)


def _negative_unit_terms(poly: Poly, dmin: int) -> List[str]:
    """Unit costs whose total coefficient can be negative given D >= dmin and run counts >= 0."""
    bad = []
    units = sorted({k for k in poly.atom_keys() if k.startswith("c[")})
    for unit in units:
        q = poly.coefficient_of(unit)
        low = Fraction(0)
        ok = True
        for mono, coef in q.terms.items():
            if mono == ():
                low += coef
                continue
            if len(mono) == 1 and mono[0][1] == 1:
                atom = mono[0][0]
                head = atom.split(".")[0]
                if head in ("D", "LT", "LF"):
                    if coef < 0:
                        ok = False
                    elif head == "D":
                        low += coef * dmin
                    continue
            ok = ok and coef >= 0  # other count-like atoms: only non-negative coefficients are accepted
        if not ok or low < 0:
            bad.append(f"{unit} * ({q})")
    return bad


def cost_monotone(prog: Program) -> RuleResult:
    res = RuleResult(
        "COST-MONOTONE",
        "in every value the optimisers and the evaluator compute, each unit cost is multiplied by a quantity "
        "that cannot be negative (distance - 1 only where the child is strictly below the node, counts of runs, "
        "constants >= 0): then every candidate total is non-decreasing in every unit cost, and so is the minimum",
    )
    sig = cm.evaluator_signature(prog)
    emod = prog.module(cm.MODEL)
    for part, store in (("rec", sig.rec), ("ordered", sig.ordered), ("unordered", sig.unordered)):
        for kind in cm.KINDS:
            for alt, pol in store[kind].items():
                construct = f"{cm.MODEL}:{part}/{kind}" + (f"/{alt}" if alt else "") + "/monotone"
                bad = _negative_unit_terms(pol, 1 if kind == "SPECIATION" else 0)
                site = sig.sites.get(f"{'rec' if part == 'rec' else '_' + part + '_labeling_cost'}.{kind}")
                if bad:
                    res.fail(construct, f"the evaluator's charge can decrease when a unit cost is raised: {bad}", emod, site)
                else:
                    res.ok(construct, str(pol))
    for rec in cm.find_recurrences(prog):
        for key, cls in rec.classes.items():
            for idx, site in enumerate(cls.sites):
                construct = f"{rec.modname}:{rec.fn.name}/class[{cls.label}]#{idx}/monotone"
                if site.poly is None:
                    raise AnalysisError(f"{construct}: no polynomial")
                domain, _desc = _site_domain(rec, site)
                dmin = 1 if domain in ("below-c0", "below-c1") else 0
                bad = _negative_unit_terms(site.poly, dmin)
                if bad:
                    res.fail(
                        construct,
                        f"the candidate value [{site.poly}] offered to `{cls.label}` (species range: {domain}, so "
                        f"D >= {dmin}) multiplies a unit cost by a quantity that can be negative: {bad} - raising "
                        "that cost lowers the value",
                        rec.mod,
                        site.node,
                    )
                else:
                    res.ok(construct, f"{site.poly}  [D >= {dmin}]")
        for idx, comb in enumerate(rec.combines):
            hook = _CombHook(rec, comb)
            cpoly = Normaliser(hook).poly(comb.comb_value)
            construct = f"{rec.modname}:{rec.fn.name}/combine#{idx}[{comb.comb_label}]/monotone"
            bad = _negative_unit_terms(cpoly, 0)
            if bad:
                res.fail(construct, f"the combinator value [{cpoly}] can decrease when a unit cost is raised: {bad}", rec.mod, comb.call)
            else:
                res.ok(construct, str(cpoly))
    res.floor(40)
    return res

# ---------------------------------------------------------------------------
# domains


def _only_infinity_tests(part: ast.AST) -> bool:
    if isinstance(part, ast.UnaryOp) and isinstance(part.op, ast.Not):
        return _only_infinity_tests(part.operand)
    if isinstance(part, ast.BoolOp):
        return all(_only_infinity_tests(v) for v in part.values)
    if isinstance(part, ast.Call):
        return (isinstance(part.func, ast.Attribute) and part.func.attr == "is_infinite") or dotted(part.func) == "is_infinite"
    return False


def _site_domain(rec: cm.Recurrence, site: cm.CandidateSite) -> Tuple[str, List[str]]:
    if "domain" not in site.__dict__:
        site.__dict__["domain"] = _site_domain_uncached(rec, site)
    return site.__dict__["domain"]


def _site_domain_uncached(rec: cm.Recurrence, site: cm.CandidateSite) -> Tuple[str, List[str]]:
    """Role of the species range a candidate site covers: below | below-c0 | below-c1 | separate | unknown."""
    if not site.s_keys:
        return "unknown", ["no sub-problem value read"]
    x = site.s_keys[0]
    norm = Normaliser()
    root = rec.root_species
    lits: List[Tuple[str, str, str, bool]] = []
    unknown: List[str] = []
    for test, pol in site.guards:
        itest = inline(rec.fn, test, test if hasattr(test, "lineno") else site.node)
        for part, ppol in _literals(itest, pol):
            names = {n.id for n in ast.walk(part) if isinstance(n, ast.Name)}
            if x not in names:
                continue
            if _only_infinity_tests(part):
                continue  # skipping infinite sub-problems does not restrict the species range (CANDIDATE-GUARDS judges the polarity)
            if (
                isinstance(part, ast.Call)
                and isinstance(part.func, ast.Attribute)
                and part.func.attr == "is_ancestor_of"
                and len(part.args) == 2
            ):
                lits.append(("anc", norm.text(part.args[0], False), norm.text(part.args[1], False), ppol))
            else:
                unknown.append(("" if ppol else "not ") + short(part))
    for loop in site.loops:
        if isinstance(loop, ast.For) and x in [n.id for n in ast.walk(loop.target) if isinstance(n, ast.Name)]:
            it = loop.iter
            if isinstance(it, ast.Call) and dotted(it.func) == "tqdm" and it.args:
                it = it.args[0]
            if isinstance(it, ast.Call) and isinstance(it.func, ast.Attribute) and it.func.attr == "traverse":
                src = norm.text(inline(rec.fn, it.func.value, loop), False)
                if src.endswith(".tree"):
                    continue  # the whole species tree
                lits.append(("in", src, x, True))
            elif isinstance(it, ast.Subscript) or isinstance(it, ast.Name) or isinstance(it, ast.Call):
                # iteration over table keys etc.: not a species range
                if x == dotted(loop.target):
                    unknown.append(f"for {x} in {short(it)}")
    c0, c1 = f"{root}.children[0]", f"{root}.children[1]"
    pos = {(k, a, b) for k, a, b, p in lits if p}
    neg = {(k, a, b) for k, a, b, p in lits if not p}
    desc = [("" if p else "not ") + f"{k}({a},{b})" for k, a, b, p in lits] + unknown
    if unknown:
        return "unknown", desc
    allowed_pos_extra = {("anc", root, x)}
    for k, child, other in ((0, c0, c1), (1, c1, c0)):
        if ("anc", child, x) in pos or ("in", child, x) in pos:
            if pos - {("anc", child, x), ("in", child, x)} - allowed_pos_extra:
                return "unknown", desc
            if neg - {("anc", other, x)}:
                return "unknown", desc
            return f"below-c{k}", desc
    if ("anc", root, x) in pos:
        if pos - {("anc", root, x)} or neg:
            return "unknown", desc
        return "below", desc
    if ("anc", root, x) in neg and ("anc", x, root) in neg and not pos and len(neg) == 2:
        return "separate", desc
    return "unknown", desc


def _literals(test: ast.AST, pol: bool) -> List[Tuple[ast.AST, bool]]:
    if isinstance(test, ast.UnaryOp) and isinstance(test.op, ast.Not):
        return _literals(test.operand, not pol)
    if isinstance(test, ast.BoolOp):
        if isinstance(test.op, ast.And) and pol:
            return [l for v in test.values for l in _literals(v, True)]
        if isinstance(test.op, ast.Or) and not pol:
            return [l for v in test.values for l in _literals(v, False)]
    return [(test, pol)]


ALLOWED_DOMAINS = {
    "SPECIATION": {("below-c0", "below-c1"), ("below-c1", "below-c0")},
    "DUPLICATION": {("below", "below")},
    "HORIZONTAL_TRANSFER": {("below", "separate"), ("separate", "below")},
}


def class_domain(prog: Program) -> RuleResult:
    res = RuleResult(
        "CLASS-DOMAIN",
        "the species range of each class entry matches the event it is used for: speciation = one child below "
        "each child species, duplication = both below the node's species, transfer = one below (the conserved "
        "copy) and one in a separate lineage (neither descendant nor ancestor)",
    )
    sig = cm.evaluator_signature(prog)
    seen: Dict[Tuple[str, str], Set[Tuple[str, str]]] = {}
    for rec, idx, comb, cpoly, pk, ca, child_a, cb, child_b in composed_totals(prog):
        if ca is None or cb is None or not ca.sites or not cb.sites:
            continue
        kinds = _unit_kind(cpoly)
        if len(kinds) != 1:
            continue
        kind = kinds[0]
        base = f"{rec.modname}:{rec.fn.name}/combine#{idx}[{comb.comb_label}]" + (f"/{pk}" if pk else "")
        doms = []
        for cls in (ca, cb):
            roles = {}
            for site in cls.sites:
                role, desc = _site_domain(rec, site)
                roles[role] = desc
            doms.append(roles)
        if any(len(d) != 1 for d in doms):
            res.fail(base, f"the candidates of one class entry cover different species ranges: {doms}", rec.mod, comb.call)
            continue
        ra, rb = next(iter(doms[0])), next(iter(doms[1]))
        # order by child: receiver child first
        pair = (ra, rb) if child_a == 0 else (rb, ra)
        if (ra, rb) in ALLOWED_DOMAINS[kind]:
            res.ok(base, f"{kind}: {ca.label} is {ra}, {cb.label} is {rb}")
            seen.setdefault((f"{rec.modname}:{rec.fn.name.replace('_try_speciation','').replace('_try_duplication_transfer','')}", kind), set()).add(pair)
        else:
            res.fail(
                base,
                f"the {kind} candidate combines `{ca.label}` covering [{ra}: {'; '.join(doms[0][ra]) or 'all species'}] with "
                f"`{cb.label}` covering [{rb}: {'; '.join(doms[1][rb]) or 'all species'}]; "
                f"allowed for {kind}: {sorted(ALLOWED_DOMAINS[kind])}",
                rec.mod,
                comb.call,
            )
        # the conserved (T) side of a transfer must be the one below the node
        if kind == "HORIZONTAL_TRANSFER" and (ra, rb) in ALLOWED_DOMAINS[kind]:
            # determined through the loss term: D of the below side
            pass
    # coverage: both orientations of speciation and transfer
    by_solver: Dict[str, Dict[str, Set[Tuple[str, str]]]] = {}
    for (solver, kind), pairs in seen.items():
        by_solver.setdefault(solver.split(":")[0], {}).setdefault(kind, set()).update(pairs)
    for solver, kinds in sorted(by_solver.items()):
        for kind in cm.KINDS:
            have = kinds.get(kind, set())
            want = ALLOWED_DOMAINS[kind]
            construct = f"{solver}/coverage/{kind}"
            if want - have:
                res.fail(
                    construct,
                    f"no {kind} candidate with child ranges {sorted(want - have)} (first child, second child): "
                    "solutions with the children's roles exchanged are never considered",
                    prog.module(solver),
                    None,
                )
            else:
                res.ok(construct, f"{sorted(have)}")
    res.floor(20)
    return res


# ---------------------------------------------------------------------------


def mirror(prog: Program) -> RuleResult:
    res = RuleResult(
        "MIRROR",
        "the family of candidates of each table update is closed under exchanging the two children: for every "
        "(class A of child 0, class B of child 1, combinator) there is (class B' of child 0, class A' of child 1, "
        "same combinator kind) where X' is the class with the same range and cost as X for the other child",
    )
    all_totals = composed_totals(prog)
    groups: Dict[Tuple[str, str, Optional[str]], List] = {}
    for item in all_totals:
        rec, idx, comb, cpoly, pk, ca, child_a, cb, child_b = item
        groups.setdefault((rec.modname, rec.fn.name, pk), []).append(item)
    for (modname, fname, pk), items in sorted(groups.items(), key=lambda kv: str(kv[0])):
        sigs = []
        for rec, idx, comb, cpoly, pk_, ca, child_a, cb, child_b in items:
            if ca is None or cb is None:
                continue
            kinds = _unit_kind(cpoly)
            sa = _class_signature(rec, ca)
            sb = _class_signature(rec, cb)
            # orient by child
            if child_a == 0:
                first, second = sa, sb
            else:
                first, second = sb, sa
            comb_sig = _comb_signature(cpoly, swap=child_a != 0)
            sigs.append((idx, comb, tuple(kinds), first, second, comb_sig))
        have = {(k, f, s, c) for _i, _c, k, f, s, c in sigs}
        for idx, comb, kinds, first, second, comb_sig in sigs:
            construct = f"{modname}:{fname}/combine#{idx}[{comb.comb_label}]" + (f"/{pk}" if pk else "")
            mirrored = (kinds, second, first, _swap_comb(comb_sig))
            if mirrored in have:
                res.ok(construct, "mirrored candidate present")
            else:
                res.fail(
                    construct,
                    f"`{short(comb.call, 90)}` has no mirror image: the same candidate with the roles of the first "
                    "and second child exchanged is never formed, so solutions with exchanged children are missed "
                    "(and reordering the children of a node changes the result)",
                    items[0][0].mod,
                    comb.call,
                )
    res.floor(17)
    return res


def _class_signature(rec: cm.Recurrence, cls: cm.EntryClass) -> Tuple:
    parts = []
    for site in cls.sites:
        role, _desc = _site_domain(rec, site)
        parts.append((role, str(site.poly), site.child_kind))
    return tuple(sorted(parts, key=str))


def _canon_terms(text: str) -> str:
    return " + ".join(sorted(t.strip() for t in text.replace(" - ", " + -").split(" + ")))


def _comb_signature(cpoly: Poly, swap: bool) -> str:
    text = _canon_terms(str(cpoly))
    return _swap_comb(text) if swap else text


def _swap_comb(text: str) -> str:
    text = text.replace("@0", "@X").replace("@1", "@0").replace("@X", "@1")
    return _canon_terms(text)


def combine_orient(prog: Program) -> RuleResult:
    res = RuleResult(
        "COMBINE-ORIENT",
        "in every combine the receiver entry belongs to the first child and the argument entry to the second, "
        "and the combinator stores (left.info, right.info) in that order - the decoder reads the first half of "
        "the tag for the first child",
    )
    for rec, idx, comb, cpoly, pk, ca, child_a, cb, child_b in composed_totals(prog):
        if pk is not None and pk != rec.parent_kinds[0]:
            continue
        construct = f"{rec.modname}:{rec.fn.name}/combine#{idx}[{comb.comb_label}]"
        problems = []
        if child_a != 0 or child_b != 1:
            problems.append(
                f"receiver is an entry of child {child_a} and the argument an entry of child {child_b} "
                "(expected 0 then 1)"
            )
        info = comb.comb_info
        ok_info = (
            isinstance(info, ast.Call)
            and len(info.args) == 2
            and all(isinstance(a, ast.Attribute) and a.attr == "info" and isinstance(a.value, ast.Name) for a in info.args)
            and [a.value.id for a in info.args] == list(comb.comb_params)  # type: ignore[union-attr]
        )
        if not ok_info:
            problems.append(f"the combinator tags the result with `{short(info)}`, not (left.info, right.info)")
        if problems:
            res.fail(construct, f"`{short(comb.call, 80)}`: " + "; ".join(problems) + " - the decoded mapping is not the one that was costed", rec.mod, comb.call)
        else:
            res.ok(construct, f"{short(comb.call.func.value, 40)} x {short(comb.call.args[0], 40)}")  # type: ignore[union-attr]
    res.floor(17)
    return res


def info_key(prog: Program) -> RuleResult:
    res = RuleResult(
        "INFO-KEY",
        "the tag of every class-entry candidate names exactly the sub-problem whose value it carries: the keys "
        "used to read the child's table row equal the components of the tag, distances are measured to that "
        "species and lost segments from that synteny",
    )
    norm = Normaliser()
    for rec in cm.find_recurrences(prog):
        for key, cls in sorted(rec.classes.items(), key=lambda kv: str(kv[0])):
            for sidx, site in enumerate(cls.sites):
                construct = f"{rec.modname}:{rec.fn.name}/{cls.label}/candidate#{sidx}"
                hook: cm.OptHook = site.__dict__["hook"]
                problems = []
                if not site.s_keys:
                    problems.append("carries no sub-problem value")
                if len(set(hook.s_keys)) > 1:
                    problems.append(f"reads several sub-problem entries {sorted(set(hook.s_keys))}")
                if site.child == "mixed":
                    problems.append("mixes rows of both children")
                info = site.info
                comps: List[str] = []
                if info is None:
                    problems.append("has no tag")
                elif isinstance(info, ast.Call):
                    comps = [norm.text(a, False) for a in info.args] + [norm.text(k.value, False) for k in info.keywords]
                else:
                    comps = [norm.text(info, False)]
                if info is not None and site.s_keys and tuple(comps) != tuple(site.s_keys):
                    problems.append(f"is tagged {comps} but carries the value of sub-problem {list(site.s_keys)}")
                if site.s_keys:
                    for d in hook.d_keys:
                        if d != site.s_keys[0]:
                            problems.append(f"measures the distance to `{d}` instead of `{site.s_keys[0]}`")
                    for bad in hook.bad_d:
                        problems.append(f"measures `{bad}` which does not start at the node's species")
                    for a, b in hook.l_keys:
                        if len(site.s_keys) > 1 and a != site.s_keys[1]:
                            problems.append(f"counts lost segments of `{a}` instead of `{site.s_keys[1]}`")
                        # the node's own synteny is a parameter of the recurrence (the child's is a loop variable)
                        if b not in func_params(rec.fn) or b in (rec.root_species, rec.root_object):
                            problems.append(f"counts lost segments relative to `{b}` instead of the node's synteny")
                if problems:
                    res.fail(construct, f"`{short(site.node, 80)}` " + "; ".join(problems), rec.mod, site.node)
                else:
                    res.ok(construct, f"tag {comps} = row keys")
    res.floor(30)
    return res


def sibling_pairing(prog: Program) -> RuleResult:
    res = RuleResult(
        "SIBLING-PAIRING",
        "the ordered and unordered solvers implement the same recurrence: their (class, class, event) pairings "
        "are identical",
    )
    recs = {r.model: r for r in cm.find_recurrences(prog) if r.model in ("ordered", "unordered")}
    if set(recs) != {"ordered", "unordered"}:
        raise AnalysisError("SIBLING-PAIRING: ordered/unordered recurrences not found")
    pairs = {}
    for model, rec in recs.items():
        got = set()
        for comb in rec.combines:
            hook = _CombHook(rec, comb)
            kinds = tuple(_unit_kind(Normaliser(hook).poly(comb.comb_value)))
            ra, rb = comb.receiver, comb.argument
            if ra[0] != "sub" or rb[0] != "sub":
                raise AnalysisError("SIBLING-PAIRING: unexpected entry reference")
            got.add((ra[2][0], ra[3], rb[2][0], rb[3], kinds))
        pairs[model] = got
    for model, other in (("ordered", "unordered"), ("unordered", "ordered")):
        construct = f"{recs[model].modname}:{recs[model].fn.name}/pairings"
        extra = pairs[model] - pairs[other]
        if extra:
            res.fail(
                construct,
                f"pairings {sorted(extra)} exist in the {model} solver but not in the {other} one",
                recs[model].mod,
                recs[model].fn,
            )
        else:
            res.ok(construct, f"{len(pairs[model])} pairings, all shared")
    return res


# ---------------------------------------------------------------------------
# evaluator vs documented model


def _parse_poly(text: str) -> Poly:
    """Parse model-table text such as 'c_SPECIATION + S_a + c_FULL_LOSS*(D_a + D_b - 2)'."""

    def hook(node: ast.AST) -> Optional[str]:
        if isinstance(node, ast.Name):
            name = node.id
            if name.startswith("c_"):
                return f"c[{name[2:]}]"
            head, _, role = name.rpartition("_")
            return f"{head}.{role}"
        return None

    return Normaliser(hook).poly(ast.parse(text, mode="eval").body)


def model_table(prog: Program) -> RuleResult:
    from .model_spec import MODEL_SPEC, SELECTOR_SPEC

    res = RuleResult(
        "MODEL-TABLE",
        "per event kind, the evaluator's unit cost, full-loss polynomial and labelling terms equal the "
        "documented event model (table in rules/model_spec.py, one line per clause of the property)",
    )
    sig = cm.evaluator_signature(prog)
    mod = prog.module(cm.MODEL)
    for part, store in (("rec", sig.rec), ("ordered", sig.ordered), ("unordered", sig.unordered)):
        for kind in cm.KINDS:
            for alt, (text, why) in MODEL_SPEC[part][kind].items():
                construct = f"{cm.MODEL}:{part}/{kind}" + (f"/{alt}" if alt else "")
                want = _parse_poly(text)
                got = store[kind].get(alt)
                site = sig.sites.get(f"{'rec' if part == 'rec' else '_' + part + '_labeling_cost'}.{kind}")
                if got is None:
                    res.fail(
                        construct,
                        f"the evaluator has no alternative `{alt}` for {kind} (has {sorted(store[kind])}); model: {why}",
                        mod,
                        site,
                    )
                elif got == want:
                    res.ok(construct, f"{got}   [{why}]")
                else:
                    res.fail(
                        construct,
                        f"the evaluator charges [{got}] for {kind}{' ' + alt if alt else ''} but the documented "
                        f"model is [{want}] ({why}); difference: {got - want}",
                        mod,
                        site,
                    )
            extra = set(store[kind]) - set(MODEL_SPEC[part][kind])
            if extra:
                res.fail(
                    f"{cm.MODEL}:{part}/{kind}/alternatives",
                    f"the evaluator distinguishes alternatives {sorted(extra)} the model does not have",
                    mod,
                    None,
                )
    # how alternatives are selected (a `min` over the two children where the model fixes the choice by the
    # mapping would silently pick the cheaper outcome)
    for key, want_sel in SELECTOR_SPEC.items():
        construct = f"{cm.MODEL}:{key.replace('.', '/')}/selector"
        got_sel = sig.selectors.get(key)
        words = {"": "a single expression", "min": "the cheaper of the two assignments (min)", "conserved": "a test on which child stays below the node"}
        if got_sel == want_sel:
            res.ok(construct, f"alternatives chosen by {words[want_sel]}")
        else:
            part, kind = key.split(".")
            site = sig.sites.get(f"{'rec' if part == 'rec' else '_' + part + '_labeling_cost'}.{kind}")
            res.fail(
                construct,
                f"the evaluator chooses between the alternatives of {kind} by {words.get(got_sel, got_sel)} but the "
                f"documented model fixes it by {words[want_sel]}",
                mod,
                site,
            )
    # U atoms: 0 if parent <= child else sloss  (already enforced by the hook naming them U.x)
    for role in ("a", "b"):
        construct = f"{cm.MODEL}:unordered/charge-definition/{role}"
        if f"U.{role}" in sig.u_atoms:
            res.ok(construct, short(sig.u_atoms[f'U.{role}'], 90))
        else:
            res.fail(
                construct,
                f"the unordered charge of child {role} is not `0 if parent_set <= child_set else c[SEGMENTAL_LOSS]`",
                mod,
                None,
            )
    res.floor(16)
    return res


def label_siblings(prog: Program) -> RuleResult:
    res = RuleResult(
        "LABEL-SIBLINGS",
        "the ordered and unordered labelling evaluators charge the same child roles per event kind "
        "(speciation: both; duplication: the better of the two assignments; transfer: the conserved child)",
    )
    sig = cm.evaluator_signature(prog)
    mod = prog.module(cm.MODEL)
    for kind in cm.KINDS:
        construct = f"{cm.MODEL}:labelling/{kind}"
        o = {alt: _charged_roles(p, ("LT",)) for alt, p in sig.ordered[kind].items()}
        u = {alt: _charged_roles(p, ("U",)) for alt, p in sig.unordered[kind].items()}
        if o == u:
            res.ok(construct, f"charged children per alternative: {o}")
        else:
            res.fail(
                construct,
                f"ordered evaluator charges {o} but the unordered one charges {u} for {kind}",
                mod,
                sig.sites.get(f"_unordered_labeling_cost.{kind}"),
            )
    return res


def _charged_roles(poly: Poly, heads: Sequence[str]) -> Tuple[str, ...]:
    roles = set()
    for key in poly.atom_keys():
        head, _, role = key.partition(".")
        if head in heads:
            roles.add(role)
    return tuple(sorted(roles))


# ---------------------------------------------------------------------------
# sentinel


def _sentinel_producers(prog: Program):
    """Functions with both `return -<const>` and a non-constant return."""
    out = []
    for mod, qual, fn in prog.functions():
        rets = [n for n in walk_no_nested(fn) if isinstance(n, ast.Return) and n.value is not None]
        neg = [
            r
            for r in rets
            if isinstance(r.value, ast.UnaryOp)
            and isinstance(r.value.op, ast.USub)
            and isinstance(r.value.operand, ast.Constant)
            and isinstance(r.value.operand.value, int)
        ]
        other = [r for r in rets if r not in neg and not isinstance(r.value, ast.Constant)]
        if neg and other and "." not in qual:
            out.append((mod, fn, neg))
    return out


SENTINEL_EXEMPT = {
    # C06 quantifies over valid labellings only, for which the sentinel is unreachable
    "model.reconciliation:SuperReconciliationOutput._ordered_labeling_cost":
        "evaluator of a given labelling: C06 quantifies over valid labellings (child is a subsequence)",
}


def sentinel(prog: Program) -> RuleResult:
    res = RuleResult(
        "SENTINEL",
        "a sentinel result (-1 = not a subsequence) is compared with 0/-1 before it takes part in any "
        "arithmetic, and the test dominates every other call on the same pair of arguments",
    )
    producers = _sentinel_producers(prog)
    if not producers:
        raise AnalysisError("SENTINEL: no sentinel-returning function found (subseq_segment_dist expected)")
    for pmod, pfn, negs in producers:
        # the conditions guarding the sentinel return must not depend on the mode flag
        flag_params = [a.arg for a in pfn.args.args if a.annotation is not None and ast.unparse(a.annotation) == "bool"]
        for neg in negs:
            gs = guards(pfn, neg)
            used = {n.id for g, _p in gs for n in ast.walk(g) if isinstance(n, ast.Name)}
            construct = f"{_modkey(pmod)}:{pfn.name}/sentinel-independent-of-mode"
            tainted = _tainted_by(pfn, flag_params)
            if used & tainted:
                res.fail(
                    construct,
                    f"the `return {short(neg.value)}` of {pfn.name} depends on {sorted(used & tainted)}: a test made in "
                    "one mode does not validate the other",
                    pmod,
                    neg,
                )
            else:
                res.ok(construct, f"guards of `return {short(neg.value)}` do not read {flag_params}")
        # consumers
        for mod, qual, fn in prog.functions():
            if fn is pfn:
                continue
            sites = [c for c in calls_in(fn, nested=False) if isinstance(c.func, ast.Name) and c.func.id == pfn.name]
            if not sites:
                continue
            fkey = f"{_modkey(mod)}:{qual}"
            if fkey in SENTINEL_EXEMPT:
                res.ok(f"{fkey}/exempt", SENTINEL_EXEMPT[fkey], nontrivial=False)
                continue
            _check_consumer(res, mod, fkey, fn, pfn, sites)
    res.floor(3)
    return res


def _modkey(mod: Module) -> str:
    return mod.name.split(".", 1)[1]


def _tainted_by(fn: ast.AST, params: Sequence[str]) -> Set[str]:
    tainted = set(params)
    changed = True
    while changed:
        changed = False
        for node in walk_no_nested(fn):
            if isinstance(node, (ast.Assign, ast.AugAssign, ast.AnnAssign)):
                value = node.value
                if value is None:
                    continue
                if {n.id for n in ast.walk(value) if isinstance(n, ast.Name)} & tainted:
                    targets = node.targets if isinstance(node, ast.Assign) else [node.target]
                    for t in targets:
                        for n in ast.walk(t):
                            if isinstance(n, ast.Name) and n.id not in tainted:
                                tainted.add(n.id)
                                changed = True
    return tainted


def _pair_key(call: ast.Call) -> Tuple[str, str]:
    a = ast.dump(call.args[0]) if call.args else ""
    b = ast.dump(call.args[1]) if len(call.args) > 1 else ""
    return a, b


def _is_sentinel_test(test: ast.AST, name: str) -> Optional[bool]:
    """Return the polarity under which `name` is known to be a valid (non-negative) result."""
    if isinstance(test, ast.Compare) and len(test.ops) == 1 and isinstance(test.left, ast.Name) and test.left.id == name:
        op, right = test.ops[0], test.comparators[0]
        val = None
        if isinstance(right, ast.Constant):
            val = right.value
        elif isinstance(right, ast.UnaryOp) and isinstance(right.op, ast.USub) and isinstance(right.operand, ast.Constant):
            val = -right.operand.value
        if val == 0 and isinstance(op, ast.Lt):
            return False  # valid when the test is false
        if val == 0 and isinstance(op, ast.GtE):
            return True
        if val == -1 and isinstance(op, ast.Eq):
            return False
        if val == -1 and isinstance(op, ast.NotEq):
            return True
        if val == -1 and isinstance(op, ast.Gt):
            return True
        if val == -1 and isinstance(op, ast.LtE):
            return False
    return None


def _check_consumer(res: RuleResult, mod: Module, fkey: str, fn: ast.AST, pfn: ast.AST, sites: List[ast.Call]) -> None:
    by_pair: Dict[Tuple[str, str], List[ast.Call]] = {}
    for call in sites:
        by_pair.setdefault(_pair_key(call), []).append(call)
    for pidx, (pair, calls) in enumerate(by_pair.items()):
        construct = f"{fkey}/{pfn.name}#{pidx}"
        # find a raw result bound to a name and tested
        tested_name = None
        tested_stmt = None
        raw_problems = []
        for call in calls:
            parent = mod.parent(call)
            if isinstance(parent, ast.Assign) and parent.value is call and len(parent.targets) == 1 and isinstance(parent.targets[0], ast.Name):
                name = parent.targets[0].id
                # is there a sentinel test of this name?
                for node in walk_no_nested(fn):
                    if isinstance(node, (ast.If, ast.Assert, ast.IfExp, ast.While)):
                        test = node.test
                        while isinstance(test, ast.UnaryOp) and isinstance(test.op, ast.Not):
                            test = test.operand
                        if _is_sentinel_test(test, name) is not None:
                            tested_name, tested_stmt = name, parent
        if tested_name is None:
            # maybe the raw call itself is compared: `if f(a, b, True) < 0`
            for call in calls:
                parent = mod.parent(call)
                if isinstance(parent, ast.Compare) and parent.left is call:
                    tested_name = "<call>"
                    tested_stmt = call
        if tested_name is None:
            # report which arithmetic use is unprotected
            call = calls[0]
            parent = mod.parent(call)
            what = "scaled / added" if isinstance(parent, ast.BinOp) else "used"
            res.fail(
                construct,
                f"the result of `{short(call, 70)}` is {what} (`{short(parent, 70)}`) without a prior test of the raw "
                "value against the sentinel: multiplied by a zero cost, -1 becomes 0 and a non-subsequence is "
                "accepted",
                mod,
                call,
            )
            continue
        # every arithmetic use of any call of this pair must be dominated by the validity test
        ok = True
        for call in calls:
            parent = mod.parent(call)
            if parent is tested_stmt or call is tested_stmt:
                continue
            gs = guards(fn, call)
            valid = any(
                _is_sentinel_test(g, tested_name) is not None and _is_sentinel_test(g, tested_name) == pol
                for g, pol in gs
            ) if tested_name != "<call>" else True
            if not valid:
                ok = False
                res.fail(
                    construct,
                    f"`{short(call, 70)}` is evaluated on a path where the pair was not validated "
                    f"(no dominating test of `{tested_name}`)",
                    mod,
                    call,
                )
        if tested_name != "<call>":
            # arithmetic uses of the tested name must be dominated as well
            for node in walk_no_nested(fn):
                if isinstance(node, ast.BinOp):
                    if any(isinstance(s, ast.Name) and s.id == tested_name for s in (node.left, node.right)):
                        gs = guards(fn, node)
                        valid = any(
                            _is_sentinel_test(g, tested_name) is not None and _is_sentinel_test(g, tested_name) == pol
                            for g, pol in gs
                        )
                        if not valid:
                            ok = False
                            res.fail(
                                construct,
                                f"`{short(node, 70)}` uses the raw result `{tested_name}` arithmetically before it "
                                "is tested against the sentinel",
                                mod,
                                node,
                            )
        if ok:
            res.ok(construct, f"raw result `{tested_name}` tested before use; {len(calls)} call(s) on the pair")


# ---------------------------------------------------------------------------


def base_ext_share(prog: Program) -> RuleResult:
    res = RuleResult(
        "BASE-EXT-SHARE",
        "each base/extended pair runs the same engine; the extended variant offers every node of the species "
        "tree to every object, the base variant only the species of the LCA reconciliation of the same input",
    )
    for modname, engine, base, ext in (
        ("compute.super_reconciliation", "_spfs", "sreconcile_base_spfs", "sreconcile_extended_spfs"),
        ("compute.unordered_super_reconciliation", "_uspfs", "usreconcile_base_uspfs", "usreconcile_extended_uspfs"),
    ):
        mod = prog.module(modname)
        for fname, variant in ((base, "base"), (ext, "extended")):
            fn = prog.func(modname, fname)
            construct = f"{modname}:{fname}/allowed_species"
            calls = [c for c in calls_in(fn, nested=False) if isinstance(c.func, ast.Name) and c.func.id == engine]
            if len(calls) != 1:
                res.fail(construct, f"does not call the shared engine `{engine}` exactly once", mod, fn)
                continue
            call = calls[0]
            # every path of the variant returns that engine run (no shortcut around the search)
            rets = [n for n in walk_no_nested(fn) if isinstance(n, ast.Return)]
            stray = []
            for r in rets:
                val = r.value
                if isinstance(val, ast.Name):
                    got = reaching(fn, val.id, r)
                    val = got if got is not None and not isinstance(got, Opaque) else val
                if val is not call:
                    stray.append(r)
            pconstruct = f"{modname}:{fname}/every-path-runs-engine"
            if stray:
                gs = guards(fn, stray[0])
                cond = " and ".join(("" if p else "not ") + short(t, 70) for t, p in gs) or "unconditionally"
                res.fail(
                    pconstruct,
                    f"`{short(stray[0], 70)}` (taken when {cond}) returns without running `{engine}` over "
                    f"{'every species' if variant == 'extended' else 'the LCA species'}: on that path the {variant} "
                    "variant does not search its own space",
                    mod,
                    stray[0],
                )
            else:
                res.ok(pconstruct, f"{len(rets)} return(s), all of the engine run")
            efn = prog.func(modname, engine)
            eparams = func_params(efn)
            first = kwarg(call, eparams[0], 0)
            if not (isinstance(first, ast.Name) and first.id == func_params(fn)[0]):
                res.fail(construct, f"passes `{short(first)}` instead of its own input to `{engine}`", mod, call)
                continue
            # the species enumerator: the engine parameter annotated as a callable returning tree nodes
            allowed = None
            all_args = efn.args.posonlyargs + efn.args.args + efn.args.kwonlyargs  # type: ignore[attr-defined]
            for idx_p, arg in enumerate(all_args):
                ann = ast.unparse(arg.annotation) if arg.annotation is not None else ""
                if ann.startswith("Callable[") and ann.rstrip("]").endswith("Iterable[TreeNode"):
                    allowed = kwarg(call, arg.arg, idx_p)
            if allowed is None:
                lambdas = [a for a in list(call.args) + [k.value for k in call.keywords] if isinstance(a, ast.Lambda)]
                allowed = lambdas[0] if len(lambdas) == 1 else None
            if not isinstance(allowed, ast.Lambda) or len(allowed.args.args) != 2:
                raise AnalysisError(f"{modname}:{fname}: allowed_species is not a two-parameter lambda")
            p_tree, p_obj = (a.arg for a in allowed.args.args)
            body = allowed.body
            if variant == "extended":
                # must enumerate all nodes of its first parameter
                inner = body
                if isinstance(inner, ast.Call) and dotted(inner.func) in ("list", "tuple", "set", "iter", "sorted") and inner.args:
                    inner = inner.args[0]
                if (
                    isinstance(inner, ast.Call)
                    and isinstance(inner.func, ast.Attribute)
                    and inner.func.attr == "traverse"
                    and dotted(inner.func.value) == p_tree
                ):
                    res.ok(construct, f"all nodes: {short(body)}")
                elif (
                    isinstance(inner, ast.Call)
                    and isinstance(inner.func, ast.Attribute)
                    and dotted(inner.func.value) == p_tree
                    and inner.func.attr
                    in ("iter_leaves", "get_leaves", "get_children", "iter_descendants", "get_descendants", "iter_leaf_names")
                ) or (isinstance(inner, ast.Name) and inner.id == p_tree) or (
                    isinstance(inner, ast.Attribute) and inner.attr == "children" and dotted(inner.value) == p_tree
                ):
                    res.fail(
                        construct,
                        f"the extended variant offers only `{short(body)}` (not every node of the species tree): its "
                        "search space no longer contains the base variant's",
                        mod,
                        allowed,
                    )
                elif (
                    isinstance(inner, ast.Call)
                    and isinstance(inner.func, ast.Attribute)
                    and inner.func.attr in ("traverse", "iter_descendants", "get_descendants", "iter_leaves", "get_leaves")
                    and p_tree not in {n.id for n in ast.walk(inner.func.value) if isinstance(n, ast.Name)}
                ):
                    res.fail(
                        construct,
                        f"the extended variant offers `{short(body)}`: the clade of one particular node, not every node "
                        "of the species tree - placements above that node (and in other lineages) are never tried",
                        mod,
                        allowed,
                    )
                else:
                    raise AnalysisError(f"{modname}:{fname}: species enumerator `{short(body)}` not recognised")
            else:
                # singleton [X.object_species[obj]] with X = reconcile_lca(<own input>)
                elt = None
                if isinstance(body, (ast.List, ast.Tuple, ast.Set)) and len(body.elts) == 1:
                    elt = body.elts[0]
                ok = False
                if isinstance(elt, ast.Subscript) and dotted(elt.slice) == p_obj and isinstance(elt.value, ast.Attribute):
                    if elt.value.attr == "object_species" and isinstance(elt.value.value, ast.Name):
                        src = reaching(fn, elt.value.value.id, call)
                        if (
                            isinstance(src, ast.Call)
                            and dotted(src.func) == "reconcile_lca"
                            and src.args
                            and dotted(src.args[0]) == func_params(fn)[0]
                        ):
                            ok = True
                if ok:
                    res.ok(construct, f"LCA species only: {short(body)}")
                else:
                    res.fail(
                        construct,
                        f"the base variant offers `{short(body)}`, not the single species of the LCA reconciliation "
                        "of its own input",
                        mod,
                        allowed,
                    )
    res.floor(8)
    return res


RULES = {
    "COSTKEYS": costkeys,
    "PRUNE": prune,
    "EVENT-SIG": event_sig,
    "COST-HOMOGENEOUS": cost_homogeneous,
    "COST-MONOTONE": cost_monotone,
    "CLASS-DOMAIN": class_domain,
    "MIRROR": mirror,
    "COMBINE-ORIENT": combine_orient,
    "INFO-KEY": info_key,
    "SIBLING-PAIRING": sibling_pairing,
    "MODEL-TABLE": model_table,
    "LABEL-SIBLINGS": label_siblings,
    "SENTINEL": sentinel,
    "BASE-EXT-SHARE": base_ext_share,
}
