"""The documented event model, written once as data (DESIGN.md section 3, MODEL-TABLE).

Each entry: alternative -> (polynomial text, sentence of the property / README it encodes).
Symbols: c_K unit cost of event K; S_x recursive cost of child x; D_x number of species edges between
the node's species and child x's species; LT_x / LF_x lost runs between child x's synteny and the node's
with end runs counted / free; U_x unordered charge of the edge to child x.
Alternatives: '' (none), 'T=a' / 'T=b' (which child keeps the full, conserved copy).
"""

_S = "S_a + S_b"

MODEL_SPEC = {
    "rec": {
        "SPECIATION": {
            "": (
                f"c_SPECIATION + {_S} + c_FULL_LOSS*(D_a + D_b - 2)",
                "unit cost per speciation; one full loss per species edge skipped on a vertical branch - "
                "each child of a speciation starts one edge below the node, hence D-1 per side",
            ),
        },
        "DUPLICATION": {
            "": (
                f"c_DUPLICATION + {_S} + c_FULL_LOSS*(D_a + D_b)",
                "unit cost per duplication; both copies start in the node's own species, D skipped edges per side",
            ),
        },
        "HORIZONTAL_TRANSFER": {
            "T=a": (
                f"c_HORIZONTAL_TRANSFER + {_S} + c_FULL_LOSS*D_a",
                "unit cost per transfer; only the conserved child stays on a vertical branch",
            ),
            "T=b": (
                f"c_HORIZONTAL_TRANSFER + {_S} + c_FULL_LOSS*D_b",
                "unit cost per transfer; only the conserved child stays on a vertical branch",
            ),
        },
    },
    "ordered": {
        "SPECIATION": {
            "": ("c_SEGMENTAL_LOSS*(LT_a + LT_b)", "segmental losses counted per lost run, ends included, on both children"),
        },
        "DUPLICATION": {
            "T=a": ("c_SEGMENTAL_LOSS*(LT_a + LF_b)", "free partial copy chosen optimally at duplications (b is the partial copy)"),
            "T=b": ("c_SEGMENTAL_LOSS*(LF_a + LT_b)", "free partial copy chosen optimally at duplications (a is the partial copy)"),
        },
        "HORIZONTAL_TRANSFER": {
            "T=a": ("c_SEGMENTAL_LOSS*(LT_a + LF_b)", "partial copy fixed to the transferred child (b)"),
            "T=b": ("c_SEGMENTAL_LOSS*(LF_a + LT_b)", "partial copy fixed to the transferred child (a)"),
        },
    },
    "unordered": {
        "SPECIATION": {"": ("U_a + U_b", "one segmental loss per charged edge on which some parent family is missing")},
        "DUPLICATION": {
            "T=a": ("U_a", "free partial copy chosen optimally at duplications (b is free)"),
            "T=b": ("U_b", "free partial copy chosen optimally at duplications (a is free)"),
        },
        "HORIZONTAL_TRANSFER": {
            "T=a": ("U_a", "partial copy fixed to the transferred child (b)"),
            "T=b": ("U_b", "partial copy fixed to the transferred child (a)"),
        },
    },
}
