"""The documented event model, written once as data (DESIGN.md section 3, MODEL-TABLE).

Each entry: alternative -> (polynomial text, sentence of the property / README it encodes).
Symbols: c_K unit cost of event K; S_x recursive cost of child x; D_x number of species edges between
the node's species and child x's species; LT_x / LF_x lost runs between child x's synteny and the node's
with end runs counted / free; U_x unordered charge of the edge to child x.
Alternatives: '' (none), 'T=a' / 'T=b' (which child keeps the full, conserved copy).
"""

_S = "S_a + S_b"

MODEL_SPEC = {
    "rec": {
        "SPECIATION": {
            "": (
                f"c_SPECIATION + {_S} + c_FULL_LOSS*(D_a + D_b - 2)",
                "unit cost per speciation; one full loss per species edge skipped on a vertical branch - "
                "each child of a speciation starts one edge below the node, hence D-1 per side",
            ),
        },
        "DUPLICATION": {
            "": (
                f"c_DUPLICATION + {_S} + c_FULL_LOSS*(D_a + D_b)",
                "unit cost per duplication; both copies start in the node's own species, D skipped edges per side",
            ),
        },
        "HORIZONTAL_TRANSFER": {
            "T=a": (
                f"c_HORIZONTAL_TRANSFER + {_S} + c_FULL_LOSS*D_a",
                "unit cost per transfer; only the conserved child stays on a vertical branch",
            ),
            "T=b": (
                f"c_HORIZONTAL_TRANSFER + {_S} + c_FULL_LOSS*D_b",
                "unit cost per transfer; only the conserved child stays on a vertical branch",
            ),
        },
    },
    "ordered": {
        "SPECIATION": {
            "": ("c_SEGMENTAL_LOSS*(LT_a + LT_b)", "segmental losses counted per lost run, ends included, on both children"),
        },
        "DUPLICATION": {
            "T=a": ("c_SEGMENTAL_LOSS*(LT_a + LF_b)", "free partial copy chosen optimally at duplications (b is the partial copy)"),
            "T=b": ("c_SEGMENTAL_LOSS*(LF_a + LT_b)", "free partial copy chosen optimally at duplications (a is the partial copy)"),
        },
        "HORIZONTAL_TRANSFER": {
            "T=a": ("c_SEGMENTAL_LOSS*(LT_a + LF_b)", "partial copy fixed to the transferred child (b)"),
            "T=b": ("c_SEGMENTAL_LOSS*(LF_a + LT_b)", "partial copy fixed to the transferred child (a)"),
        },
    },
    "unordered": {
        "SPECIATION": {"": ("U_a + U_b", "one segmental loss per charged edge on which some parent family is missing")},
        "DUPLICATION": {
            "T=a": ("U_a", "free partial copy chosen optimally at duplications (b is free)"),
            "T=b": ("U_b", "free partial copy chosen optimally at duplications (a is free)"),
        },
        "HORIZONTAL_TRANSFER": {
            "T=a": ("U_a", "partial copy fixed to the transferred child (b)"),
            "T=b": ("U_b", "partial copy fixed to the transferred child (a)"),
        },
    },
}


# How the alternatives of a (part, kind) are chosen.  'min': "the free partial copy is chosen optimally at
# duplications"; 'conserved': "fixed to the transferred child at transfers" / "only the conserved child of a
# transfer stays on a vertical branch" - the choice is dictated by the mapping, never by the cheaper outcome.
SELECTOR_SPEC = {
    "rec.SPECIATION": "",
    "rec.DUPLICATION": "",
    "rec.HORIZONTAL_TRANSFER": "conserved",
    "ordered.SPECIATION": "",
    "ordered.DUPLICATION": "min",
    "ordered.HORIZONTAL_TRANSFER": "conserved",
    "unordered.SPECIATION": "",
    "unordered.DUPLICATION": "min",
    "unordered.HORIZONTAL_TRANSFER": "conserved",
}


# ---------------------------------------------------------------------------
# documented classification of an internal object node (EVENT-TABLE)
#
# n = species of the node, l / r = species of its first / second child; `m` is a relmodel.TreeModel.
# Sources: docstrings of NodeEvent in model/reconciliation.py ("transmission of the parent object to both
# children species", "duplication of the parent object in the same genome", "transfer of the parent object
# to a foreign genome", "scenarios that are invalid wrt the evolutionary model") and the statements of
# C01/C04/C06 (a vertical branch only goes down; one child of a transfer leaves the lineage of the node).

EVENT_SENTENCES = {
    "SPECIATION": "both children stay below the node's species, in two different child lineages of it "
    "(the node sits exactly at the LCA of two incomparable species)",
    "DUPLICATION": "both children stay at or below the node's species without being a speciation "
    "(same lineage, or the node sits strictly above the LCA of the children)",
    "HORIZONTAL_TRANSFER": "exactly one child stays at or below the node's species, the other one is in a "
    "species incomparable with it",
    "INVALID": "a child is mapped strictly above the node's species, or no child stays at or below it",
}


def model_event(m, n: int, l: int, r: int) -> str:
    below_l, below_r = m.anc(n, l), m.anc(n, r)
    if below_l and below_r:
        if m.lca(l, r) == n and not m.comparable(l, r):
            return "SPECIATION"
        return "DUPLICATION"
    if below_l != below_r:
        other = r if below_l else l
        if m.comparable(n, other):
            return "INVALID"  # the other child is strictly above the node
        return "HORIZONTAL_TRANSFER"
    return "INVALID"
