"""Rules on utils/dynamic_programming.py (C16, C05)."""
from __future__ import annotations

import ast
from typing import List, Optional, Tuple

from ..boolean import conj_guards, conjuncts, peval, show
from ..core import (
    AnalysisError,
    FuncNode,
    Program,
    RuleResult,
    calls_in,
    dotted,
    short,
    unparse,
    walk_no_nested,
)
from ..flow import consistent, guards, inline, loops_around, paths
from ..resolve import method_def

DP = "utils.dynamic_programming"


def _self_attr(node: ast.AST, attr: str) -> bool:
    return (
        isinstance(node, ast.Attribute)
        and node.attr == attr
        and isinstance(node.value, ast.Name)
        and node.value.id == "self"
    )


def _entry_update(prog: Program):
    mod = prog.module(DP)
    cls = prog.cls(DP, "Entry")
    fn = method_def(cls, "update")
    if fn is None:
        raise AnalysisError("Entry.update not found")
    return mod, cls, fn


def _policy_oracle(fn: ast.AST, at: ast.AST, merge: Optional[str], retention: Optional[str]):
    """Decide comparisons of the entry's policies with enum members."""

    def oracle(expr: ast.AST) -> Optional[bool]:
        if isinstance(expr, ast.Name):
            full = inline(fn, expr, at)
            if full is not expr and not isinstance(full, ast.Name):
                res = peval(full, oracle)
                return res if isinstance(res, bool) else None
            return None
        if isinstance(expr, ast.Compare) and len(expr.ops) == 1 and isinstance(expr.ops[0], (ast.Eq, ast.NotEq, ast.Is, ast.IsNot)):
            left, right = expr.left, expr.comparators[0]
            for a, b in ((left, right), (right, left)):
                name = dotted(b)
                if name and name.startswith("MergePolicy.") and merge is not None and _is_policy_ref(a, "merge"):
                    val = name.split(".", 1)[1] == merge
                    return val if isinstance(expr.ops[0], (ast.Eq, ast.Is)) else not val
                if name and name.startswith("RetentionPolicy.") and retention is not None and _is_policy_ref(a, "retention"):
                    val = name.split(".", 1)[1] == retention
                    return val if isinstance(expr.ops[0], (ast.Eq, ast.Is)) else not val
        return None

    return oracle


def _is_policy_ref(node: ast.AST, which: str) -> bool:
    name = dotted(node) or ""
    return which in name and "policy" in name


# ---------------------------------------------------------------------------


def update_pairing(prog: Program) -> RuleResult:
    res = RuleResult(
        "UPDATE-PAIRING",
        "in Entry.update every path that changes the stored value to a strictly better "
        "one also rewrites the tag set (value and tags are a coupled pair)",
    )
    mod, _cls, fn = _entry_update(prog)
    loops = [n for n in walk_no_nested(fn) if isinstance(n, ast.For)]
    if not loops:
        raise AnalysisError("Entry.update: candidate loop not found")
    body = loops[0].body
    per_stmt = {}
    order = []
    for path in paths(body):
        if not consistent(path.conds):
            continue
        resets = []
        improving = []
        for ev in path.events:
            if isinstance(ev, ast.Assign) and any(_self_attr(t, "_value") for t in ev.targets):
                gs = guards(fn, ev)
                if not any(pol and _is_equal_test(g, fn, ev) for g, pol in gs):
                    improving.append(ev)
            if isinstance(ev, ast.Assign) and any(_self_attr(t, "_infos") for t in ev.targets):
                resets.append(ev)
            if isinstance(ev, ast.Expr) and isinstance(ev.value, ast.Call):
                f = ev.value.func
                if isinstance(f, ast.Attribute) and f.attr == "clear" and _self_attr(f.value, "_infos"):
                    resets.append(ev)
        for ev in improving:
            if id(ev) not in per_stmt:
                per_stmt[id(ev)] = (ev, [], [])
                order.append(id(ev))
            conds = " and ".join(("" if pol else "not ") + "(" + short(c, 60) + ")" for c, pol in path.conds)
            per_stmt[id(ev)][1 if resets else 2].append(conds)
    if not order:
        raise AnalysisError("Entry.update: no improving assignment to self._value recognised")
    for idx, key in enumerate(order):
        ev, good, bad = per_stmt[key]
        construct = f"{DP}:Entry.update/improve#{idx}"
        if bad:
            res.fail(
                construct,
                "the stored value is replaced by a better one but the tags of the old value are kept "
                f"on {len(bad)} path(s), e.g. where {bad[-1]}",
                mod,
                ev,
                paths=bad,
            )
        else:
            res.ok(construct, f"{len(good)} path(s) through `{short(ev)}` all rewrite _infos")
    return res


def _path_key(path) -> str:
    return ",".join(("+" if pol else "-") + short(c, 40) for c, pol in path.conds)


def _is_equal_test(test: ast.AST, fn: ast.AST, at: ast.AST) -> bool:
    """`self._value == <candidate value>` in either order."""
    if isinstance(test, ast.Compare) and len(test.ops) == 1 and isinstance(test.ops[0], ast.Eq):
        sides = [test.left, test.comparators[0]]
        return any(_self_attr(s, "_value") for s in sides)
    return False


# ---------------------------------------------------------------------------


def _infos_writes(fn: ast.AST) -> List[Tuple[str, ast.AST, ast.AST]]:
    """(kind, node, value) for every write to self._infos: add / assign."""
    out = []
    for node in walk_no_nested(fn):
        if isinstance(node, ast.Call) and isinstance(node.func, ast.Attribute) and _self_attr(node.func.value, "_infos"):
            if node.func.attr in ("add", "update", "append", "extend", "__ior__"):
                out.append(("add", node, node.args[0] if node.args else node))
            elif node.func.attr in ("clear",):
                out.append(("clear", node, node))
        if isinstance(node, ast.Assign) and any(_self_attr(t, "_infos") for t in node.targets):
            out.append(("assign", node, node.value))
        if isinstance(node, ast.AugAssign) and _self_attr(node.target, "_infos"):
            out.append(("add", node, node.value))
    return out


def _set_size(value: ast.AST) -> Optional[int]:
    """Number of elements of a set expression when it is syntactically evident."""
    if isinstance(value, ast.Set):
        if any(isinstance(e, ast.Starred) for e in value.elts):
            return None
        return len(value.elts)
    if isinstance(value, ast.Call) and dotted(value.func) in ("set", "frozenset") and not value.args:
        return 0
    if isinstance(value, ast.IfExp):
        a, b = _set_size(value.body), _set_size(value.orelse)
        if a is None or b is None:
            return None
        return max(a, b)
    return None


def retention_guards(prog: Program) -> RuleResult:
    res = RuleResult(
        "RETENTION-GUARDS",
        "with the retention policy fixed, the guards of every write to the tag set evaluate to: "
        "NONE - no tag is ever stored; ANY - a tag is added only to an empty set and assignments "
        "store at most one tag; ALL - adding a tag of an equal-valued candidate is not restricted",
    )
    mod, _cls, fn = _entry_update(prog)
    writes = _infos_writes(fn)
    if not any(kind == "add" for kind, _n, _v in writes) or not any(kind == "assign" for kind, _n, _v in writes):
        raise AnalysisError("Entry.update: expected one tag-adding and one tag-replacing write to self._infos")
    for idx, (kind, node, value) in enumerate(writes):
        gs = guards(fn, node)
        tag = f"{kind}#{idx}:{short(node, 50)}"
        size = _set_size(value) if kind == "assign" else None
        base_value = value
        for policy in ("NONE", "ANY", "ALL"):
            oracle = _policy_oracle(fn, node, None, policy)
            residual = conj_guards(gs, oracle)
            value = base_value
            if kind == "assign":
                # a conditional expression on the policy selects its branch
                for _ in range(3):
                    if isinstance(value, ast.IfExp):
                        picked = peval(value.test, oracle)
                        if isinstance(picked, bool):
                            value = value.body if picked else value.orelse
                            continue
                        # unknown test (e.g. `info`): the guard joins the residual for the tag-storing branch
                        sizes = (_set_size(value.body), _set_size(value.orelse))
                        if sizes == (1, 0) or sizes == (0, 1):
                            extra = (value.test, sizes == (1, 0))
                            residual = conj_guards(list(gs) + [extra], oracle)
                            value = value.body if sizes == (1, 0) else value.orelse
                    break
                size = _set_size(value)
            construct = f"{DP}:Entry.update/{kind}[{short(base_value, 40)}]/{policy}"
            stores_tag = kind == "add" or (kind == "assign" and size != 0)
            if policy == "NONE":
                if stores_tag and residual is not False:
                    res.fail(
                        construct,
                        f"under NONE the write `{short(node)}` is reachable (guard reduces to {show(residual)})",
                        mod,
                        node,
                    )
                else:
                    res.ok(construct, f"guard reduces to {show(residual)}")
            elif policy == "ANY":
                if kind == "add":
                    cj = conjuncts(residual)
                    empty_test = any(_is_empty_test(c) for c in cj)
                    if residual is False or empty_test:
                        res.ok(construct, f"guard reduces to {show(residual)}")
                    else:
                        res.fail(
                            construct,
                            f"under ANY the tag set can grow beyond one tag: `{short(node)}` is guarded only by "
                            f"{show(residual)} (no emptiness test of the tag set)",
                            mod,
                            node,
                        )
                elif kind == "assign":
                    if size is None or size > 1:
                        res.fail(
                            construct,
                            f"under ANY the assignment `{short(node)}` may store more than one tag",
                            mod,
                            node,
                        )
                    else:
                        res.ok(construct, f"stores {size} tag(s); guard {show(residual)}")
                else:
                    res.ok(construct, "clear")
            else:  # ALL
                if kind == "add":
                    cj = conjuncts(residual)
                    if residual is False:
                        res.fail(
                            construct,
                            f"under ALL the tag-adding write `{short(node)}` is unreachable",
                            mod,
                            node,
                        )
                    elif any(_is_empty_test(c) for c in cj):
                        res.fail(
                            construct,
                            f"under ALL a tag of an equal-valued candidate is only kept when the set is empty "
                            f"(guard reduces to {show(residual)})",
                            mod,
                            node,
                        )
                    elif not any(pol and _is_equal_test(g, fn, node) for g, pol in gs):
                        res.fail(
                            construct,
                            f"`{short(node)}` adds a tag without an equality test of the stored value",
                            mod,
                            node,
                        )
                    else:
                        res.ok(construct, f"guard reduces to {show(residual)}")
                elif kind == "assign" and size != 0:
                    if residual is False:
                        res.fail(construct, f"under ALL the write `{short(node)}` is unreachable", mod, node)
                    else:
                        res.ok(construct, f"guard reduces to {show(residual)}")
                else:
                    res.ok(construct, "reset")
    res.floor(6)
    return res


def _is_empty_test(node: ast.AST) -> bool:
    """`not self._infos` / `len(self._infos) == 0`."""
    if isinstance(node, ast.UnaryOp) and isinstance(node.op, ast.Not) and _self_attr(node.operand, "_infos"):
        return True
    if isinstance(node, ast.Compare) and len(node.ops) == 1:
        left, right = node.left, node.comparators[0]
        if (
            isinstance(left, ast.Call)
            and dotted(left.func) == "len"
            and left.args
            and _self_attr(left.args[0], "_infos")
            and isinstance(right, ast.Constant)
            and right.value == 0
            and isinstance(node.ops[0], ast.Eq)
        ):
            return True
    return False


# ---------------------------------------------------------------------------


def _inf_sign(node: ast.AST) -> Optional[int]:
    if isinstance(node, ast.Name) and node.id == "inf":
        return 1
    if isinstance(node, ast.UnaryOp) and isinstance(node.op, ast.USub):
        inner = _inf_sign(node.operand)
        return -inner if inner is not None else None
    return None


def _cmp_direction(test: ast.AST) -> Optional[Tuple[str, bool]]:
    """('stored>cand' | 'stored<cand', strict) for a comparison of self._value with something."""
    if not (isinstance(test, ast.Compare) and len(test.ops) == 1):
        return None
    left, right, op = test.left, test.comparators[0], test.ops[0]
    if _self_attr(right, "_value") and not _self_attr(left, "_value"):
        flip = {ast.Gt: ast.Lt, ast.Lt: ast.Gt, ast.GtE: ast.LtE, ast.LtE: ast.GtE}
        if type(op) not in flip:
            return None
        op = flip[type(op)]()
        left, right = right, left
    if not _self_attr(left, "_value"):
        return None
    if isinstance(op, ast.Gt):
        return "stored>cand", True
    if isinstance(op, ast.GtE):
        return "stored>cand", False
    if isinstance(op, ast.Lt):
        return "stored<cand", True
    if isinstance(op, ast.LtE):
        return "stored<cand", False
    return None


def polarity(prog: Program) -> RuleResult:
    res = RuleResult(
        "POLARITY",
        "default value and comparison direction agree with the merge policy everywhere: "
        "MIN <-> +inf <-> replace when stored > candidate (strictly); MAX <-> -inf <-> stored < candidate",
    )
    mod = prog.module(DP)
    entry = prog.cls(DP, "Entry")
    proxy = prog.cls(DP, "EntryProxy")

    # (a) Entry.__init__: the default-initialised value
    init = method_def(entry, "__init__")
    if init is None:
        raise AnalysisError("Entry.__init__ not found")
    defaults = []
    for node in walk_no_nested(init):
        if isinstance(node, ast.Assign) and any(_self_attr(t, "_value") for t in node.targets):
            if any(_inf_sign(n) is not None for n in ast.walk(node.value)):
                defaults.append(node)
    if not defaults:
        raise AnalysisError("Entry.__init__: default value (inf/-inf) not found")
    for node in defaults:
        for policy, want in (("MIN", 1), ("MAX", -1)):
            got = _eval_inf(node.value, policy, policy_param_names=("value", "merge_policy"))
            construct = f"{DP}:Entry.__init__/default/{policy}"
            if got == want:
                res.ok(construct, f"{short(node.value)} -> {'+' if want > 0 else '-'}inf")
            else:
                res.fail(
                    construct,
                    f"the default value for {policy} is {short(node.value)} which is not "
                    f"{'+' if want > 0 else '-'}inf under that policy",
                    mod,
                    node,
                )

    # (b) EntryProxy.value on a missing cell
    pval = method_def(proxy, "value")
    if pval is None:
        raise AnalysisError("EntryProxy.value not found")
    rets = []
    for n in walk_no_nested(pval):
        if isinstance(n, ast.Return) and n.value is not None:
            gs = guards(pval, n)
            if any(_none_test(g, nm) is not None and _none_test(g, nm) == pol for g, pol in gs for nm in _real_names(pval)):
                rets.append(n)
    if not rets:
        raise AnalysisError("EntryProxy.value: return on the missing-cell path not found")
    for policy, want in (("MIN", 1), ("MAX", -1)):
        # the return(s) taken under this policy: a guard on the merge policy that is false under it rules a return out
        # (`return inf if p == MIN else -inf` and `if p == MIN: return inf; return -inf` are the same thing)
        taken = []
        for node in rets:
            alive = True
            for g, pol in guards(pval, node):
                verdict = _policy_guard(g, policy, ("merge_policy",))
                if verdict is not None and verdict != pol:
                    alive = False
            if alive:
                taken.append(node)
        if not taken:
            raise AnalysisError(f"EntryProxy.value: no return on the missing-cell path under {policy}")
        for node in taken:
            got = _eval_inf(node.value, policy, policy_param_names=("merge_policy",))
            construct = f"{DP}:EntryProxy.value/missing/{policy}"
            if True:
                if got == want:
                    res.ok(construct, f"{short(node.value)}")
                else:
                    res.fail(
                        construct,
                        f"a cell never written reads as `{short(node.value)}` which is not the worst value under {policy}",
                        mod,
                        node,
                    )

    # (c) Entry.update: the replacement test
    _m, _c, upd = _entry_update(prog)
    improving = []
    for node in walk_no_nested(upd):
        if isinstance(node, ast.Assign) and any(_self_attr(t, "_value") for t in node.targets):
            gs = guards(upd, node)
            if not any(pol and _is_equal_test(g, upd, node) for g, pol in gs):
                improving.append((node, gs))
    if not improving:
        raise AnalysisError("Entry.update: improving assignment not found")
    for node, gs in improving:
        for policy, want in (("MIN", "stored>cand"), ("MAX", "stored<cand")):
            oracle = _policy_oracle(upd, node, policy, None)
            residual = conj_guards(gs, oracle)
            construct = f"{DP}:Entry.update/replace-test/{policy}"
            dirs = [d for d in (_cmp_direction(c) for c in conjuncts(residual)) if d is not None]
            if residual is False:
                res.fail(construct, f"under {policy} a better candidate never replaces the stored value", mod, node)
            elif len(dirs) != 1:
                res.fail(
                    construct,
                    f"under {policy} the replacement guard reduces to {show(residual)}: expected exactly one "
                    "comparison of the stored value with the candidate",
                    mod,
                    node,
                )
            elif dirs[0] != (want, True):
                res.fail(
                    construct,
                    f"under {policy} the stored value is replaced when {show(residual)} "
                    f"(expected strict `{want}`)",
                    mod,
                    node,
                )
            else:
                res.ok(construct, f"replace when {show(residual)}")
    # (d) explicit initial values given to Entry(...) inside the module agree with the merge policy passed along
    n_ctor = 0
    for qual, fn in prog.defs(DP).items():
        if not isinstance(fn, (ast.FunctionDef, ast.AsyncFunctionDef)):
            continue
        for call in walk_no_nested(fn):
            if not (isinstance(call, ast.Call) and dotted(call.func) == "Entry"):
                continue
            n_ctor += 1
            construct = f"{DP}:{qual}/Entry-construction#{n_ctor}"
            args = list(call.args)
            kws = {k.arg: k.value for k in call.keywords if k.arg}
            merge = kws.get("merge_policy", args[2] if len(args) > 2 else None)
            value = kws.get("value", args[0] if args else None)
            first_is_policy = value is not None and (
                (dotted(value) or "").startswith("MergePolicy.") or (dotted(value) or "").endswith("merge_policy")
            )
            if len(args) + len(kws) == 2 and merge is None:
                if first_is_policy:
                    res.ok(construct, f"default-initialised from the policies: {short(call, 70)}")
                else:
                    res.fail(construct, f"`{short(call, 70)}`: two-argument form whose first argument is not a merge policy", mod, call)
                continue
            if value is None:
                raise AnalysisError(f"{construct}: `{short(call)}` not understood")
            signs = {pol: _eval_inf(value, pol, policy_param_names=("merge_policy", "_merge_policy")) for pol in ("MIN", "MAX")}
            merge_const = (dotted(merge) or "") if merge is not None else "MergePolicy.MIN"  # default of the constructor
            if merge_const.startswith("MergePolicy."):
                pol = merge_const.split(".", 1)[1]
                want = 1 if pol == "MIN" else -1
                if signs[pol] is None or signs[pol] == want:
                    res.ok(construct, f"{short(call, 70)}")
                else:
                    res.fail(construct, f"`{short(call, 70)}` starts a {pol} entry from the best possible value instead of the worst", mod, call)
                continue
            bad = [pol for pol, want in (("MIN", 1), ("MAX", -1)) if signs[pol] is not None and signs[pol] != want]
            if bad:
                res.fail(
                    construct,
                    f"`{short(call, 80)}` passes the merge policy on but starts from `{short(value)}` whatever the policy: "
                    f"under {bad[0]} no candidate can ever improve on it",
                    mod,
                    call,
                )
            else:
                res.ok(construct, f"{short(call, 70)}")
    if n_ctor < 3:
        raise AnalysisError(f"POLARITY: only {n_ctor} Entry(...) constructions found in the module")
    res.floor(9)
    return res


def _policy_guard(test: ast.AST, policy: str, policy_param_names) -> Optional[bool]:
    """truth of `<x>.merge_policy == MergePolicy.K` (or !=) under the given policy; None for any other test"""
    if isinstance(test, ast.Compare) and len(test.ops) == 1 and isinstance(test.ops[0], (ast.Eq, ast.Is, ast.NotEq, ast.IsNot)):
        for a, b in ((test.left, test.comparators[0]), (test.comparators[0], test.left)):
            name = dotted(b)
            if name and name.startswith("MergePolicy."):
                ref = dotted(a) or ""
                if any(ref.endswith(p) for p in policy_param_names):
                    val = name.split(".", 1)[1] == policy
                    return val if isinstance(test.ops[0], (ast.Eq, ast.Is)) else not val
    return None


def _eval_inf(expr: ast.AST, policy: str, policy_param_names) -> Optional[int]:
    """Sign of inf obtained from `expr` when the merge policy is `policy`."""

    def oracle(node: ast.AST) -> Optional[bool]:
        if isinstance(node, ast.Compare) and len(node.ops) == 1 and isinstance(node.ops[0], (ast.Eq, ast.Is, ast.NotEq, ast.IsNot)):
            for a, b in ((node.left, node.comparators[0]), (node.comparators[0], node.left)):
                name = dotted(b)
                if name and name.startswith("MergePolicy."):
                    ref = dotted(a) or ""
                    if any(ref.endswith(p) for p in policy_param_names):
                        val = name.split(".", 1)[1] == policy
                        return val if isinstance(node.ops[0], (ast.Eq, ast.Is)) else not val
        return None

    cur = expr
    for _ in range(4):
        if isinstance(cur, ast.IfExp):
            test = peval(cur.test, oracle)
            if not isinstance(test, bool):
                return None
            cur = cur.body if test else cur.orelse
        else:
            break
    return _inf_sign(cur)


# ---------------------------------------------------------------------------


def proxy_none(prog: Program) -> RuleResult:
    res = RuleResult(
        "PROXY-NONE",
        "every use of the possibly-missing real entry in EntryProxy is dominated by a None test, "
        "and the missing-cell answers are: infinite, no tags, no tag, length 0",
    )
    mod = prog.module(DP)
    proxy = prog.cls(DP, "EntryProxy")
    expected_default = {
        "is_infinite": lambda v: isinstance(v, ast.Constant) and v.value is True,
        "infos": lambda v: _set_size(v) == 0,
        "info": lambda v: isinstance(v, ast.Constant) and v.value is None,
        "__len__": lambda v: isinstance(v, ast.Constant) and v.value == 0,
    }
    n_methods = 0
    for stmt in proxy.body:
        if not isinstance(stmt, FuncNode):
            continue
        real_names = set()
        for node in walk_no_nested(stmt):
            if (
                isinstance(node, ast.Assign)
                and isinstance(node.value, ast.Call)
                and isinstance(node.value.func, ast.Attribute)
                and node.value.func.attr == "_get_real"
                and len(node.targets) == 1
                and isinstance(node.targets[0], ast.Name)
            ):
                real_names.add(node.targets[0].id)
            # direct use self._get_real().x is never guarded
            if (
                isinstance(node, ast.Attribute)
                and isinstance(node.value, ast.Call)
                and isinstance(node.value.func, ast.Attribute)
                and node.value.func.attr == "_get_real"
            ):
                res.fail(
                    f"{DP}:EntryProxy.{stmt.name}/direct-use",
                    f"`{short(node)}` dereferences the possibly-missing entry without a None test",
                    mod,
                    node,
                )
        if not real_names:
            continue
        n_methods += 1
        for node in walk_no_nested(stmt):
            if isinstance(node, ast.Attribute) and isinstance(node.value, ast.Name) and node.value.id in real_names:
                gs = guards(stmt, node)
                ok = any(_none_test(g, node.value.id) == (not pol) for g, pol in gs if _none_test(g, node.value.id) is not None)
                construct = f"{DP}:EntryProxy.{stmt.name}/use[{node.attr}]"
                if ok:
                    res.ok(construct, f"`{short(node)}` dominated by a None test")
                else:
                    res.fail(
                        construct,
                        f"`{short(node)}` is evaluated on a path where the real entry may be None",
                        mod,
                        node,
                    )
        # default answers on the None path
        if stmt.name in expected_default:
            found = False
            for node in walk_no_nested(stmt):
                if isinstance(node, ast.Return) and node.value is not None:
                    gs = guards(stmt, node)
                    on_none = any(
                        _none_test(g, n) is not None and _none_test(g, n) == pol
                        for g, pol in gs
                        for n in real_names
                    )
                    if on_none:
                        found = True
                        construct = f"{DP}:EntryProxy.{stmt.name}/missing-cell-answer"
                        if expected_default[stmt.name](node.value):
                            res.ok(construct, f"returns {short(node.value)}")
                        else:
                            res.fail(
                                construct,
                                f"a cell never written answers {stmt.name}() with {short(node.value)}",
                                mod,
                                node,
                            )
            if not found:
                res.fail(
                    f"{DP}:EntryProxy.{stmt.name}/missing-cell-answer",
                    f"EntryProxy.{stmt.name} has no answer for a cell that was never written (no `is None` branch)",
                    mod,
                    stmt,
                )
    if n_methods < 5:
        raise AnalysisError(f"PROXY-NONE: only {n_methods} EntryProxy methods use _get_real()")
    res.floor(8)
    return res


def _real_names(fn: ast.AST) -> List[str]:
    out = []
    for node in walk_no_nested(fn):
        if (
            isinstance(node, ast.Assign)
            and isinstance(node.value, ast.Call)
            and isinstance(node.value.func, ast.Attribute)
            and node.value.func.attr == "_get_real"
            and isinstance(node.targets[0], ast.Name)
        ):
            out.append(node.targets[0].id)
    return out


def _none_test(test: ast.AST, name: str) -> Optional[bool]:
    """True if `test` is `<name> is None`, False if `<name> is not None`."""
    if isinstance(test, ast.Compare) and len(test.ops) == 1 and isinstance(test.left, ast.Name) and test.left.id == name:
        right = test.comparators[0]
        if isinstance(right, ast.Constant) and right.value is None:
            if isinstance(test.ops[0], (ast.Is, ast.Eq)):
                return True
            if isinstance(test.ops[0], (ast.IsNot, ast.NotEq)):
                return False
    if isinstance(test, ast.UnaryOp) and isinstance(test.op, ast.Not) and isinstance(test.operand, ast.Name) and test.operand.id == name:
        return None  # truthiness of an Entry is its length: not a None test
    return None


# ---------------------------------------------------------------------------


def combine_product(prog: Program) -> RuleResult:
    res = RuleResult(
        "COMBINE-PRODUCT",
        "Entry.combine offers the combinator every pair (own tag, other tag) with the two optimal values, "
        "in that order, and collects the results in an entry with the receiver's policies",
    )
    mod = prog.module(DP)
    entry = prog.cls(DP, "Entry")
    fn = method_def(entry, "combine")
    if fn is None:
        raise AnalysisError("Entry.combine not found")
    params = [a.arg for a in fn.args.args]
    if len(params) < 3:
        raise AnalysisError("Entry.combine: unexpected signature")
    other, comb = params[1], params[2]
    base = f"{DP}:Entry.combine"

    # result entry
    result_name = None
    for node in walk_no_nested(fn):
        if isinstance(node, ast.Assign) and isinstance(node.value, ast.Call) and dotted(node.value.func) == "Entry":
            result_name = node.targets[0].id if isinstance(node.targets[0], ast.Name) else None
            args = node.value.args
            okp = (
                len(args) >= 2
                and _self_attr(args[0], "_merge_policy")
                and _self_attr(args[1], "_retention_policy")
            ) or (
                len(args) == 4 and _self_attr(args[2], "_merge_policy") and _self_attr(args[3], "_retention_policy")
            )
            if okp:
                res.ok(f"{base}/result-policies", short(node.value))
            else:
                res.fail(
                    f"{base}/result-policies",
                    f"the combined entry is built as `{short(node.value)}`, not with the receiver's policies",
                    mod,
                    node,
                )
    if result_name is None:
        raise AnalysisError("Entry.combine: result entry construction not recognised")

    loops = [n for n in walk_no_nested(fn) if isinstance(n, ast.For)]
    if len(loops) != 1:
        raise AnalysisError("Entry.combine: expected exactly one loop")
    loop = loops[0]
    it = loop.iter
    ok_iter = (
        isinstance(it, ast.Call)
        and dotted(it.func) in ("product", "itertools.product")
        and len(it.args) == 2
        and _own_infos(it.args[0])
        and _other_infos(it.args[1], other)
        and isinstance(loop.target, ast.Tuple)
        and len(loop.target.elts) == 2
        and all(isinstance(e, ast.Name) for e in loop.target.elts)
    )
    if not ok_iter:
        res.fail(
            f"{base}/pairs",
            f"the loop iterates `{short(it)}`, not the product of the receiver's tags with the other entry's tags",
            mod,
            loop,
        )
        return res
    res.ok(f"{base}/pairs", short(it))
    ours, theirs = (e.id for e in loop.target.elts)  # type: ignore[union-attr]

    for node in walk_no_nested(loop):
        if isinstance(node, (ast.Break, ast.Return, ast.Continue)):
            res.fail(f"{base}/no-early-exit", f"`{short(node)}` inside the pair loop drops pairs", mod, node)
    comb_calls = [c for c in calls_in(loop, nested=False) if isinstance(c.func, ast.Name) and c.func.id == comb]
    if len(comb_calls) != 1:
        res.fail(f"{base}/combinator-call", "the combinator is not called exactly once per pair", mod, loop)
        return res
    call = comb_calls[0]
    good = len(call.args) == 2 and not call.keywords
    if good:
        a, b = call.args
        good = (
            _candidate_of(a, own=True, tag=ours, other=other)
            and _candidate_of(b, own=False, tag=theirs, other=other)
        )
    if good:
        res.ok(f"{base}/combinator-args", short(call))
    else:
        res.fail(
            f"{base}/combinator-args",
            f"`{short(call)}` does not pass (own value, own tag) then (other value, other tag)",
            mod,
            call,
        )
    # result.update(combinator(...)) and return result
    upd = [
        c
        for c in calls_in(loop, nested=False)
        if isinstance(c.func, ast.Attribute)
        and c.func.attr == "update"
        and isinstance(c.func.value, ast.Name)
        and c.func.value.id == result_name
        and any(n is call for a in c.args for n in ast.walk(a))
    ]
    if upd:
        res.ok(f"{base}/collect", short(upd[0], 80))
    else:
        res.fail(f"{base}/collect", "the combinator result is not offered to the result entry", mod, loop)
    rets = [n for n in walk_no_nested(fn) if isinstance(n, ast.Return)]
    if len(rets) == 1 and isinstance(rets[0].value, ast.Name) and rets[0].value.id == result_name and not loops_around(fn, rets[0]):
        res.ok(f"{base}/return", "returns the result entry after the loop")
    else:
        res.fail(f"{base}/return", "the result entry is not what is returned after the loop", mod, fn)

    # EntryProxy.combine forwards in the same order
    proxy = prog.cls(DP, "EntryProxy")
    pfn = method_def(proxy, "combine")
    if pfn is None:
        raise AnalysisError("EntryProxy.combine not found")
    pparams = [a.arg for a in pfn.args.args]
    fwd = [
        c
        for c in calls_in(pfn, nested=False)
        if isinstance(c.func, ast.Attribute) and c.func.attr == "combine"
    ]
    okf = (
        len(fwd) == 1
        and [dotted(a) for a in fwd[0].args] == pparams[1:3]
        and not fwd[0].keywords
    )
    if okf:
        res.ok(f"{DP}:EntryProxy.combine/forward", short(fwd[0]))
    else:
        res.fail(
            f"{DP}:EntryProxy.combine/forward",
            "EntryProxy.combine does not forward (other, combinator) unchanged to the real entry",
            mod,
            pfn,
        )
    return res


def _own_infos(node: ast.AST) -> bool:
    if _self_attr(node, "_infos"):
        return True
    return (
        isinstance(node, ast.Call)
        and isinstance(node.func, ast.Attribute)
        and node.func.attr == "infos"
        and isinstance(node.func.value, ast.Name)
        and node.func.value.id == "self"
    )


def _other_infos(node: ast.AST, other: str) -> bool:
    return (
        isinstance(node, ast.Call)
        and isinstance(node.func, ast.Attribute)
        and node.func.attr == "infos"
        and isinstance(node.func.value, ast.Name)
        and node.func.value.id == other
    )


def _candidate_of(node: ast.AST, own: bool, tag: str, other: str) -> bool:
    if not (isinstance(node, ast.Call) and dotted(node.func) == "Candidate"):
        return False
    value = node.args[0] if node.args else None
    info = node.args[1] if len(node.args) > 1 else None
    for kw in node.keywords:
        if kw.arg == "value":
            value = kw.value
        elif kw.arg == "info":
            info = kw.value
    if value is None or info is None:
        return False
    if not (isinstance(info, ast.Name) and info.id == tag):
        return False
    if own:
        return _self_attr(value, "_value") or (
            isinstance(value, ast.Call)
            and isinstance(value.func, ast.Attribute)
            and value.func.attr == "value"
            and dotted(value.func.value) == "self"
        )
    return (
        isinstance(value, ast.Call)
        and isinstance(value.func, ast.Attribute)
        and value.func.attr == "value"
        and dotted(value.func.value) == other
    )



# ---------------------------------------------------------------------------


def table_fresh_cells(prog: Program) -> RuleResult:
    res = RuleResult(
        "TABLE-FRESH-CELLS",
        "every slot of a list dimension and every missing key of a dict dimension of a table gets its own, "
        "freshly generated sub-table (a recursive call evaluated per slot), never a copy of a shared template: "
        "a shallow copy shares the inner containers, so writing one cell writes its siblings and a cell never "
        "written no longer reads as infinitely bad with no tags",
    )
    mod = prog.module(DP)
    fn = prog.func(DP, "_generate_table")
    n = 0
    for ret in walk_no_nested(fn):
        if not (isinstance(ret, ast.Return) and ret.value is not None):
            continue
        val = ret.value
        construct = None
        elt = None
        if isinstance(val, (ast.ListComp, ast.GeneratorExp)):
            elt, construct = val.elt, f"{DP}:_generate_table/list-slots"
        elif isinstance(val, ast.Call) and dotted(val.func) in ("list", "tuple") and val.args and isinstance(val.args[0], (ast.ListComp, ast.GeneratorExp)):
            elt, construct = val.args[0].elt, f"{DP}:_generate_table/list-slots"
        elif isinstance(val, ast.Call) and (dotted(val.func) or "").endswith("defaultdict") and val.args:
            fac = val.args[0]
            elt = fac.body if isinstance(fac, ast.Lambda) else fac
            construct = f"{DP}:_generate_table/dict-default"
        elif isinstance(val, ast.BinOp) and isinstance(val.op, ast.Mult) and isinstance(val.left, (ast.List,)):
            res.fail(f"{DP}:_generate_table/list-slots", f"`{short(val)}` repeats one object in every slot", mod, ret)
            n += 1
            continue
        if elt is None:
            continue
        n += 1
        fresh = isinstance(elt, ast.Call) and dotted(elt.func) == "_generate_table"
        if fresh:
            res.ok(construct, f"per slot: {short(elt)}")
        else:
            res.fail(
                construct,
                f"each slot is `{short(elt)}`, not a fresh `_generate_table(...)`: the slots share the containers "
                "of one template below the first level",
                mod,
                ret,
            )
    if n < 2:
        raise AnalysisError(f"TABLE-FRESH-CELLS: only {n} dimension constructors recognised in _generate_table")
    return res


def entry_owns_tags(prog: Program) -> RuleResult:
    res = RuleResult(
        "ENTRY-OWNS-TAGS",
        "an entry owns its tag set: every assignment to `self._infos` in Entry binds a freshly built set (`set(...)`, a "
        "set display or comprehension), never an object received from outside - update() adds to the set in place, "
        "so a shared set would leak tags of one entry into another",
    )
    mod = prog.module(DP)
    entry = prog.cls(DP, "Entry")
    n = 0
    for meth in entry.body:
        if not isinstance(meth, (ast.FunctionDef, ast.AsyncFunctionDef)):
            continue
        for node in walk_no_nested(meth):
            if isinstance(node, ast.Assign) and any(_self_attr(t, "_infos") for t in node.targets):
                n += 1
                construct = f"{DP}:Entry.{meth.name}/tags-assignment#{n}"
                val = node.value
                alts = [val]
                if isinstance(val, ast.IfExp):
                    alts = [val.body, val.orelse]
                stale = [
                    a for a in alts
                    if not (isinstance(a, (ast.Set, ast.SetComp)) or (isinstance(a, ast.Call) and dotted(a.func) in ("set", "frozenset")))
                ]
                if stale:
                    res.fail(construct, f"`{short(node)}` can bind `{short(stale[0])}`, an object the entry does not own", mod, node)
                else:
                    res.ok(construct, short(node))
    res.floor(3)
    return res

RULES = {
    "ENTRY-OWNS-TAGS": entry_owns_tags,
    "TABLE-FRESH-CELLS": table_fresh_cells,
    "UPDATE-PAIRING": update_pairing,
    "RETENTION-GUARDS": retention_guards,
    "POLARITY": polarity,
    "PROXY-NONE": proxy_none,
    "COMBINE-PRODUCT": combine_product,
}
