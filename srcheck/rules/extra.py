"""Rules derived from the triage of the generic mutation sweep and of the fourth batch of seeded changes.

KEY-GUARD            a key read on the branch where the same key was just found absent (contradiction rule)
COST-KEY-RESOLUTION  decision table of the event-key normalisation of ReconciliationInput._from_dict
BINARIZE-GUARD       the "already binary" shortcut of ReconciliationInput.binarize needs both trees binary and
                     pairs each refinement with the tree it refines
OUTPUT-FLAG          the `ordered` flag of every labelled output is the model of the module that builds it
ENTRY-CTOR           decision table of Entry.__init__ (both call conventions)
ENUM-NO-TRUNCATION   enumerators never stop early and never filter what they accumulate
HASH-IDENTITY        hash() values are never used as identities
COST-GUARD           unit costs enter the recurrences through arithmetic only, never through control flow
COPY-FAITHFUL        tree copies use a lossless method
WIDTH-VERBATIM       wrap widths reach the wrapping routine unchanged
LEAF-MAP-DOMAIN      the leaf mapping is never used where the total mapping is needed
TOPO-VERDICT         toposort answers None exactly on the incomplete branch
ROOT-ORDER-SOURCE    a prescribed root order is used verbatim
"""
from __future__ import annotations

import ast
import re
from typing import Dict, List, Optional, Sequence, Set, Tuple

from ..boolean import peval
from ..cases import run_cases, subst
from ..core import (
    AnalysisError,
    FuncNode,
    Module,
    Program,
    RuleResult,
    calls_in,
    dotted,
    func_params,
    kwarg,
    names_in,
    short,
    unparse,
    walk_no_nested,
)
from ..flow import Opaque, _stmt_chain, always_exits, conditions, dealias, guards, inline, loops_around, reaching
from ..resolve import enum_members, method_def, resolve_callee

MODEL = "model.reconciliation"
DP = "utils.dynamic_programming"
TOPO = "utils.toposort"
TREES = "utils.trees"


def _modkey(mod: Module) -> str:
    return mod.name.split(".", 1)[1] if "." in mod.name else mod.name


# ---------------------------------------------------------------------------
# KEY-GUARD


def _membership_facts(test: ast.AST, pol: bool) -> List[Tuple[str, str, bool]]:
    """(key text, container text, present?) facts that hold when `test` evaluates to `pol`."""
    if isinstance(test, ast.UnaryOp) and isinstance(test.op, ast.Not):
        return _membership_facts(test.operand, not pol)
    if isinstance(test, ast.BoolOp):
        if isinstance(test.op, ast.And) and pol or isinstance(test.op, ast.Or) and not pol:
            out: List[Tuple[str, str, bool]] = []
            for v in test.values:
                out.extend(_membership_facts(v, pol))
            return out
        return []
    if isinstance(test, ast.Compare) and len(test.ops) == 1 and isinstance(test.ops[0], (ast.In, ast.NotIn)):
        cont = test.comparators[0]
        if not isinstance(cont, (ast.Name, ast.Attribute)):
            return []
        present = isinstance(test.ops[0], ast.In) == pol
        return [(unparse(test.left), unparse(cont), present)]
    return []


def _first_unguarded_read(stmts: Sequence[ast.stmt], key: str, cont: str) -> Optional[ast.AST]:
    """First `cont[key]` read (or `del cont[key]`) in `stmts` that no store into cont[key] / rebinding of cont /
    bulk update of cont precedes (statement order, nested blocks included, conservative on stores)."""
    for st in stmts:
        # loads in this statement, stores in this statement
        loads: List[ast.AST] = []
        stored = False
        for node in ast.walk(st):
            if isinstance(node, FuncNode + (ast.Lambda,)):
                continue
            if isinstance(node, ast.Subscript) and unparse(node.value) == cont and unparse(node.slice) == key:
                if isinstance(node.ctx, ast.Store):
                    stored = True
                else:
                    loads.append(node)
            elif isinstance(node, ast.Call) and isinstance(node.func, ast.Attribute) and unparse(node.func.value) == cont and node.func.attr in ("setdefault", "update", "__setitem__"):
                stored = True
            elif isinstance(node, (ast.Name, ast.Attribute)) and isinstance(getattr(node, "ctx", None), ast.Store) and unparse(node) == cont:
                stored = True
        if isinstance(st, ast.Assign) and stored and not any(
            isinstance(n, ast.Subscript) and isinstance(n.ctx, ast.Load) and unparse(n.value) == cont and unparse(n.slice) == key for n in ast.walk(st.value)
        ):
            return None
        if loads:
            # an augmented assignment `cont[key] += x` reads first
            loads.sort(key=lambda n: (n.lineno, n.col_offset))
            return loads[0]
        if stored:
            return None
        # a nested membership test on the same key re-establishes knowledge
        if isinstance(st, (ast.If, ast.While)) and any(k == key and c == cont for k, c, _p in _membership_facts(st.test, True) + _membership_facts(st.test, False)):
            return None
    return None


def key_guard(prog: Program) -> RuleResult:
    res = RuleResult(
        "KEY-GUARD",
        "contradiction rule: on the branch where `key in mapping` has just been found false, `mapping[key]` is not "
        "read before it is stored (a guard with the wrong polarity turns the optional key into a KeyError and the "
        "present key into the default)",
    )
    n = 0
    for mod, qual, fn in prog.functions():
        key_mod = _modkey(mod)
        for node in walk_no_nested(fn):
            arms: List[Tuple[ast.AST, bool, Sequence[ast.stmt]]] = []
            if isinstance(node, ast.If):
                arms = [(node.test, True, node.body), (node.test, False, node.orelse)]
                # `if present: ...exit` makes what follows the absent context and vice versa
                parent_block = _block_of(fn, node)
                if parent_block is not None:
                    block, idx = parent_block
                    rest = block[idx + 1:]
                    if node.body and always_exits(node.body) and not node.orelse:
                        arms.append((node.test, False, rest))
            elif isinstance(node, ast.IfExp):
                arms = [(node.test, True, [ast.Expr(value=node.body)]), (node.test, False, [ast.Expr(value=node.orelse)])]
            else:
                continue
            for test, pol, stmts in arms:
                for key, cont, present in _membership_facts(test, pol):
                    if present or not stmts:
                        continue
                    n += 1
                    construct = f"{key_mod}:{qual}/absent[{key} in {cont}]"
                    for s in stmts:
                        ast.fix_missing_locations(s) if not hasattr(s, "lineno") else None
                    bad = _first_unguarded_read(stmts, key, cont)
                    if bad is not None:
                        res.fail(
                            construct,
                            f"`{cont}[{key}]` is read on the branch where `{key} in {cont}` is false "
                            f"(test `{short(test, 60)}`): KeyError when the key is absent, and the value is ignored when it is present",
                            mod,
                            bad if hasattr(bad, "lineno") else node,
                        )
                    else:
                        res.ok(construct, "no read of the absent key")
    for mod in prog.modules.values():
        res.ok(f"{_modkey(mod)}:<module>/key-guards", "scanned", nontrivial=False)
    if n < 3:
        raise AnalysisError(f"KEY-GUARD: only {n} membership guards found in the package (expected the optional keys of the dictionary forms)")
    return res


def _block_of(fn: ast.AST, node: ast.AST) -> Optional[Tuple[List[ast.stmt], int]]:
    for parent in ast.walk(fn):
        for fld in ("body", "orelse", "finalbody"):
            block = getattr(parent, fld, None)
            if isinstance(block, list):
                for i, st in enumerate(block):
                    if st is node:
                        return block, i
    return None


# ---------------------------------------------------------------------------
# COST-KEY-RESOLUTION


def _enum_class_names(prog: Program) -> Dict[str, List[str]]:
    out = {}
    for cname in ("NodeEvent", "EdgeEvent"):
        out[cname] = enum_members(prog.cls(MODEL, cname))
    return out


def cost_key_resolution(prog: Program) -> RuleResult:
    res = RuleResult(
        "COST-KEY-RESOLUTION",
        "decision table of the cost-vector parser: a key that already is a NodeEvent/EdgeEvent member is kept, the "
        "NAME of a NodeEvent member resolves to that member, the NAME of an EdgeEvent member resolves to that "
        "member; a name is never looked up in the wrong enumeration and a member is never used as an attribute name",
    )
    mod = prog.module(MODEL)
    cls = prog.cls(MODEL, "ReconciliationInput")
    fd = method_def(cls, "_from_dict")
    if fd is None:
        raise AnalysisError("ReconciliationInput._from_dict not found")
    loop = None
    for node in walk_no_nested(fd):
        if isinstance(node, ast.For) and isinstance(node.iter, ast.Call) and isinstance(node.iter.func, ast.Attribute) and node.iter.func.attr == "items":
            base = node.iter.func.value
            if isinstance(base, ast.Subscript) and isinstance(base.slice, ast.Constant) and base.slice.value == "costs":
                loop = node
    if loop is None or not (isinstance(loop.target, ast.Tuple) and len(loop.target.elts) == 2 and isinstance(loop.target.elts[0], ast.Name)):
        raise AnalysisError("_from_dict: loop `for event, value in data['costs'].items()` not found")
    kvar = loop.target.elts[0].id
    enums = _enum_class_names(prog)
    overlap = set(enums["NodeEvent"]) & set(enums["EdgeEvent"])
    kinds = [("member", "NodeEvent"), ("member", "EdgeEvent"), ("name", "NodeEvent"), ("name", "EdgeEvent")]

    class Misuse(Exception):
        pass

    for kind, owner in kinds:
        construct = f"{MODEL}:ReconciliationInput._from_dict/cost-key[{kind} of {owner}]"

        def classes_of(expr: ast.AST) -> Set[str]:
            if isinstance(expr, ast.Tuple):
                out: Set[str] = set()
                for e in expr.elts:
                    out |= classes_of(e)
                return out
            name = dotted(expr)
            return {name} if name else set()

        def is_key(expr: ast.AST) -> bool:
            return isinstance(expr, ast.Name) and expr.id == kvar

        def oracle(expr: ast.AST, env) -> Optional[bool]:
            if isinstance(expr, ast.Call):
                fname = dotted(expr.func)
                if fname == "isinstance" and len(expr.args) == 2 and is_key(expr.args[0]):
                    cl = classes_of(expr.args[1])
                    if cl & {"NodeEvent", "EdgeEvent", "Enum", "Event"}:
                        if kind == "member":
                            return owner in cl or "Enum" in cl or "Event" in cl
                        return False
                    if cl == {"str"}:
                        return kind == "name"
                    return None
                if fname == "hasattr" and len(expr.args) == 2 and is_key(expr.args[1]):
                    target = dotted(expr.args[0])
                    if kind == "member":
                        raise Misuse(f"`{short(expr)}` is evaluated with an enumeration member as attribute name (TypeError)")
                    if target in enums:
                        return target == owner
                    return None
            if isinstance(expr, ast.Compare) and len(expr.ops) == 1 and isinstance(expr.ops[0], (ast.In, ast.NotIn)) and is_key(expr.left):
                cont = expr.comparators[0]
                target = dotted(cont.value) if isinstance(cont, ast.Attribute) and cont.attr in ("__members__", "_member_names_", "_member_map_") else None
                if target in enums:
                    if kind == "member":
                        return isinstance(expr.ops[0], ast.NotIn)
                    return (target == owner) == isinstance(expr.ops[0], ast.In)
            return None

        try:
            out = run_cases(loop.body, oracle, where=construct)
        except Misuse as err:
            res.fail(construct, str(err), mod, loop)
            continue
        stores = [(t, v) for t, v in out.stores if isinstance(t, ast.Subscript)]
        if len(stores) != 1:
            raise AnalysisError(f"{construct}: expected exactly one store into the cost vector, found {len(stores)}")
        key_expr = stores[0][0].slice
        verdict = _resolved_key(key_expr, kvar, kind, owner, enums)
        if verdict is None:
            raise AnalysisError(f"{construct}: key expression `{short(key_expr)}` not recognised")
        ok, why = verdict
        if ok:
            res.ok(construct, why)
        else:
            res.fail(construct, why, mod, loop)
    if overlap:
        res.fail(f"{MODEL}:events/disjoint-names", f"member names {sorted(overlap)} exist in both enumerations: a name cannot be resolved", mod, cls)
    return res


def _resolved_key(expr: ast.AST, kvar: str, kind: str, owner: str, enums) -> Optional[Tuple[bool, str]]:
    if isinstance(expr, ast.Name) and expr.id == kvar:
        if kind == "member":
            return True, "a member is kept as it is"
        return False, f"the NAME of a member of {owner} is stored as a key of the cost vector without being resolved: costs[{owner}.X] is then missing"
    target = None
    if isinstance(expr, ast.Call) and dotted(expr.func) == "getattr" and len(expr.args) >= 2 and isinstance(expr.args[1], ast.Name) and expr.args[1].id == kvar:
        target = dotted(expr.args[0])
    elif isinstance(expr, ast.Subscript) and isinstance(expr.slice, ast.Name) and expr.slice.id == kvar:
        target = dotted(expr.value)
    if target in enums:
        if kind == "member":
            return False, f"an enumeration member is looked up by name in {target} (TypeError / KeyError)"
        if target == owner:
            return True, f"name resolved in {owner}"
        return False, f"the name of a member of {owner} is looked up in {target} (AttributeError for every {owner} cost)"
    return None


# ---------------------------------------------------------------------------
# BINARIZE-GUARD


def binarize_guard(prog: Program) -> RuleResult:
    res = RuleResult(
        "BINARIZE-GUARD",
        "ReconciliationInput.binarize returns the input unchanged only when BOTH trees are binary, and otherwise "
        "pairs every refinement of the object tree with every refinement of the species tree, each written under "
        "its own key",
    )
    mod = prog.module(MODEL)
    cls = prog.cls(MODEL, "ReconciliationInput")
    fn = method_def(cls, "binarize")
    if fn is None:
        raise AnalysisError("ReconciliationInput.binarize not found")
    # (1) the shortcut
    short_ifs = [st for st in fn.body if isinstance(st, ast.If) and any(isinstance(n, (ast.Yield, ast.YieldFrom, ast.Return)) for n in ast.walk(st))]
    construct = f"{MODEL}:ReconciliationInput.binarize/shortcut"
    if not short_ifs:
        res.ok(construct, "no shortcut: every input goes through the refinement product", nontrivial=False)
    for st in short_ifs:
        calls = [c for c in calls_in(st.test) if (dotted(c.func) or "").endswith("is_binary")]
        args = {unparse(dealias(fn, c.args[0], st)) for c in calls if c.args}
        trees = {"self.object_tree", "self.species_lca.tree"}
        test = st.test
        conj = isinstance(test, ast.BoolOp) and isinstance(test.op, ast.And) and all(isinstance(v, ast.Call) for v in test.values)
        if args >= trees and conj:
            res.ok(construct, "shortcut taken only when object and species trees are both binary")
        elif not calls:
            raise AnalysisError(f"{construct}: shortcut test `{short(test)}` not recognised")
        else:
            res.fail(
                construct,
                f"the input is returned unrefined when `{short(test)}`: that is not `both trees are binary`, so an input "
                "with one multifurcating tree reaches the solvers unrefined",
                mod,
                st,
            )
    # (2) the product pairs object refinements with the object key
    loops = [l for l in walk_no_nested(fn) if isinstance(l, ast.For) and isinstance(l.iter, ast.Call) and (dotted(l.iter.func) or "").endswith("product")]
    if len(loops) != 1:
        raise AnalysisError("binarize: loop over product(binarize(...), binarize(...)) not found")
    loop = loops[0]
    construct = f"{MODEL}:ReconciliationInput.binarize/pairing"
    if not (isinstance(loop.target, ast.Tuple) and len(loop.target.elts) == 2 and len(loop.iter.args) == 2):
        raise AnalysisError("binarize: product loop does not unpack two refinements")
    src: Dict[str, str] = {}
    for var, arg in zip(loop.target.elts, loop.iter.args):
        if isinstance(arg, ast.Name):
            got = reaching(fn, arg.id, loop)
            arg = got if got is not None and not isinstance(got, Opaque) else arg
        # `[T] if is_binary(T) else binarize(T)`: a binary tree is its own single refinement - of the SAME tree
        if isinstance(arg, ast.IfExp):
            tests = [c for c in calls_in(arg.test) if (dotted(c.func) or "").endswith("is_binary") and c.args]
            single, many = (arg.body, arg.orelse) if isinstance(arg.body, (ast.List, ast.Tuple)) else (arg.orelse, arg.body)
            if len(tests) == 1 and isinstance(single, (ast.List, ast.Tuple)) and len(single.elts) == 1 and isinstance(many, ast.Call) and (dotted(many.func) or "").endswith("binarize") and many.args:
                tested, kept, refined = unparse(tests[0].args[0]), unparse(single.elts[0]), unparse(many.args[0])
                if not (tested == kept == refined):
                    res.fail(f"{MODEL}:ReconciliationInput.binarize/pairing", f"`{short(arg, 90)}`: the tree that is tested (`{tested}`), the tree kept as it is (`{kept}`) and the tree refined (`{refined}`) are not the same tree - a multifurcating `{refined}` is passed on unrefined whenever `{tested}` is binary", mod, loop)
                    return res
                arg = many
        if not (isinstance(arg, ast.Call) and (dotted(arg.func) or "").endswith("binarize") and arg.args and isinstance(var, ast.Name)):
            raise AnalysisError("binarize: product arguments are not refinements of the two trees")
        src[var.id] = unparse(dealias(fn, arg.args[0], loop))
    want = {"object_tree": "self.object_tree", "species_tree": "self.species_lca.tree"}
    written: Dict[str, str] = {}
    for d in ast.walk(loop):
        if isinstance(d, ast.Dict):
            for k, v in zip(d.keys, d.values):
                if isinstance(k, ast.Constant) and k.value in want:
                    names = [n.id for n in ast.walk(v) if isinstance(n, ast.Name) and n.id in src]
                    if len(set(names)) == 1:
                        written[k.value] = src[names[0]]
    problems = [f"'{k}' is written from a refinement of `{written.get(k)}`" for k in want if written.get(k) != want[k]]
    if set(written) != set(want):
        raise AnalysisError("binarize: the rebuilt dictionary does not override both trees in a recognised way")
    if problems:
        res.fail(construct, "; ".join(problems) + " (object and species refinements are exchanged)", mod, loop)
    else:
        res.ok(construct, "each refinement is written under the key of the tree it refines")
    return res


# ---------------------------------------------------------------------------
# OUTPUT-FLAG


def output_flag(prog: Program) -> RuleResult:
    res = RuleResult(
        "OUTPUT-FLAG",
        "every SuperReconciliationOutput built by the ordered solver carries ordered=True, every one built by the "
        "unordered solver ordered=False (the evaluator prices the labelling with the model named by the flag)",
    )
    want = {"compute.super_reconciliation": True, "compute.unordered_super_reconciliation": False}
    for modname, flag in want.items():
        mod = prog.module(modname)
        sites = [c for c in calls_in(mod.tree) if (dotted(c.func) or "").endswith("SuperReconciliationOutput")]
        if not sites:
            raise AnalysisError(f"{modname}: no SuperReconciliationOutput construction found")
        per_fn: Dict[str, int] = {}
        for call in sites:
            fn = _enclosing_function(prog, mod, call)
            idx = per_fn.get(fn, 0)
            per_fn[fn] = idx + 1
            construct = f"{modname}:{fn}/output#{idx}/ordered"
            val = kwarg(call, "ordered", 3)
            if val is None:
                raise AnalysisError(f"{construct}: `ordered` argument not found")
            if isinstance(val, ast.Constant) and isinstance(val.value, bool):
                if val.value is flag:
                    res.ok(construct, f"ordered={flag}")
                else:
                    res.fail(construct, f"the {'ordered' if flag else 'unordered'} solver labels its output ordered={val.value}: cost() then prices the labelling with the other model", mod, call)
            else:
                raise AnalysisError(f"{construct}: `ordered={short(val)}` is not a literal")
    return res


def _enclosing_function(prog: Program, mod: Module, node: ast.AST) -> str:
    best = "<module>"
    for qual, fn in prog.defs(mod.name).items():
        if isinstance(fn, FuncNode) and any(n is node for n in ast.walk(fn)):
            if len(qual) > len(best) or best == "<module>":
                best = qual
    return best


# ---------------------------------------------------------------------------
# ENTRY-CTOR


def entry_ctor(prog: Program) -> RuleResult:
    res = RuleResult(
        "ENTRY-CTOR",
        "decision table of Entry.__init__: Entry(merge, retention) is an empty entry with exactly those policies; "
        "Entry(value, tags, merge, retention) holds that value, a copy of those tags and exactly those policies",
    )
    mod = prog.module(DP)
    cls = prog.cls(DP, "Entry")
    init = method_def(cls, "__init__")
    if init is None:
        raise AnalysisError("Entry.__init__ not found")
    params = [p for p in func_params(init) if p != "self"]
    if len(params) != 4:
        raise AnalysisError(f"Entry.__init__: expected (value, infos, merge_policy, retention_policy), found {params}")
    p_val, p_infos, p_merge, p_ret = params

    def make_oracle(short_form: bool):
        def oracle(expr: ast.AST, env) -> Optional[bool]:
            if isinstance(expr, ast.Compare) and len(expr.ops) == 1 and isinstance(expr.ops[0], (ast.Is, ast.IsNot, ast.Eq, ast.NotEq)):
                left, right = expr.left, expr.comparators[0]
                if isinstance(right, ast.Constant) and right.value is None and isinstance(left, ast.Name) and left.id in (p_merge, p_ret):
                    is_none = short_form
                    return is_none == isinstance(expr.ops[0], (ast.Is, ast.Eq))
            if isinstance(expr, ast.Call) and dotted(expr.func) == "isinstance" and len(expr.args) == 2 and isinstance(expr.args[0], ast.Name):
                who, what = expr.args[0].id, dotted(expr.args[1])
                if who == p_val and what == "MergePolicy":
                    return short_form
                if who == p_infos and what == "RetentionPolicy":
                    return short_form
            return None

        return oracle

    # third convention: value and tags only (the policies default): must not be mistaken for the policies-only form
    def oracle_plain(expr: ast.AST, env) -> Optional[bool]:
        if isinstance(expr, ast.Compare) and len(expr.ops) == 1 and isinstance(expr.ops[0], (ast.Is, ast.IsNot, ast.Eq, ast.NotEq)):
            left, right = expr.left, expr.comparators[0]
            if isinstance(right, ast.Constant) and right.value is None and isinstance(left, ast.Name) and left.id in (p_merge, p_ret):
                return isinstance(expr.ops[0], (ast.Is, ast.Eq))
        if isinstance(expr, ast.Call) and dotted(expr.func) == "isinstance" and len(expr.args) == 2 and isinstance(expr.args[0], ast.Name) and expr.args[0].id in (p_val, p_infos):
            return False
        return None

    out3 = run_cases(init.body, oracle_plain, where="Entry.__init__[value-and-tags]")
    f3 = {t.attr: v for t, v in out3.stores if isinstance(t, ast.Attribute) and dotted(t.value) == "self"}
    construct = f"{DP}:Entry.__init__/value-and-tags/_value"
    got3 = f3.get("_value")
    if isinstance(got3, ast.Name) and got3.id == p_val:
        res.ok(construct, "a plain value with default policies stays a value")
    else:
        res.fail(construct, f"Entry(value, tags) without policies stores `{short(got3)}` as its value: a plain value is mistaken for a merge policy", mod, init)

    # one policy given, the other left to its default: the given one is kept
    for given, other, form in ((p_merge, p_ret, "merge-policy-only"), (p_ret, p_merge, "retention-policy-only")):
        def oracle_one(expr: ast.AST, env, given=given, other=other) -> Optional[bool]:
            if isinstance(expr, ast.Compare) and len(expr.ops) == 1 and isinstance(expr.ops[0], (ast.Is, ast.IsNot, ast.Eq, ast.NotEq)):
                left, right = expr.left, expr.comparators[0]
                if isinstance(right, ast.Constant) and right.value is None and isinstance(left, ast.Name) and left.id in (given, other):
                    return (left.id == other) == isinstance(expr.ops[0], (ast.Is, ast.Eq))
            if isinstance(expr, ast.Call) and dotted(expr.func) == "isinstance" and len(expr.args) == 2 and isinstance(expr.args[0], ast.Name) and expr.args[0].id in (p_val, p_infos):
                return False
            return None

        out1 = run_cases(init.body, oracle_one, where=f"Entry.__init__[{form}]")
        f1 = {t.attr: v for t, v in out1.stores if isinstance(t, ast.Attribute) and dotted(t.value) == "self"}
        fld = "_merge_policy" if given == p_merge else "_retention_policy"
        construct = f"{DP}:Entry.__init__/{form}/{fld}"
        got1 = f1.get(fld)
        if isinstance(got1, ast.Name) and got1.id == given:
            res.ok(construct, f"self.{fld} = {given} also when `{other}` is left out")
        else:
            res.fail(construct, f"Entry(value, tags, {given}=...) without `{other}` stores `{short(got1)}` as self.{fld}: the policy that was asked for is dropped", mod, init)

    for form, short_form in (("policies-only", True), ("explicit", False)):
        out = run_cases(init.body, make_oracle(short_form), where=f"Entry.__init__[{form}]")
        fields: Dict[str, ast.AST] = {}
        for tgt, val in out.stores:
            if isinstance(tgt, ast.Attribute) and dotted(tgt.value) == "self":
                fields[tgt.attr] = val
        want = (
            {"_merge_policy": p_val, "_retention_policy": p_infos}
            if short_form
            else {"_merge_policy": p_merge, "_retention_policy": p_ret, "_value": p_val}
        )
        for fld, src in want.items():
            construct = f"{DP}:Entry.__init__/{form}/{fld}"
            got = fields.get(fld)
            if got is None:
                raise AnalysisError(f"{construct}: field not assigned")
            if isinstance(got, ast.Name) and got.id == src:
                res.ok(construct, f"self.{fld} = {src}")
            else:
                res.fail(construct, f"with the {form} form self.{fld} becomes `{short(got)}` instead of the argument `{src}`", mod, init)
        construct = f"{DP}:Entry.__init__/{form}/_infos"
        got = fields.get("_infos")
        if got is None:
            raise AnalysisError(f"{construct}: field not assigned")
        if short_form:
            empty = (isinstance(got, ast.Call) and dotted(got.func) == "set" and not got.args) or (isinstance(got, ast.Set) and not got.elts)
            if empty:
                res.ok(construct, "no tags")
            else:
                res.fail(construct, f"a default-initialised entry starts with tags `{short(got)}`", mod, init)
        else:
            copied = isinstance(got, ast.Call) and dotted(got.func) in ("set", "frozenset") and len(got.args) == 1 and isinstance(got.args[0], ast.Name) and got.args[0].id == p_infos
            if copied:
                res.ok(construct, "a fresh set of the given tags")
            else:
                res.fail(construct, f"the tags become `{short(got)}`, not a fresh set of the argument `{p_infos}`", mod, init)
    return res


# ---------------------------------------------------------------------------
# ENUM-NO-TRUNCATION, HASH-IDENTITY

ENUMERATORS = [
    (TOPO, "_toposort_all_bt"),
    (TOPO, "toposort_all"),
    (TREES, "all_trees_from_triples"),
    (TREES, "binarize"),
    (TREES, "graft"),
    (TREES, "arrange_leaves"),
    ("utils.disjoint_set", "DisjointSet.binary"),
    ("compute.exhaustive", "generate_all"),
    ("compute.reconciliation", "_decode_thl_table"),
    ("compute.super_reconciliation", "_decode_spfs_table"),
    ("compute.unordered_super_reconciliation", "_decode_uspfs_table"),
    (MODEL, "ReconciliationInput.binarize"),
    # the loops that offer candidates to the tables are enumerations too
    ("compute.reconciliation", "_compute_thl_table"),
    ("compute.reconciliation", "_compute_thl_try_speciation"),
    ("compute.reconciliation", "_compute_thl_try_duplication_transfer"),
    ("compute.super_reconciliation", "_compute_spfs_table"),
    ("compute.super_reconciliation", "_compute_spfs_entry"),
    ("compute.unordered_super_reconciliation", "_compute_uspfs_table"),
    ("compute.unordered_super_reconciliation", "_compute_uspfs_entry"),
]


def enum_no_truncation(prog: Program) -> RuleResult:
    res = RuleResult(
        "ENUM-NO-TRUNCATION",
        "an enumerator (all orderings, all trees, all refinements, all reconciliations, all decodings, the candidate "
        "loops that fill the tables) has no "
        "early stop: no `break` out of a loop that accumulates or yields results and no count limit "
        "(`len(results) >= k`, islice, slicing by a limit); its result is the whole enumeration",
    )
    for modname, qual in ENUMERATORS:
        if not prog.has_func(modname, qual):
            raise AnalysisError(f"enumerator {modname}:{qual} not found")
        mod = prog.module(modname)
        fn = prog.func(modname, qual)
        construct = f"{modname}:{qual}/no-truncation"
        problems: List[Tuple[str, ast.AST]] = []
        params = set(func_params(fn))
        for node in walk_no_nested(fn):
            if isinstance(node, ast.Break):
                inner = [l for l in loops_around(fn, node)]
                loop = inner[-1] if inner else None
                if loop is not None and _has_sink(loop):
                    problems.append(("a `break` leaves a loop that accumulates results early", node))
            elif isinstance(node, ast.Call) and (dotted(node.func) or "").split(".")[-1] in ("islice", "takewhile"):
                problems.append((f"`{short(node, 50)}` truncates an iterator", node))
            elif isinstance(node, ast.Compare) and any(
                isinstance(c, ast.Call) and dotted(c.func) == "len" for c in [node.left] + list(node.comparators)
            ) and any(isinstance(op, (ast.Lt, ast.LtE, ast.Gt, ast.GtE)) for op in node.ops):
                other = [c for c in [node.left] + list(node.comparators) if not (isinstance(c, ast.Call) and dotted(c.func) == "len")]
                if any(isinstance(o, ast.Name) and o.id in params for o in other) or any(isinstance(o, ast.Constant) and isinstance(o.value, int) and o.value > 2 for o in other):
                    problems.append((f"the count test `{short(node)}` bounds the enumeration", node))
            elif isinstance(node, ast.Subscript) and isinstance(node.slice, ast.Slice) and node.slice.upper is not None and isinstance(node.ctx, ast.Load):
                up = node.slice.upper
                if isinstance(up, ast.Name) and up.id in params and any(tok in up.id.lower() for tok in ("limit", "max", "count")):
                    problems.append((f"the slice `{short(node)}` truncates the results", node))
        # a list-returning enumerator answers with its accumulator or a literal base case, nothing computed aside
        rets = [r for r in walk_no_nested(fn) if isinstance(r, ast.Return) and r.value is not None]
        is_gen = any(isinstance(n_, (ast.Yield, ast.YieldFrom)) for n_ in walk_no_nested(fn))
        if rets and not is_gen and (modname, qual) not in FILL_FUNCTIONS:
            accs = {dotted(r.value) for r in rets if isinstance(r.value, ast.Name)}
            for r in rets:
                v = r.value
                literal = isinstance(v, (ast.List, ast.Tuple, ast.Constant)) and not any(isinstance(x, (ast.Name, ast.Call)) and not (isinstance(x, ast.Name) and x.id in params) for x in ast.walk(v) if x is not v and not isinstance(x, (ast.List, ast.Tuple, ast.Constant, ast.Load)))
                if isinstance(v, ast.Name) or literal or (isinstance(v, ast.Subscript) and isinstance(v.value, ast.Name)):
                    continue
                if isinstance(v, ast.BinOp) and all(isinstance(x, (ast.Name, ast.BinOp, ast.Add, ast.Load)) for x in ast.walk(v)):
                    continue  # concatenation of partial results
                if isinstance(v, ast.Call) and isinstance(v.func, ast.Name) and (v.func.id == qual.split(".")[-1] or v.func.id.startswith("_")):
                    continue  # delegation to the recursive helper
                if isinstance(v, ast.Call) and dotted(v.func) in ("list", "sorted", "tuple") and v.args and isinstance(v.args[0], ast.Name):
                    continue
                problems.append((f"`return {short(v, 70)}` answers with something computed aside from the enumeration (a shortcut around the backtracking)", r))
        if problems:
            msg, node = problems[0]
            res.fail(construct, msg + f" ({len(problems)} site(s))", mod, node)
        else:
            res.ok(construct, "no early stop, no filter")
    return res


def _has_sink(loop: ast.AST) -> bool:
    for node in ast.walk(loop):
        if isinstance(node, (ast.Yield, ast.YieldFrom)):
            return True
        if isinstance(node, ast.Call) and isinstance(node.func, ast.Attribute) and node.func.attr in ("append", "extend", "add", "update"):
            return True
    return False


def _self_filled_sets(fn: ast.AST) -> Set[str]:
    """Names of local sets/dicts created empty in `fn` and filled by `.add`/`[k]=`."""
    created = set()
    for node in walk_no_nested(fn):
        if isinstance(node, (ast.Assign, ast.AnnAssign)):
            val = node.value
            tgt = node.targets[0] if isinstance(node, ast.Assign) else node.target
            if isinstance(tgt, ast.Name) and val is not None and (
                (isinstance(val, ast.Call) and dotted(val.func) in ("set", "dict") and not val.args)
                or (isinstance(val, (ast.Set, ast.Dict)) and not getattr(val, "elts", getattr(val, "keys", [])))
            ):
                created.add(tgt.id)
    filled = set()
    for node in walk_no_nested(fn):
        if isinstance(node, ast.Call) and isinstance(node.func, ast.Attribute) and node.func.attr == "add" and dotted(node.func.value) in created:
            filled.add(dotted(node.func.value))
    return filled


def hash_identity(prog: Program) -> RuleResult:
    res = RuleResult(
        "HASH-IDENTITY",
        "hash() values are never used as identities: a call of hash(...) occurs only inside a __hash__ method "
        "(two different solutions, nodes or trees may share a hash; deduplicating on it drops one of them)",
    )
    for mod in sorted(prog.modules.values(), key=lambda m: m.relpath):
        key = _modkey(mod)
        bad = []
        for qual, fn in prog.defs(mod.name).items():
            if not isinstance(fn, FuncNode) or qual.split(".")[-1] == "__hash__":
                continue
            for call in walk_no_nested(fn):
                if isinstance(call, ast.Call) and dotted(call.func) == "hash":
                    bad.append((qual, call))
        if bad:
            for qual, call in bad:
                res.fail(f"{key}:{qual}/hash-as-identity", f"`{short(call)}` is used as an identity outside __hash__", mod, call)
        else:
            res.ok(f"{key}:<module>/hash-as-identity", "no hash() outside __hash__")
    return res


# ---------------------------------------------------------------------------
# COST-GUARD


def _cost_tainted_names(fn: ast.AST, seed: Set[str]) -> Set[str]:
    """Locals bound (transitively) from reads of the cost vector; `seed` are the tainted parameters."""
    tainted: Set[str] = set(seed)
    for a in fn.args.posonlyargs + fn.args.args + fn.args.kwonlyargs:  # type: ignore[attr-defined]
        if a.annotation is not None and "CostValues" in unparse(a.annotation):
            tainted.add(a.arg)
    changed = True
    while changed:
        changed = False
        for node in walk_no_nested(fn):
            if isinstance(node, ast.Assign) and len(node.targets) == 1 and isinstance(node.targets[0], ast.Name):
                name = node.targets[0].id
                if name in tainted:
                    continue
                if _mentions_cost(node.value, tainted):
                    tainted.add(name)
                    changed = True
    return tainted


def _mentions_cost(expr: ast.AST, tainted: Set[str]) -> bool:
    for n in ast.walk(expr):
        if isinstance(n, ast.Name) and n.id in tainted:
            return True
        if isinstance(n, ast.Attribute) and n.attr == "costs":
            return True
    return False


def _cost_taint_table(prog: Program, modnames: Sequence[str]) -> Dict[Tuple[str, str], Set[str]]:
    """(module, function) -> tainted names, propagated through the arguments of calls between the solver modules."""
    seeds: Dict[Tuple[str, str], Set[str]] = {}
    fns: Dict[Tuple[str, str], ast.AST] = {}
    for modname in modnames:
        for qual, fn in prog.defs(modname).items():
            if isinstance(fn, FuncNode):
                fns[(modname, qual)] = fn
                seeds[(modname, qual)] = set()
    table: Dict[Tuple[str, str], Set[str]] = {}
    for _round in range(6):
        changed = False
        for key, fn in fns.items():
            # closures see the tainted names of the enclosing function
            outer = key[1].rsplit(".", 1)[0] if "." in key[1] else None
            inherited = table.get((key[0], outer), set()) if outer else set()
            table[key] = _cost_tainted_names(fn, seeds[key] | inherited)
        for key, fn in fns.items():
            mod = prog.module(key[0])
            for call in walk_no_nested(fn):
                if not isinstance(call, ast.Call):
                    continue
                callee = resolve_callee(prog, mod, call.func)
                if callee is None or not isinstance(callee[1], FuncNode):
                    continue
                ckey = (_modkey(callee[0]), callee[1].name)
                ckey = next((k for k in fns if fns[k] is callee[1]), None)
                if ckey is None:
                    continue
                params = func_params(callee[1])
                for i, arg in enumerate(call.args):
                    if i < len(params) and _mentions_cost(arg, table[key]) and params[i] not in seeds[ckey]:
                        seeds[ckey].add(params[i])
                        changed = True
                for kw in call.keywords:
                    if kw.arg and _mentions_cost(kw.value, table[key]) and kw.arg not in seeds[ckey]:
                        seeds[ckey].add(kw.arg)
                        changed = True
        if not changed:
            break
    return table


def cost_guard(prog: Program) -> RuleResult:
    res = RuleResult(
        "COST-GUARD",
        "in the recurrences, decoders and drivers of compute/ the unit costs enter through arithmetic only: no "
        "`if` / `while` / conditional expression / comprehension filter tests a value derived from the cost vector "
        "(a candidate family that is skipped for some cost vectors is a pruning argument, and pruning arguments "
        "about DTL scenarios are where optimality is lost)",
    )
    n = 0
    solver_mods = ("compute.reconciliation", "compute.super_reconciliation", "compute.unordered_super_reconciliation", "compute.exhaustive")
    table = _cost_taint_table(prog, solver_mods)
    if not any(table.values()):
        raise AnalysisError("COST-GUARD: no read of the cost vector found in the solvers")
    for modname in solver_mods:
        mod = prog.module(modname)
        for qual, fn in prog.defs(modname).items():
            if not isinstance(fn, FuncNode):
                continue
            tainted = table[(modname, qual)]
            construct = f"{modname}:{qual}/cost-in-control"
            bad = None
            for node in walk_no_nested(fn):
                test = None
                if isinstance(node, (ast.If, ast.While, ast.IfExp)):
                    test = node.test
                elif isinstance(node, ast.comprehension) and node.ifs:
                    test = ast.BoolOp(op=ast.And(), values=list(node.ifs)) if len(node.ifs) > 1 else node.ifs[0]
                elif isinstance(node, ast.Assert):
                    continue
                if test is not None and _mentions_cost(test, tainted):
                    bad = (node, test)
                    break
            n += 1
            if bad:
                res.fail(construct, f"the test `{short(bad[1])}` depends on the unit costs: part of the candidate space is skipped for some cost vectors", mod, bad[0])
            else:
                res.ok(construct, "costs only in arithmetic")
    if n < 10:
        raise AnalysisError("COST-GUARD: solver functions not found")
    return res


# ---------------------------------------------------------------------------
# COPY-FAITHFUL

LOSSY_COPY = {"newick", "newick-extended"}


def copy_faithful(prog: Program) -> RuleResult:
    res = RuleResult(
        "COPY-FAITHFUL",
        "trees are copied with a lossless method: `.copy()` / `.copy('cpickle')` / `.copy('deepcopy')`; the newick "
        "methods rewrite names containing ':;(),[]=' and drop attributes, so leaf labels and colours change",
    )
    for mod in sorted(prog.modules.values(), key=lambda m: m.relpath):
        key = _modkey(mod)
        bad = []
        n = 0
        for call in calls_in(mod.tree):
            if isinstance(call.func, ast.Attribute) and call.func.attr == "copy":
                n += 1
                method = kwarg(call, "method", 0)
                if method is None:
                    continue
                if isinstance(method, ast.Constant) and method.value in LOSSY_COPY:
                    bad.append(call)
                elif not isinstance(method, ast.Constant):
                    raise AnalysisError(f"{key}: copy method `{short(method)}` is not a literal")
        # copy.deepcopy / copy.copy of a tree node follows its `up` link: a clade stays attached to a clone of its parent
        attached = []
        for qual, fn in prog.defs(mod.name).items():
            if not isinstance(fn, FuncNode):
                continue
            for call in walk_no_nested(fn):
                if isinstance(call, ast.Call) and (dotted(call.func) or "").split(".")[-1] in ("deepcopy",) and call.args and _tree_typed(fn, call.args[0]):
                    attached.append((qual, call))
        for i, (qual, call) in enumerate(attached):
            n += 1
            res.fail(f"{key}:{qual}/attached-copy#{i}", f"`{short(call)}` deep-copies a tree node with the generic copier: the copy keeps (a clone of) everything above the node, whereas `.copy()` returns a detached subtree", mod, call)
        if bad:
            for i, call in enumerate(bad):
                res.fail(f"{key}:{_enclosing_function(prog, mod, call)}/lossy-copy#{i}", f"`{short(call)}` copies through a newick string: labels with reserved characters are rewritten and attributes are dropped", mod, call)
        elif not attached:
            res.ok(f"{key}:<module>/copies", f"{n} copy call(s), all lossless", nontrivial=n > 0)
    return res


# ---------------------------------------------------------------------------
# WIDTH-VERBATIM


def width_verbatim(prog: Program) -> RuleResult:
    res = RuleResult(
        "WIDTH-VERBATIM",
        "the wrap width reaches balanced_wrap / format_synteny unchanged: at every call site the width argument "
        "is a drawing parameter (`params.*_width`) or a parameter of the enclosing function that is never "
        "rebound, not an expression computed from it",
    )
    n = 0
    for mod, qual, fn in prog.functions():
        key = _modkey(mod)
        idx = 0
        for call in calls_in(fn, nested=False):
            name = (dotted(call.func) or "").split(".")[-1]
            if name == "balanced_wrap":
                arg = kwarg(call, "width", 1)
            elif name == "format_synteny":
                arg = kwarg(call, "width", 1)
                if arg is None:
                    continue
            else:
                continue
            construct = f"{key}:{qual}/{name}#{idx}/width"
            idx += 1
            n += 1
            if arg is None:
                raise AnalysisError(f"{construct}: width argument not found")
            arg = dealias(fn, arg, call)
            if isinstance(arg, ast.Attribute) and arg.attr.endswith("_width"):
                # which label is being wrapped: a synteny (event label) or the name of a species
                want = None
                if name == "format_synteny":
                    want = "event_label_width"
                else:
                    text = call.args[0] if call.args else None
                    seen_names = 0
                    while isinstance(text, ast.Name) and seen_names < 4:
                        seen_names += 1
                        defs = [d for d in walk_no_nested(fn) if isinstance(d, ast.Assign) and any(isinstance(t, ast.Name) and t.id == text.id for t in d.targets) and not any(c is call for c in ast.walk(d))]
                        if len(defs) != 1:
                            break
                        text = defs[0].value
                    if text is not None and any(isinstance(x, ast.Attribute) and x.attr == "name" for x in ast.walk(text)):
                        want = "species_label_width"
                if want is not None and arg.attr != want:
                    res.fail(construct, f"the {'synteny' if want.startswith('event') else 'species'} label is wrapped against `{short(arg)}`; its own width is `{want}` (the two differ by default: 18 / 21)", mod, call)
                else:
                    res.ok(construct, f"`{short(arg)}`")
                continue
            if isinstance(arg, ast.Name) and arg.id in func_params(fn):
                rebinds = [
                    st for st in walk_no_nested(fn)
                    if (isinstance(st, ast.Assign) and any(isinstance(t, ast.Name) and t.id == arg.id for t in st.targets))
                    or (isinstance(st, ast.AugAssign) and isinstance(st.target, ast.Name) and st.target.id == arg.id)
                    or (isinstance(st, ast.NamedExpr) and st.target.id == arg.id)
                ]
                if rebinds:
                    res.fail(construct, f"the parameter `{arg.id}` is rebound (`{short(rebinds[0], 70)}`) before it reaches {name}: lines are wrapped against another width than the one asked for", mod, rebinds[0])
                else:
                    res.ok(construct, f"parameter `{arg.id}` passed through")
                continue
            res.fail(construct, f"{name} is called with the width `{short(arg)}`, which is computed rather than passed through", mod, call)
    if n < 2:
        raise AnalysisError(f"WIDTH-VERBATIM: only {n} wrapping call sites found")
    return res


# ---------------------------------------------------------------------------
# LEAF-MAP-DOMAIN


def leaf_map_domain(prog: Program) -> RuleResult:
    res = RuleResult(
        "LEAF-MAP-DOMAIN",
        "`leaf_object_species` (defined on the leaves only) is never handed to code that looks up arbitrary nodes: "
        "outside the model classes it is read by subscription with a node known to be a leaf, iterated, "
        "serialised, or passed to a constructor; the renderers and decoders receive the total `object_species`",
    )
    n = 0
    for mod, qual, fn in prog.functions():
        key = _modkey(mod)
        if key.startswith("model."):
            continue
        idx = 0
        for node in walk_no_nested(fn):
            if not (isinstance(node, ast.Attribute) and node.attr == "leaf_object_species" and isinstance(node.ctx, ast.Load)):
                continue
            construct = f"{key}:{qual}/leaf-map#{idx}"
            idx += 1
            n += 1
            parent = mod.parent(node)
            if isinstance(parent, ast.Subscript) and parent.value is node:
                res.ok(construct, "subscripted in place")
                continue
            if isinstance(parent, ast.Attribute) and parent.attr in ("items", "keys", "values", "get"):
                res.ok(construct, f".{parent.attr}()")
                continue
            if isinstance(parent, ast.keyword) or isinstance(parent, ast.Call):
                call = parent if isinstance(parent, ast.Call) else mod.parent(parent)
                callee = resolve_callee(prog, mod, call.func) if isinstance(call, ast.Call) else None
                cname = dotted(call.func) if isinstance(call, ast.Call) else None
                if callee is not None and isinstance(callee[1], ast.ClassDef):
                    res.ok(construct, f"constructor argument of {cname}")
                    continue
                if callee is not None and isinstance(callee[1], FuncNode):
                    cfn = callee[1]
                    # which parameter?
                    pname = None
                    if isinstance(parent, ast.keyword):
                        pname = parent.arg
                    else:
                        pos = next((i for i, a in enumerate(call.args) if a is node), None)
                        ps = func_params(cfn)
                        if pos is not None and pos < len(ps):
                            pname = ps[pos]
                    if pname is None:
                        raise AnalysisError(f"{construct}: parameter receiving the leaf mapping not resolved")
                    bad = _non_leaf_lookup(cfn, pname)
                    if bad is not None:
                        res.fail(construct, f"`{short(node)}` is passed as `{pname}` to {cname}, which looks up `{short(bad)}` — a node that is not known to be a leaf (KeyError for internal nodes; the total mapping is `object_species`)", mod, call)
                    else:
                        res.ok(construct, f"{cname} only looks up leaves in `{pname}`")
                    continue
                if cname in ("dict", "len", "serialize_tree_mapping", "list", "set", "sorted"):
                    res.ok(construct, f"{cname}(...)")
                    continue
                raise AnalysisError(f"{construct}: callee `{cname}` receiving the leaf mapping is not resolved")
            if isinstance(parent, (ast.For, ast.comprehension)) and parent.iter is node:
                res.ok(construct, "iterated")
                continue
            if isinstance(parent, (ast.Compare,)):
                res.ok(construct, "membership test")
                continue
            if isinstance(parent, ast.Assign):
                tgt = parent.targets[0]
                if isinstance(tgt, ast.Name):
                    bad = _non_leaf_lookup(fn, tgt.id)
                    if bad is not None:
                        res.fail(construct, f"the alias `{tgt.id}` of the leaf mapping is used for `{short(bad)}`", mod, parent)
                    else:
                        res.ok(construct, f"alias `{tgt.id}` only used on leaves")
                    continue
            raise AnalysisError(f"{construct}: use `{short(parent)}` of the leaf mapping not recognised")
    # positive control: the renderer receives object_species
    for modname in ("render.tikz", "render.layout"):
        mod = prog.module(modname)
        fn = mod.tree
        construct = f"{modname}:<module>/total-mapping"
        uses = [n_ for n_ in ast.walk(mod.tree) if isinstance(n_, ast.Attribute) and n_.attr == "object_species"]
        if uses:
            res.ok(construct, "the total mapping is what the drawing code receives")
        else:
            res.fail(construct, "the drawing code never reads the total mapping `object_species`", mod, fn)
    return res


def _non_leaf_lookup(fn: ast.AST, pname: str) -> Optional[ast.AST]:
    """A subscription `pname[x]` in `fn` where x is not known to be a leaf."""
    for node in walk_no_nested(fn):
        if isinstance(node, ast.Subscript) and isinstance(node.value, ast.Name) and node.value.id == pname and isinstance(node.ctx, ast.Load):
            key = node.slice
            if not isinstance(key, ast.Name):
                return node
            if _known_leaf(fn, key.id, node):
                continue
            return node
    return None


def _known_leaf(fn: ast.AST, var: str, at: ast.AST) -> bool:
    for g, pol in guards(fn, at):
        if isinstance(g, ast.Call) and isinstance(g.func, ast.Attribute) and g.func.attr == "is_leaf" and dotted(g.func.value) == var and pol:
            return True
    for loop in loops_around(fn, at):
        if isinstance(loop, ast.For) and dotted(loop.target) == var and isinstance(loop.iter, ast.Call) and isinstance(loop.iter.func, ast.Attribute) and loop.iter.func.attr in ("iter_leaves", "get_leaves"):
            return True
    return False


# ---------------------------------------------------------------------------
# TOPO-VERDICT


def topo_verdict(prog: Program) -> RuleResult:
    res = RuleResult(
        "TOPO-VERDICT",
        "the single-ordering routine answers with the ordering exactly when every vertex was placed and with None "
        "exactly otherwise: every `return None` is dominated by the failed completeness test "
        "`len(result) == len(graph)`, every `return result` by the successful one (the empty graph has the empty "
        "ordering, not None)",
    )
    mod = prog.module(TOPO)
    fn = prog.func(TOPO, "toposort")
    gparam = func_params(fn)[0]
    rets = [r for r in walk_no_nested(fn) if isinstance(r, ast.Return)]
    if not rets:
        raise AnalysisError("toposort: no return")

    def completeness(test: ast.AST) -> Optional[Tuple[str, bool]]:
        """(result name, polarity for 'complete')"""
        if isinstance(test, ast.Compare) and len(test.ops) == 1 and isinstance(test.ops[0], (ast.Eq, ast.NotEq)):
            sides = [test.left, test.comparators[0]]
            lens = [s for s in sides if isinstance(s, ast.Call) and dotted(s.func) == "len" and s.args]
            if len(lens) == 2:
                names = [dotted(s.args[0]) for s in lens]
                if gparam in names:
                    other = [x for x in names if x != gparam]
                    if other:
                        return other[0], isinstance(test.ops[0], ast.Eq)
        return None

    for i, ret in enumerate(rets):
        is_none = ret.value is None or (isinstance(ret.value, ast.Constant) and ret.value.value is None)
        construct = f"{TOPO}:toposort/return#{i}[{'None' if is_none else short(ret.value, 20)}]"
        facts = []
        for g, pol in guards(fn, ret):
            c = completeness(g)
            if c is not None:
                facts.append(c[1] == pol)
        # fall-through form: `if complete: return result` immediately before `return None`
        blk = _block_of(fn, ret)
        if blk is not None:
            block, idx = blk
            for prev in block[:idx]:
                if isinstance(prev, ast.If) and not prev.orelse and always_exits(prev.body):
                    c = completeness(prev.test)
                    if c is not None:
                        facts.append(not c[1])
        if is_none:
            if facts and not any(facts):
                res.ok(construct, "answered only when the completeness test failed")
            else:
                res.fail(construct, "`return None` is reachable without a failed `len(result) == len(graph)` test: a graph whose vertices are all placed (e.g. the empty graph) is reported as cyclic", mod, ret)
        else:
            if facts and all(facts):
                res.ok(construct, "answered only when every vertex was placed")
            else:
                res.fail(construct, f"`return {short(ret.value)}` is not dominated by a successful completeness test: a partial ordering of a cyclic graph can be returned", mod, ret)
    return res


# ---------------------------------------------------------------------------
# ROOT-ORDER-SOURCE


def root_order_source(prog: Program) -> RuleResult:
    res = RuleResult(
        "ROOT-ORDER-SOURCE",
        "when the input prescribes the synteny of the root, the ordered driver uses exactly that sequence as the "
        "only root order (verbatim: not filtered, not re-sorted, not re-derived from the leaves)",
    )
    modname = "compute.super_reconciliation"
    mod = prog.module(modname)
    fn = prog.func(modname, "_spfs")
    target_loop = None
    for node in walk_no_nested(fn):
        if isinstance(node, ast.For):
            it = node.iter
            inner = it.args[0] if isinstance(it, ast.Call) and (dotted(it.func) or "").endswith("tqdm") and it.args else it
            if isinstance(inner, ast.Name):
                target_loop = (node, inner.id)
                break
    if target_loop is None:
        raise AnalysisError("_spfs: loop over the root orderings not found")
    loop, oname = target_loop
    assigns = [a for a in walk_no_nested(fn) if isinstance(a, ast.Assign) and any(isinstance(t, ast.Name) and t.id == oname for t in a.targets)]
    prescribed = []
    for a in assigns:
        gs = guards(fn, a)
        for g, pol in gs:
            for key, cont, present in _membership_facts(g, pol):
                if present and cont.endswith("leaf_syntenies") or present and "synten" in cont:
                    prescribed.append((a, key, cont))
    construct = f"{modname}:_spfs/prescribed-root-order"
    if not prescribed:
        raise AnalysisError("_spfs: branch for a prescribed root synteny not found")
    for a, key, cont in prescribed:
        val = a.value
        elts = val.elts if isinstance(val, (ast.Tuple, ast.List)) else None
        if elts is None or len(elts) != 1:
            res.fail(construct, f"with a prescribed root the orderings are `{short(val)}`, not the single prescribed sequence", mod, a)
            continue
        e = elts[0]
        while isinstance(e, ast.Call) and dotted(e.func) in ("list", "tuple") and len(e.args) == 1:
            e = e.args[0]
        if isinstance(e, ast.Subscript) and unparse(e.value) == cont and unparse(e.slice) == key:
            res.ok(construct, f"the only root order is `{short(e)}`")
        else:
            res.fail(construct, f"with a prescribed root the root order is `{short(e, 100)}` instead of the prescribed `{cont}[{key}]` itself", mod, a)
    # without a prescribed root: ALL linear extensions of the precedence graph of ALL families
    construct = f"{modname}:_spfs/derived-root-orders"
    others = [a for a in assigns if not any(a is p[0] for p in prescribed)]
    if not others:
        raise AnalysisError("_spfs: branch deriving the root orders from the leaves not found")

    def graph_source(scope: ast.AST, expr: ast.AST, at: ast.AST, params: Sequence[str]) -> Tuple[str, ast.AST]:
        """('graph' | 'param' | 'filtered' | 'other', witness)"""
        src = expr
        if isinstance(expr, ast.Name):
            if expr.id in params and not any(isinstance(st, (ast.Assign, ast.AugAssign)) and any(dotted(t) == expr.id for t in (st.targets if isinstance(st, ast.Assign) else [st.target])) for st in walk_no_nested(scope)):
                return "param", expr
            got = reaching(scope, expr.id, at)
            if got is None or isinstance(got, Opaque):
                return "other", expr
            src = got
        if isinstance(src, ast.Call) and dotted(src.func) == "_make_prec_graph":
            arg = src.args[0] if src.args else None
            asrc = arg
            if isinstance(arg, ast.Name):
                got = reaching(scope, arg.id, src)
                asrc = got if got is not None and not isinstance(got, Opaque) else arg
            if isinstance(asrc, (ast.DictComp, ast.ListComp, ast.SetComp, ast.GeneratorExp)) and any(g.ifs for g in asrc.generators):
                return "filtered-leaves", asrc
            if isinstance(asrc, ast.Call) and dotted(asrc.func) in ("dict", "filter"):
                return "filtered-leaves", asrc
            return "graph", src
        if isinstance(src, (ast.DictComp, ast.ListComp, ast.SetComp, ast.GeneratorExp)) and any(g.ifs for g in src.generators):
            return "filtered", src
        if isinstance(src, ast.Call) and dotted(src.func) in ("dict", "filter"):
            return "filtered", src
        return "other", src

    for a in others:
        val = a.value
        if isinstance(val, ast.Call) and dotted(val.func) == "toposort_all" and len(val.args) == 1:
            kind, wit = graph_source(fn, val.args[0], a, [])
            if kind == "graph":
                res.ok(construct, f"`{short(val)}` over `{short(wit, 50)}`")
            elif kind == "filtered-leaves":
                res.fail(construct, f"the precedence graph is built from `{short(wit, 80)}`, a part of the leaf syntenies: the adjacencies of the leaves left out constrain the root order too (a rearranged leaf must make the problem infeasible, not be truncated)", mod, a)
            elif kind == "filtered":
                res.fail(construct, f"the root orders are the linear extensions of `{short(wit, 80)}`, a filtered precedence graph: families left out of it are missing from (or fixed in) every root order", mod, a)
            else:
                raise AnalysisError(f"_spfs: the graph given to toposort_all (`{short(wit, 60)}`) is not recognised")
            continue
        if isinstance(val, (ast.List, ast.Tuple)) or (isinstance(val, ast.Call) and dotted(val.func) in ("list", "sorted", "tuple")):
            res.fail(construct, f"without a prescribed root the orderings are also set to `{short(val, 60)}`: an order that is not a linear extension of the precedence graph (when none exists the problem has no solution)", mod, a)
            continue
        helper = resolve_callee(prog, mod, val.func) if isinstance(val, ast.Call) else None
        if helper is None or not isinstance(helper[1], FuncNode):
            raise AnalysisError(f"_spfs: root orders `{short(val, 60)}` are not a call of toposort_all")
        hmod, hfn = helper
        hparams = func_params(hfn)
        calls = [c for c in ast.walk(hfn) if isinstance(c, ast.Call) and dotted(c.func) == "toposort_all" and len(c.args) == 1]
        if not calls:
            raise AnalysisError(f"_spfs: `{hfn.name}` does not call toposort_all")
        verdicts = [graph_source(hfn, c.args[0], c, hparams) for c in calls]
        rets = [r for r in ast.walk(hfn) if isinstance(r, ast.Return) and r.value is not None]
        if any(k == "filtered" for k, _w in verdicts):
            wit = next(w for k, w in verdicts if k == "filtered")
            res.fail(construct, f"`{hfn.name}` enumerates the linear extensions of `{short(wit, 80)}`, a filtered precedence graph, and places the remaining families itself: root orders that interleave them with the others are never tried", hmod, calls[0])
        elif all(k in ("param", "graph") for k, _w in verdicts) and len(rets) == 1 and isinstance(rets[0].value, ast.Call) and rets[0].value is calls[0]:
            res.ok(construct, f"`{hfn.name}` returns toposort_all of the graph it is given")
        else:
            raise AnalysisError(f"_spfs: what `{hfn.name}` does with the linear extensions is not recognised")
    return res


# ---------------------------------------------------------------------------
# NAME-AS-KEY


def name_as_key(prog: Program) -> RuleResult:
    res = RuleResult(
        "NAME-AS-KEY",
        "the tree algorithms of utils/trees.py never identify a subtree by the NAME of its root (membership test, "
        "set element, dictionary key, equality) unless that node is known to be a leaf: ancestral nodes may be "
        "unnamed and the join nodes created by the refinement enumerator all carry the empty name, so a name "
        "cannot tell two subtrees apart (topology ids and node objects can)",
    )
    mod = prog.module(TREES)
    n = 0
    for qual, fn in prog.defs(TREES).items():
        if not isinstance(fn, FuncNode):
            continue
        n += 1
        construct = f"{TREES}:{qual}/name-as-key"
        bad = None
        for node in walk_no_nested(fn):
            if not (isinstance(node, ast.Attribute) and node.attr == "name" and isinstance(node.ctx, ast.Load)):
                continue
            base = node.value
            use = _identity_use(mod, node)
            if use is None:
                continue
            if isinstance(base, ast.Name) and (_known_leaf(fn, base.id, node) or _comp_over_leaves(mod, node, base.id)):
                continue
            if isinstance(base, ast.Subscript) and isinstance(base.value, ast.Call) and isinstance(base.value.func, ast.Attribute) and base.value.func.attr in ("get_leaves",):
                continue
            bad = (node, use)
            break
        if bad:
            res.fail(construct, f"`{short(bad[0])}` identifies a subtree by the name of its root ({bad[1]}); unnamed or freshly created nodes all share the empty name", mod, bad[0])
        else:
            res.ok(construct, "no subtree identified by name")
    if n < 10:
        raise AnalysisError("NAME-AS-KEY: functions of utils.trees not found")
    return res


def _identity_use(mod: Module, node: ast.AST) -> Optional[str]:
    parent = mod.parent(node)
    if isinstance(parent, ast.Compare):
        ops = parent.ops
        if any(isinstance(op, (ast.In, ast.NotIn)) for op in ops) and parent.left is node:
            return "membership test"
        if any(isinstance(op, (ast.Eq, ast.NotEq)) for op in ops):
            other = [c for c in [parent.left] + list(parent.comparators) if c is not node]
            if any(isinstance(o, ast.Attribute) and o.attr == "name" for o in other):
                return "equality of two node names"
        return None
    if isinstance(parent, ast.Subscript) and parent.slice is node:
        return "dictionary key"
    if isinstance(parent, ast.Call) and isinstance(parent.func, ast.Attribute) and parent.func.attr in ("add", "discard", "remove") and node in parent.args:
        return "set element"
    if isinstance(parent, (ast.SetComp,)) and parent.elt is node:
        return "set element"
    if isinstance(parent, ast.DictComp) and parent.key is node:
        return "dictionary key"
    if isinstance(parent, ast.GeneratorExp) and parent.elt is node:
        gp = mod.parent(parent)
        if isinstance(gp, ast.Call) and dotted(gp.func) in ("set", "frozenset"):
            return "set element"
    if isinstance(parent, ast.Set):
        return "set element"
    return None


def _comp_over_leaves(mod: Module, node: ast.AST, var: str) -> bool:
    cur = mod.parent(node)
    while cur is not None and not isinstance(cur, FuncNode):
        if isinstance(cur, (ast.ListComp, ast.SetComp, ast.DictComp, ast.GeneratorExp)):
            for gen in cur.generators:
                if dotted(gen.target) == var and isinstance(gen.iter, ast.Call) and isinstance(gen.iter.func, ast.Attribute) and gen.iter.func.attr in ("iter_leaves", "get_leaves"):
                    return True
        cur = mod.parent(cur)
    return False


# ---------------------------------------------------------------------------
# SET-ALGEBRA-ARGS

SYNTENY_ALIASES = {"Synteny", "OrderedSynteny", "UnorderedSynteny"}
SET_METHODS = {"union", "difference", "intersection", "symmetric_difference", "update", "difference_update", "intersection_update", "issubset", "issuperset", "isdisjoint"}


def _ann_text(node: Optional[ast.AST]) -> str:
    return unparse(node) if node is not None else ""


def _value_kind(fn: ast.AST, expr: ast.AST) -> Optional[str]:
    """'synteny' when `expr` is statically a collection of gene families, 'syntenies' when it is a mapping /
    collection of such collections; None when unknown."""
    anns: Dict[str, str] = {}
    for a in fn.args.posonlyargs + fn.args.args + fn.args.kwonlyargs:  # type: ignore[attr-defined]
        anns[a.arg] = _ann_text(a.annotation)
    for node in walk_no_nested(fn):
        if isinstance(node, ast.AnnAssign) and isinstance(node.target, ast.Name):
            anns[node.target.id] = _ann_text(node.annotation)

    def kind_of_ann(text: str) -> Optional[str]:
        text = text.replace(" ", "")
        for alias in SYNTENY_ALIASES:
            if text == alias or text in (f"Optional[{alias}]",):
                return "synteny"
            if text.endswith(f",{alias}]") and text.split("[")[0] in ("Dict", "Mapping", "dict"):
                return "syntenies"
        if text in ("SyntenyMapping", "OrderedSyntenyMapping", "UnorderedSyntenyMapping"):
            return "syntenies"
        return None

    if isinstance(expr, ast.Name):
        return kind_of_ann(anns.get(expr.id, ""))
    if isinstance(expr, ast.Attribute) and expr.attr in ("leaf_syntenies", "syntenies"):
        return "syntenies"
    if isinstance(expr, ast.Subscript):
        base = _value_kind(fn, expr.value)
        if base == "syntenies":
            return "synteny"
    return None


def set_algebra_args(prog: Program) -> RuleResult:
    res = RuleResult(
        "SET-ALGEBRA-ARGS",
        "set algebra on gene families receives collections of families: a starred argument of union / "
        "difference / intersection / update must unpack a collection OF syntenies, never a synteny itself "
        "(unpacking a synteny passes each family NAME as an iterable of characters, which only works by accident "
        "for one-letter names)",
    )
    n = 0
    for modname in ("compute.unordered_super_reconciliation", "compute.super_reconciliation", MODEL, "model.synteny"):
        mod = prog.module(modname)
        for qual, fn in prog.defs(modname).items():
            if not isinstance(fn, FuncNode):
                continue
            bad = None
            sites = 0
            for call in walk_no_nested(fn):
                if not (isinstance(call, ast.Call) and isinstance(call.func, ast.Attribute) and call.func.attr in SET_METHODS):
                    continue
                for arg in call.args:
                    if isinstance(arg, ast.Starred):
                        sites += 1
                        if _value_kind(fn, arg.value) == "synteny":
                            bad = (call, arg)
            construct = f"{modname}:{qual}/set-algebra"
            if bad:
                n += 1
                res.fail(construct, f"`{short(bad[0], 100)}` unpacks the synteny `{short(bad[1].value)}`: each family name is then treated as a set of characters", mod, bad[0])
            elif sites:
                n += 1
                res.ok(construct, f"{sites} starred argument(s), none unpacks a synteny")
    for modname in ("compute.unordered_super_reconciliation",):
        res.ok(f"{modname}:<module>/set-algebra", "scanned", nontrivial=False)
    if n < 1:
        raise AnalysisError("SET-ALGEBRA-ARGS: no starred set-algebra call found (the required-content recurrence moved?)")
    return res


# ---------------------------------------------------------------------------
# LOSS-WALK

LAYOUT = "render.layout"


def loss_walk(prog: Program) -> RuleResult:
    from ..relmodel import TreeModel, Undefined
    from ..walk import UNKNOWN, Token, Walk

    res = RuleResult(
        "LOSS-WALK",
        "abstract execution of _add_losses over the relational tree model, for every lineage (start species, end "
        "species strictly above it or the virtual parent of the root): exactly one virtual loss node is created in "
        "every species strictly between the two, registered as a branch and as an anchor of THAT species; its single "
        "child link is the node created one level below (the real gene at the first level) and sits on the side "
        "(`left` for children[0], `right` for children[1]) the lineage comes from, the other side being None; the "
        "function returns the topmost node (the gene itself when nothing is lost)",
    )
    mod = prog.module(LAYOUT)
    fn = prog.func(LAYOUT, "_add_losses")
    params = func_params(fn)
    n_defaults = len(fn.args.defaults)
    if len(params) < 4 or len(params) - n_defaults > 4:
        raise AnalysisError(f"_add_losses: expected (layout_state, gene, start_species, end_species[, optional...]), found {params}")
    p_state, p_gene, p_start, p_end = params[:4]
    extra_params = params[4:]  # optional extras (a colour handed in by the caller): values the model does not describe
    model = TreeModel(3)

    class StateMap:
        pass

    class StateRef:
        def __init__(self, species):
            self.species = species

    class LossWalk(Walk):
        def value(self, expr):
            if isinstance(expr, ast.Subscript):
                base = expr.value
                if isinstance(base, ast.Name) and isinstance(self.env.get(base.id), StateMap):
                    sp = self.value(expr.slice)
                    if not isinstance(sp, int):
                        raise Undefined("state of a species that does not exist")
                    return StateRef(sp)
            if isinstance(expr, ast.Call) and isinstance(expr.func, ast.Name) and not expr.args and not expr.keywords and expr.func.id[:1].isupper():
                return Token("virtual")
            return super().value(expr)

    def run(start: int, end):
        gene = Token("gene")
        events = {"branch": [], "anchor": []}

        def state_of(walk, node):
            """species when `node` denotes layout_state[s] (directly or through a local)"""
            try:
                v = walk.value(node)
            except (AnalysisError, Undefined):
                return None
            return v.species if isinstance(v, StateRef) else None

        def effect(walk, st) -> bool:
            if isinstance(st, ast.Expr) and isinstance(st.value, ast.Call) and isinstance(st.value.func, ast.Attribute):
                call = st.value
                tgt = call.func.value
                if call.func.attr in ("add", "append") and isinstance(tgt, ast.Subscript) and isinstance(tgt.slice, ast.Constant):
                    sp = state_of(walk, tgt.value)
                    if sp is not None and tgt.slice.value == "anchor_nodes" and call.args:
                        events["anchor"].append((sp, walk.value(call.args[0])))
                        return True
                    if sp is not None:
                        return True
            if isinstance(st, ast.Assign) and len(st.targets) == 1 and isinstance(st.targets[0], ast.Subscript):
                tgt = st.targets[0]
                inner = tgt.value
                if isinstance(inner, ast.Subscript) and isinstance(inner.slice, ast.Constant) and inner.slice.value == "branches":
                    sp = state_of(walk, inner.value)
                    if sp is not None:
                        events["branch"].append((sp, walk.value(tgt.slice), walk.value(st.value)))
                        return True
                # a store into a local record: the record is ONE object, whoever holds it sees the change
                if isinstance(inner, ast.Name) and isinstance(walk.env.get(inner.id), dict) and isinstance(tgt.slice, ast.Constant):
                    walk.env[inner.id][tgt.slice.value] = walk.value(st.value)
                    return True
                # deeper stores (colour of an existing branch) do not concern the walk
                depth = 0
                cur = tgt
                while isinstance(cur, ast.Subscript):
                    depth += 1
                    cur = cur.value
                if depth >= 3:
                    return True
            if isinstance(st, ast.If):
                stores = [n for n in ast.walk(st) if isinstance(n, (ast.Assign, ast.Expr, ast.AugAssign))]
                if stores and all(
                    isinstance(n, ast.Assign) and isinstance(n.targets[0], ast.Subscript) and isinstance(n.targets[0].slice, ast.Constant) and n.targets[0].slice.value == "color"
                    for n in stores
                ):
                    return True
            return False

        env = {p_state: StateMap(), p_gene: gene, p_start: start, p_end: end}
        env.update({p: UNKNOWN for p in extra_params})
        walk = LossWalk(model, env, "_add_losses", effect=effect)
        ret = walk.run(fn.body)
        return gene, events, ret

    lineages = []
    for start in model.nodes:
        cur = model.up(start)
        while True:
            lineages.append((start, cur))
            if cur is None:
                break
            cur = model.up(cur)
    verdicts: Dict[str, Optional[str]] = {"one-per-species": None, "side": None, "child-link": None, "anchor": None, "returns-top": None}

    def name(sp):
        return "the virtual parent of the root" if sp is None else f"species {sp}"

    for start, end in lineages:
        try:
            gene, events, ret = run(start, end)
        except Undefined as err:
            for k in verdicts:
                verdicts[k] = verdicts[k] or f"the walk from species {start} to {name(end)} steps outside the tree ({err})"
            continue
        # expected chain
        chain = []
        prev, cur = start, model.up(start)
        while cur != end:
            chain.append((cur, prev))
            prev, cur = cur, model.up(cur)
        where = f"lineage from species {start} up to {name(end)} ({len(chain)} loss(es) expected)"
        got_species = [sp for sp, _k, _v in events["branch"]]
        if got_species != [sp for sp, _p in chain]:
            verdicts["one-per-species"] = verdicts["one-per-species"] or f"{where}: loss branches are created in species {got_species}, expected {[sp for sp, _p in chain]}"
            continue
        below = gene
        for (sp, key, rec), (_sp, prev_sp) in zip(events["branch"], chain):
            if not isinstance(rec, dict) or "left" not in rec or "right" not in rec:
                raise AnalysisError("_add_losses: the branch record has no 'left'/'right' entries")
            side = "left" if model.children(sp)[0] == prev_sp else "right"
            other = "right" if side == "left" else "left"
            if rec[side] is None or rec[other] is not None:
                verdicts["side"] = verdicts["side"] or (
                    f"{where}: in species {sp} the lineage comes from children[{0 if side == 'left' else 1}] but the record has "
                    f"left={'set' if rec['left'] is not None else None}, right={'set' if rec['right'] is not None else None}"
                )
            linked = rec[side] if rec[side] is not None else rec[other]
            if linked is not below:
                verdicts["child-link"] = verdicts["child-link"] or f"{where}: the loss node of species {sp} links {linked!r}, not the node created one level below ({below!r})"
            if (sp, key) not in [(a, b) for a, b in events["anchor"]]:
                verdicts["anchor"] = verdicts["anchor"] or f"{where}: the loss node of species {sp} is not registered among the anchors of that species"
            below = key
        extra = [(sp, k) for sp, k in events["anchor"] if (sp, k) not in [(a, b) for a, b, _r in events["branch"]]]
        if extra:
            verdicts["anchor"] = verdicts["anchor"] or f"{where}: an anchor is registered in species {extra[0][0]} for a node that has no branch there"
        if ret is not below:
            verdicts["returns-top"] = verdicts["returns-top"] or f"{where}: the function returns {ret!r}, not the topmost node {below!r}"
    for key, problem in verdicts.items():
        construct = f"{LAYOUT}:_add_losses/walk/{key}"
        if problem:
            res.fail(construct, problem, mod, fn)
        else:
            res.ok(construct, f"{len(lineages)} lineages of the model")
    return res


# ---------------------------------------------------------------------------
# CLI-FLOW-TABLE

CLI = "cli.reconcile"


def cli_flow_table(prog: Program) -> RuleResult:
    res = RuleResult(
        "CLI-FLOW-TABLE",
        "decision table of the reconcile command, extracted by following the decided arm of every test for each "
        "case (kind of algorithm: one parameter / input + policy / super-input + policy; kind of input: plain / "
        "with syntenies; shape of the algorithm's answer: None / one output / empty / several): a "
        "super-reconciliation algorithm on an input without syntenies is never called and yields None; otherwise "
        "the algorithm is called once with the input (and the requested policy exactly when it takes one); the "
        "answer is normalised to a list, an empty one yields None, and the printed minimum is the cost of a "
        "returned solution; `reconcile` exits with status 1 exactly when there is nothing to write and otherwise "
        "writes every solution as one JSON document followed by a newline",
    )
    mod = prog.module(CLI)
    fn = prog.func(CLI, "call_algorithm")
    p_args, p_input = func_params(fn)[:2]

    def mentions(expr: ast.AST, *words: str) -> bool:
        text = unparse(expr)
        return all(w in text for w in words)

    def first_param_annotation(expr: ast.AST, index: int) -> bool:
        return (
            isinstance(expr, ast.Attribute) and expr.attr == "annotation" and isinstance(expr.value, ast.Subscript)
            and isinstance(expr.value.slice, ast.Constant) and expr.value.slice.value == index
        )

    def make_oracle(algo: str, inp: str, outshape: str):
        nparams = 1 if algo == "plain1" else 2
        algo_input = "super" if algo == "super2" else "plain"

        def oracle(expr: ast.AST, env) -> Optional[bool]:
            if isinstance(expr, ast.Compare) and len(expr.ops) == 1:
                left, right, op = expr.left, expr.comparators[0], expr.ops[0]
                eq = isinstance(op, (ast.Eq, ast.Is))
                if isinstance(op, (ast.Eq, ast.NotEq, ast.Is, ast.IsNot)):
                    for a, b in ((left, right), (right, left)):
                        if first_param_annotation(a, 0):
                            if isinstance(b, ast.Call) and dotted(b.func) == "type" and b.args and dotted(b.args[0]) == p_input:
                                return (algo_input == inp) == eq
                            name = dotted(b) or ""
                            if name.endswith("SuperReconciliationInput"):
                                return (algo_input == "super") == eq
                            if name.endswith("ReconciliationInput"):
                                return (algo_input == "plain") == eq
                        if first_param_annotation(a, 1) and (dotted(b) or "").endswith("RetentionPolicy"):
                            if nparams < 2:
                                raise AnalysisError("call_algorithm: the second parameter is inspected although the algorithm has one")
                            return eq
                        if isinstance(a, ast.Call) and dotted(a.func) == "len" and isinstance(b, ast.Constant) and isinstance(b.value, int) and mentions(a, "parameters"):
                            return (nparams == b.value) == eq
                        if isinstance(b, ast.Constant) and b.value is None and isinstance(a, ast.Call) and mentions(a, "algorithms"):
                            return (outshape == "none") == eq
            if isinstance(expr, ast.Call) and dotted(expr.func) == "isinstance" and len(expr.args) == 2 and mentions(expr.args[0], "algorithms"):
                cls = dotted(expr.args[1]) or ""
                if cls.endswith("ReconciliationOutput"):
                    return outshape == "single"
            # truthiness of the normalised list
            if isinstance(expr, ast.List):
                return bool(expr.elts)
            if isinstance(expr, ast.Call) and dotted(expr.func) == "list" and expr.args and mentions(expr.args[0], "algorithms"):
                return outshape == "many"
            return None

        return oracle

    def on_loop(st, out):
        raise AnalysisError("call_algorithm: loop not expected")

    for algo in ("plain1", "plain2", "super2"):
        for inp in ("plain", "super"):
            for outshape in ("none", "single", "empty", "many"):
                if algo == "plain1" and outshape in ("empty", "many"):
                    continue  # the one-parameter algorithm answers one output or None
                if algo != "plain1" and outshape in ("single",):
                    continue
                construct = f"{CLI}:call_algorithm/[{algo} on {inp} input, answer {outshape}]"
                out = run_cases(fn.body, make_oracle(algo, inp, outshape), where=construct)
                calls = [v for v in [out.env.get(k) for k in out.env] if isinstance(v, ast.Call) and mentions(v.func, "algorithms")]
                # calls of the algorithm: the value bound by `output = algo(...)`
                algo_calls = []
                for name_, val in out.env.items():
                    for c in ast.walk(val):
                        if isinstance(c, ast.Call) and isinstance(c.func, ast.Subscript) and mentions(c.func, "algorithms") and c not in algo_calls:
                            algo_calls.append(c)
                uniq = {unparse(c) for c in algo_calls}
                ret = out.exit[1] if out.exit and out.exit[0] == "return" else None
                ret_none = out.exit is None or ret is None or (isinstance(ret, ast.Constant) and ret.value is None)
                problems = []
                if algo == "super2" and inp == "plain":
                    if uniq:
                        problems.append("the super-reconciliation algorithm is called on an input without syntenies")
                    if not ret_none:
                        problems.append(f"the function returns `{short(ret)}` instead of None")
                else:
                    if len(uniq) != 1:
                        problems.append(f"the algorithm is called {len(uniq)} time(s)")
                    else:
                        call = algo_calls[0]
                        want_n = 1 if algo == "plain1" else 2
                        if not (call.args and dotted(call.args[0]) == p_input):
                            problems.append(f"the algorithm does not receive the input as first argument (`{short(call, 80)}`)")
                        if len(call.args) + len(call.keywords) != want_n:
                            problems.append(f"the algorithm is called with {len(call.args) + len(call.keywords)} argument(s), it takes {want_n}")
                        elif want_n == 2:
                            pol = call.args[1] if len(call.args) > 1 else call.keywords[0].value
                            if not (mentions(pol, "RetentionPolicy") and mentions(pol, f"{p_args}.solutions")):
                                problems.append(f"the policy argument `{short(pol)}` is not the requested `--solutions` policy")
                    expect_none = outshape in ("none", "empty")
                    if expect_none and not ret_none:
                        problems.append(f"nothing was found but the function returns `{short(ret)}`")
                    if not expect_none:
                        if ret_none:
                            problems.append("solutions were found but the function returns None")
                        else:
                            ok_list = (
                                (outshape == "single" and isinstance(ret, ast.List) and len(ret.elts) == 1 and mentions(ret.elts[0], "algorithms"))
                                or (outshape == "many" and isinstance(ret, ast.Call) and dotted(ret.func) == "list" and ret.args and mentions(ret.args[0], "algorithms"))
                            )
                            if not ok_list:
                                problems.append(f"the function returns `{short(ret, 80)}`, not the list of the solutions found")
                            prints = [e for k, e in out.events if k == "call" and dotted(e.func) == "print" and any(isinstance(x, ast.Call) and isinstance(x.func, ast.Attribute) and x.func.attr == "cost" for a in e.args for x in ast.walk(a))]
                            if not prints:
                                problems.append("the minimum cost is not printed")
                            else:
                                costcall = next(x for a in prints[0].args for x in ast.walk(a) if isinstance(x, ast.Call) and isinstance(x.func, ast.Attribute) and x.func.attr == "cost")
                                src = costcall.func.value
                                if not (isinstance(src, ast.Subscript) and isinstance(src.slice, ast.Constant) and src.slice.value in (0, -1) and mentions(src.value, "algorithms")):
                                    problems.append(f"the printed cost `{short(costcall, 80)}` is not the cost of a solution that always exists in a non-empty result (first or last)")
                                to_err = any(kw.arg == "file" and mentions(kw.value, "stderr") for kw in prints[0].keywords)
                                if not to_err:
                                    problems.append("the minimum cost is printed on the output stream, inside the JSON documents")
                if problems:
                    res.fail(construct, "; ".join(problems), mod, fn)
                else:
                    res.ok(construct, "as documented")

    # reconcile: exit status
    rfn = prog.func(CLI, "reconcile")
    for nothing in (True, False):
        construct = f"{CLI}:reconcile/[{'nothing to write' if nothing else 'solutions found'}]"

        def oracle(expr: ast.AST, env, nothing=nothing) -> Optional[bool]:
            if isinstance(expr, ast.Compare) and len(expr.ops) == 1 and isinstance(expr.ops[0], (ast.Is, ast.IsNot, ast.Eq, ast.NotEq)):
                left, right = expr.left, expr.comparators[0]
                if isinstance(right, ast.Constant) and right.value is None and isinstance(left, ast.Call) and (dotted(left.func) or "").endswith("call_algorithm"):
                    return nothing == isinstance(expr.ops[0], (ast.Is, ast.Eq))
            if isinstance(expr, ast.Call) and (dotted(expr.func) or "").endswith("call_algorithm"):
                return not nothing
            return None

        out = run_cases(rfn.body, oracle, where=construct)
        ret = out.exit[1] if out.exit and out.exit[0] == "return" else None
        dumps = [e for k, e in out.events if k == "call" and (dotted(e.func) or "").endswith("dump_results")]
        if isinstance(ret, ast.Call) and (dotted(ret.func) or "").endswith("dump_results"):
            dumps.append(ret)
        if nothing:
            if dumps:
                res.fail(construct, "results are written although there is none", mod, rfn)
            elif not (isinstance(ret, ast.Constant) and ret.value == 1 and not isinstance(ret.value, bool)):
                res.fail(construct, f"the exit status is `{short(ret)}`, the documented status is 1", mod, rfn)
            else:
                res.ok(construct, "status 1, nothing written")
        else:
            if len(dumps) != 1:
                res.fail(construct, f"the solutions are written {len(dumps)} time(s)", mod, rfn)
            elif isinstance(ret, ast.Constant) and ret.value not in (None, 0):
                res.fail(construct, f"the exit status is {ret.value} although solutions were written", mod, rfn)
            else:
                res.ok(construct, "solutions written, status 0")

    # dump_results: one document and one newline per solution
    dfn = prog.func(CLI, "dump_results")
    d_args, d_results = func_params(dfn)[:2]
    construct = f"{CLI}:dump_results/one-document-per-solution"
    loops = [st for st in dfn.body if isinstance(st, ast.For)]
    if len(loops) != 1 or dotted(loops[0].iter) != d_results or not isinstance(loops[0].target, ast.Name):
        res.fail(construct, f"the writer does not loop over every solution of `{d_results}`", mod, dfn)
    else:
        loop = loops[0]
        var = loop.target.id
        body_calls = [st.value for st in loop.body if isinstance(st, ast.Expr) and isinstance(st.value, ast.Call)]
        dumps = [c for c in body_calls if (dotted(c.func) or "").endswith("dump")]
        problems = []
        if len(dumps) != 1:
            problems.append(f"{len(dumps)} JSON document(s) per solution")
        else:
            c = dumps[0]
            doc = c.args[0] if c.args else None
            fp = c.args[1] if len(c.args) > 1 else kwarg(c, "fp")
            if not (isinstance(doc, ast.Call) and isinstance(doc.func, ast.Attribute) and doc.func.attr == "to_dict" and dotted(doc.func.value) == var):
                problems.append(f"the document is `{short(doc)}`, not the dictionary form of the solution")
            def is_output(e: Optional[ast.AST], at: ast.AST) -> bool:
                """`<args>.output`, directly or through a local bound to it"""
                if isinstance(e, ast.Name):
                    got = reaching(dfn, e.id, at)
                    e = got if got is not None and not isinstance(got, Opaque) else e
                return e is not None and dotted(e) == f"{d_args}.output"

            if not is_output(fp, c):
                problems.append(f"the document goes to `{short(fp)}`, not to the output file")
            after = body_calls[body_calls.index(c) + 1:]
            newline = [
                x for x in after
                if (dotted(x.func) == "print" and any(kw.arg == "file" and is_output(kw.value, x) for kw in x.keywords))
                or (isinstance(x.func, ast.Attribute) and x.func.attr == "write" and is_output(x.func.value, x))
            ]
            if not newline:
                problems.append("no newline separates the documents (the output is no longer one JSON object per line)")
            if any(conditions(dfn, x) for x in [c] + newline):
                problems.append("a solution is written only under a condition")
        if problems:
            res.fail(construct, "; ".join(problems), mod, loop)
        else:
            res.ok(construct, "json.dump(solution.to_dict(), output) + newline for every solution")
    return res


# ---------------------------------------------------------------------------
# CANDIDATE-GUARDS

FILL_FUNCTIONS = [
    ("compute.reconciliation", "_compute_thl_table"),
    ("compute.reconciliation", "_compute_thl_try_speciation"),
    ("compute.reconciliation", "_compute_thl_try_duplication_transfer"),
    ("compute.super_reconciliation", "_compute_spfs_table"),
    ("compute.super_reconciliation", "_compute_spfs_entry"),
    ("compute.unordered_super_reconciliation", "_compute_uspfs_table"),
    ("compute.unordered_super_reconciliation", "_compute_uspfs_entry"),
]
ORDER_PREDICATES = {"is_ancestor_of", "is_strict_ancestor_of", "is_comparable"}


def _guard_kind(fn: ast.AST, test: ast.AST, pol: bool = True, depth: int = 0) -> Optional[str]:
    """Kind of a guard that cannot exclude a finite valid candidate when it evaluates to `pol`, or None."""
    if depth > 4:
        return None
    if isinstance(test, ast.UnaryOp) and isinstance(test.op, ast.Not):
        return _guard_kind(fn, test.operand, not pol, depth + 1)
    if isinstance(test, ast.BoolOp):
        conj = isinstance(test.op, ast.And)
        # conjunction of facts, or (for `not (a and b)` / `a or b`) a disjunction of them: every part must be of
        # an accepted kind IN ITS OWN POLARITY
        kinds = [_guard_kind(fn, v, pol, depth + 1) for v in test.values]
        return "+".join(sorted(set(kinds))) if all(kinds) else None
    if isinstance(test, ast.Call) and isinstance(test.func, ast.Attribute):
        if test.func.attr == "is_leaf" and not test.args:
            return "leaf test"
        if test.func.attr in ORDER_PREDICATES:
            return "order predicate"
        if test.func.attr == "is_infinite":
            # skipping an infinite candidate is harmless; offering candidates only while something is still
            # infinite ("already solved, skip the rest") is a pruning argument
            return "infinity test" if not pol else None
    if isinstance(test, ast.Call) and dotted(test.func) == "is_infinite":
        return "infinity test" if not pol else None
    if isinstance(test, ast.Name):
        defs = [a for a in walk_no_nested(fn) if isinstance(a, ast.Assign) and any(isinstance(t, ast.Name) and t.id == test.id for t in a.targets)]
        if defs and all(_guard_kind(fn, a.value, pol, depth + 1) for a in defs):
            return _guard_kind(fn, defs[0].value, pol, depth + 1)
        return None
    if isinstance(test, ast.Compare) and len(test.ops) == 1:
        sides = [test.left, test.comparators[0]]
        for a, b in (sides, sides[::-1]):
            if isinstance(a, ast.Name) and isinstance(b, (ast.Constant, ast.UnaryOp)):
                defs = [d for d in walk_no_nested(fn) if isinstance(d, ast.Assign) and any(isinstance(t, ast.Name) and t.id == a.id for t in d.targets)]
                if defs and all(isinstance(d.value, ast.Call) and (dotted(d.value.func) or "").endswith("subseq_segment_dist") for d in defs):
                    return "sentinel test"
    return None


def _dominating_tests(fn: ast.AST, node: ast.AST) -> List[Tuple[ast.AST, Optional[bool]]]:
    """`guards` plus the early exits that precede the statement in its enclosing blocks.

    (test, True/False): the test has that value whenever the statement runs;
    (test, None): the statement is skipped on SOME path on which the test matters (a conditional
    `continue` / `return` nested in an earlier statement): the test must be harmless either way."""
    out: List[Tuple[ast.AST, Optional[bool]]] = list(conditions(fn, node))
    cur = node
    parents: Dict[int, ast.AST] = {}
    for parent in ast.walk(fn):
        for child in ast.iter_child_nodes(parent):
            parents[id(child)] = parent
    while cur is not fn and id(cur) in parents:
        parent = parents[id(cur)]
        for fld in ("body", "orelse"):
            block = getattr(parent, fld, None)
            if isinstance(block, list) and any(st is cur for st in block):
                for st in block:
                    if st is cur:
                        break
                    if isinstance(st, ast.If) and not st.orelse and always_exits(st.body):
                        out.append((st.test, False))
                        continue
                    # exits nested deeper in an earlier statement
                    stack = [(st, False)]
                    while stack:
                        sub, in_loop = stack.pop()
                        for child in ast.iter_child_nodes(sub):
                            if isinstance(child, FuncNode + (ast.Lambda,)):
                                continue
                            inner_loop = in_loop or isinstance(sub, (ast.For, ast.While))
                            if isinstance(child, ast.Return) or (isinstance(child, (ast.Continue, ast.Break)) and not inner_loop):
                                for g, p_ in guards(fn, child):
                                    if any(n is g for n in ast.walk(st)):
                                        # the statement runs when NOT all conditions of the exit hold: this one negated
                                        out.append((g, not p_))
                            stack.append((child, inner_loop))
        cur = parent
    return out


def candidate_guards(prog: Program) -> RuleResult:
    res = RuleResult(
        "CANDIDATE-GUARDS",
        "in the table-filling functions of the three solvers every test that dominates a candidate (an `update` of "
        "an aggregate or table entry, a table store, a call of a fill helper) is of a kind that cannot exclude a "
        "finite valid candidate: a leaf test, an ancestor-order predicate between the species involved, the -1 "
        "sentinel of subseq_segment_dist, an infinity test (or a local bound to one of these).  Any other guard is "
        "a pruning argument (`a speciation can only happen at the covering species`, `a family no leaf carries`) - "
        "such arguments are where candidates that matter get lost",
    )
    n = 0
    for modname, qual in FILL_FUNCTIONS:
        if not prog.has_func(modname, qual):
            raise AnalysisError(f"fill function {modname}:{qual} not found")
        mod = prog.module(modname)
        fn = prog.func(modname, qual)
        sinks: List[ast.AST] = []
        for node in walk_no_nested(fn):
            if isinstance(node, ast.Call):
                if isinstance(node.func, ast.Attribute) and node.func.attr == "update":
                    sinks.append(node)
                elif isinstance(node.func, ast.Name) and node.func.id.startswith("_compute_") and resolve_callee(prog, mod, node.func) is not None:
                    sinks.append(node)
            elif isinstance(node, ast.Assign) and isinstance(node.targets[0], ast.Subscript) and isinstance(node.value, ast.Call) and (dotted(node.value.func) or "").endswith("Candidate"):
                sinks.append(node)
        construct = f"{modname}:{qual}/candidate-guards"
        bad = None
        kinds: Set[str] = set()
        for sink in sinks:
            for test, pol_ in _dominating_tests(fn, sink):
                kind = _guard_kind(fn, test, pol_)
                if kind is None:
                    bad = (sink, test)
                    break
                kinds.add(kind)
            if bad:
                break
            # a conditional expression that chooses WHICH batch of candidates an update receives is a guard too
            if isinstance(sink, ast.Call) and isinstance(sink.func, ast.Attribute) and sink.func.attr == "update":
                for arg in sink.args:
                    inner = arg.value if isinstance(arg, ast.Starred) else arg
                    if isinstance(inner, ast.Name):
                        got = reaching(fn, inner.id, sink)
                        inner = got if got is not None and not isinstance(got, Opaque) else inner
                    if isinstance(inner, ast.IfExp):
                        kind = _guard_kind(fn, inner.test, True)
                        if kind is None or kind == "infinity":
                            bad = (sink, inner.test)
                            break
                        kinds.add(kind)
            if bad:
                break
        n += len(sinks)
        if bad:
            res.fail(construct, f"the candidate `{short(bad[0], 60)}` is only offered when `{short(bad[1], 90)}`: that is not a leaf / order / sentinel / infinity test, i.e. a pruning argument", mod, bad[0])
        else:
            res.ok(construct, f"{len(sinks)} candidate site(s); guards: {', '.join(sorted(kinds)) or 'none'}")
    if n < 20:
        raise AnalysisError(f"CANDIDATE-GUARDS: only {n} candidate sites found in the fill functions")
    return res


# ---------------------------------------------------------------------------
# MASK-RANGE


def mask_range(prog: Program) -> RuleResult:
    from ..sym import Poly
    from .ancestry import _Pow2Norm

    res = RuleResult(
        "MASK-RANGE",
        "in both ordered drivers the candidate syntenies of every object node other than the root are ALL "
        "subsequences of the root order: `range(2 ** len(order))` (or the same from 1 - the empty mask is never "
        "feasible); only the root may be restricted to the complete sequence.  The polarity of the root test "
        "decides which of the two every ancestral node gets",
    )
    modname = "compute.super_reconciliation"
    mod = prog.module(modname)
    norm = _Pow2Norm()
    n = 0
    for qual in ("sreconcile_base_spfs", "sreconcile_extended_spfs"):
        fn = prog.func(modname, qual)
        input_param = func_params(fn)[0]
        # the callable that enumerates candidate syntenies: the two-parameter lambda handed to the driver whose body
        # builds masks (a `range(...)` or the complete mask)
        lambdas = [
            v for c in calls_in(fn) for v in list(c.args) + [kw.value for kw in c.keywords]
            if isinstance(v, ast.Lambda) and len(v.args.args) == 2
            and any(isinstance(x, ast.Call) and (dotted(x.func) == "range" or (dotted(x.func) or "").endswith("subseq_complete")) for x in ast.walk(v.body))
        ]
        construct = f"{modname}:{qual}/non-root-masks"
        helper_fn = None
        if not lambdas:
            # the lambda hands its two arguments to a helper of the module that enumerates the masks
            for c in calls_in(fn):
                for v in list(c.args) + [kw.value for kw in c.keywords]:
                    if isinstance(v, ast.Lambda) and len(v.args.args) == 2 and isinstance(v.body, ast.Call) and isinstance(v.body.func, ast.Name):
                        got = resolve_callee(prog, mod, v.body.func)
                        if got is None or not isinstance(got[1], FuncNode) or got[0] is not mod:
                            continue
                        if not any(isinstance(x, ast.Call) and (dotted(x.func) == "range" or (dotted(x.func) or "").endswith("subseq_complete")) for x in ast.walk(got[1])):
                            continue
                        hp = func_params(got[1])
                        given = {hp[i]: dotted(a) for i, a in enumerate(v.body.args) if i < len(hp)}
                        given.update({k.arg: dotted(k.value) for k in v.body.keywords if k.arg})
                        back = {val: key for key, val in given.items() if val}
                        lp = [a.arg for a in v.args.args]
                        if lp[0] in back and lp[1] in back:
                            helper_fn, lam = got[1], v
                            lparams = [back[lp[0]], back[lp[1]]]
        if helper_fn is None:
            if len(lambdas) != 1:
                raise AnalysisError(f"{qual}: the lambda enumerating candidate syntenies was not found")
            lam = lambdas[0]
            lparams = [a.arg for a in lam.args.args]
        if len(lparams) != 2:
            raise AnalysisError(f"{qual}: allowed_syntenies does not take (ordering, object)")
        p_order, p_obj = lparams
        n += 1

        def is_root_test(test: ast.AST) -> Optional[bool]:
            """polarity: True when `test` holds exactly for the root object"""
            if isinstance(test, ast.UnaryOp) and isinstance(test.op, ast.Not):
                inner = is_root_test(test.operand)
                return None if inner is None else not inner
            if isinstance(test, ast.Compare) and len(test.ops) == 1 and isinstance(test.ops[0], (ast.Eq, ast.Is, ast.NotEq, ast.IsNot)):
                sides = {dotted(test.left), dotted(test.comparators[0])}
                if p_obj in sides and (f"{input_param}.object_tree" in sides or (helper_fn is not None and any((x or "").endswith(".object_tree") for x in sides))):
                    return isinstance(test.ops[0], (ast.Eq, ast.Is))
            if isinstance(test, ast.Call) and isinstance(test.func, ast.Attribute) and test.func.attr == "is_root" and dotted(test.func.value) == p_obj:
                return True
            return None

        if helper_fn is not None:
            # every answer of the helper that is not given under the root test is what the other nodes get
            others = []
            for r in walk_no_nested(helper_fn):
                if isinstance(r, ast.Return) and r.value is not None:
                    pols = [p if pol else (None if p is None else not p) for t, pol in _dominating_tests(helper_fn, r) for p in [is_root_test(t)] if pol is not None]
                    if any(p is True for p in pols):
                        continue
                    others.append(r.value)
            if not others:
                raise AnalysisError(f"{construct}: the helper has no answer for the nodes below the root")
            body = others[0]
            for o in others[1:]:
                body = o if not (isinstance(o, ast.Call) and dotted(o.func) == "range") else body
        else:
            body = lam.body
        non_root = body
        if isinstance(body, ast.IfExp):
            pol = is_root_test(body.test)
            if pol is None:
                raise AnalysisError(f"{construct}: test `{short(body.test)}` is not a root test")
            non_root = body.orelse if pol else body.body
        ok = False
        if isinstance(non_root, ast.Call) and dotted(non_root.func) == "range" and 1 <= len(non_root.args) <= 2:
            lo = non_root.args[0] if len(non_root.args) == 2 else ast.Constant(value=0)
            hi = non_root.args[-1]
            lo_ok = isinstance(lo, ast.Constant) and lo.value in (0, 1)
            hi_ok = norm.poly(hi) == Poly.atom(f"pow2[len({p_order})]")
            ok = lo_ok and hi_ok
        if ok:
            res.ok(construct, f"`{short(non_root)}` for every node but the root")
        else:
            res.fail(construct, f"every object node other than the root is offered `{short(non_root)}` as candidate syntenies, not all 2**len({p_order}) subsequences of the root order: labellings with losses above the leaves are no longer searched", mod, lam)
    return res


# ---------------------------------------------------------------------------
# TREE-ITER-EXPLICIT


def _tree_typed(fn: ast.AST, expr: ast.AST, depth: int = 0) -> bool:
    if depth > 3:
        return False
    if isinstance(expr, ast.Attribute) and expr.attr in ("object_tree", "tree", "species_tree", "gene_tree"):
        return True
    if isinstance(expr, ast.Name):
        for a in fn.args.posonlyargs + fn.args.args + fn.args.kwonlyargs:  # type: ignore[attr-defined]
            if a.arg == expr.id and a.annotation is not None and unparse(a.annotation) in ("Tree", "TreeNode", "PhyloTree", "Optional[Tree]"):
                return True
        defs = [d for d in walk_no_nested(fn) if isinstance(d, ast.Assign) and any(isinstance(t, ast.Name) and t.id == expr.id for t in d.targets)]
        return bool(defs) and all(_tree_typed(fn, d.value, depth + 1) for d in defs)
    if isinstance(expr, ast.Call) and dotted(expr.func) in ("Tree",):
        return True
    return False


def _stringish(expr: ast.AST) -> bool:
    if isinstance(expr, ast.JoinedStr) or (isinstance(expr, ast.Constant) and isinstance(expr.value, str)):
        return True
    if isinstance(expr, ast.Attribute) and expr.attr == "name":
        return True
    if isinstance(expr, ast.Call) and dotted(expr.func) in ("str", "repr", "format"):
        return True
    if isinstance(expr, ast.BinOp) and isinstance(expr.op, (ast.Add, ast.Mod)):
        return _stringish(expr.left) or _stringish(expr.right)
    return False


TREE_ITER_EXEMPT = {
    # (module, function): reason - confirmed by reading
    ("model.tree_mapping", "get_species_mapping"): "extracts the LEAF mapping (object leaves onto extant species) from leaf names: "
    "iterating the leaves of both trees is what it wants",
}


def tree_iter_explicit(prog: Program) -> RuleResult:
    res = RuleResult(
        "TREE-ITER-EXPLICIT",
        "a tree is never iterated, counted or materialised directly (`for x in tree`, a comprehension over `tree`, "
        "`len(tree)`, `list(tree)`, `set(tree)`): ete3 then yields / counts the LEAVES only, so ancestral nodes "
        "(internal species, the root entry of a mapping, names already in use) are silently skipped; every walk "
        "names its traversal (`traverse`, `iter_leaves`, `iter_descendants`, ...)",
    )
    n = 0
    for mod in sorted(prog.modules.values(), key=lambda m: m.relpath):
        key = _modkey(mod)
        bad = []
        for qual, fn in prog.defs(mod.name).items():
            if not isinstance(fn, FuncNode):
                continue
            for node in walk_no_nested(fn):
                it = None
                if isinstance(node, (ast.For, ast.comprehension)):
                    it = node.iter
                elif isinstance(node, ast.Call) and dotted(node.func) in ("len", "list", "set", "tuple", "sorted", "iter", "enumerate") and len(node.args) >= 1:
                    it = node.args[0]
                if isinstance(node, ast.Compare) and len(node.ops) == 1 and isinstance(node.ops[0], (ast.In, ast.NotIn)) and _tree_typed(fn, node.comparators[0]):
                    # ete3's __contains__: for a node, membership among the STRICT descendants; for a string, the
                    # names of all nodes (root included) - only the first form loses the root
                    n += 1
                    if not _stringish(node.left):
                        bad.append((qual, node, node))
                    continue
                if it is None:
                    continue
                n += 1
                if _tree_typed(fn, it):
                    if (key, qual) in TREE_ITER_EXEMPT:
                        res.ok(f"{key}:{qual}/direct-tree-iteration[exempt]", TREE_ITER_EXEMPT[(key, qual)], nontrivial=False)
                        continue
                    bad.append((qual, node if hasattr(node, "lineno") else it, it))
        if bad:
            for i, (qual, node, it) in enumerate(bad):
                if isinstance(it, ast.Compare):
                    res.fail(f"{key}:{qual}/direct-tree-iteration#{i}", f"`{short(it)}` asks the tree itself for membership: ete3 answers for the strict descendants of the node only (the root is 'not in' its own tree)", mod, node)
                    continue
                res.fail(f"{key}:{qual}/direct-tree-iteration#{i}", f"`{short(it)}` is iterated / counted directly: only its leaves are seen", mod, node)
        else:
            res.ok(f"{key}:<module>/tree-iteration", "every walk names its traversal")
    if n < 50:
        raise AnalysisError(f"TREE-ITER-EXPLICIT: only {n} iterations found in the package")
    return res


# ---------------------------------------------------------------------------
# COST-NO-ROUNDING

ROUNDERS = {"int", "round", "floor", "ceil", "trunc"}


def cost_no_rounding(prog: Program) -> RuleResult:
    res = RuleResult(
        "COST-NO-ROUNDING",
        "a unit cost is never rounded or truncated on its way from the command line to the recurrences: the parser "
        "given as `type=` of the --cost-* options contains no int() / round() / floor / ceil / trunc, and no such "
        "call is applied to a value derived from the cost vector in the solvers (fractional costs are legitimate; "
        "the reported minimum must be the cost under the REQUESTED vector)",
    )
    cli = prog.module("cli.reconcile")
    parsers: Set[str] = set()
    for call in calls_in(cli.tree):
        if isinstance(call.func, ast.Attribute) and call.func.attr == "add_argument":
            flag = call.args[0] if call.args else None
            is_cost = isinstance(flag, ast.JoinedStr) and any(isinstance(v, ast.Constant) and "cost" in str(v.value) for v in flag.values)
            is_cost = is_cost or (isinstance(flag, ast.Constant) and "cost" in str(flag.value))
            if is_cost:
                t = kwarg(call, "type")
                if t is not None and dotted(t):
                    parsers.add(dotted(t))
    if not parsers:
        raise AnalysisError("COST-NO-ROUNDING: the `type=` parser of the cost options was not found")
    for name in sorted(parsers):
        construct = f"cli.reconcile:{name}/no-rounding"
        if name in ("float", "eval", "Fraction", "Decimal"):
            res.ok(construct, f"`{name}` keeps fractional values")
            continue
        if name in ROUNDERS:
            res.fail(construct, f"cost options are parsed with `{name}`: fractional costs are truncated", cli, cli.tree)
            continue
        if not prog.has_func("cli.reconcile", name):
            raise AnalysisError(f"{construct}: parser not resolved")
        fn = prog.func("cli.reconcile", name)
        bad = [c for c in walk_no_nested(fn) if isinstance(c, ast.Call) and (dotted(c.func) or "").split(".")[-1] in ROUNDERS]
        if bad:
            res.fail(construct, f"`{short(bad[0])}` rounds the requested cost (1.5 becomes 1): the tool then optimises and reports under another vector than the one asked for", cli, bad[0])
        else:
            res.ok(construct, "the parsed value is returned as it is")
        # the option is documented as an EXPRESSION ("Evaluate a cost expression in the context of this module"):
        # `float('inf')` forbids an event, `3/2` is a fractional cost - a literal-only parser rejects both
        construct = f"cli.reconcile:{name}/expressions"
        literal_only = [c for c in walk_no_nested(fn) if isinstance(c, ast.Call) and (dotted(c.func) or "").split(".")[-1] == "literal_eval" and c.args and isinstance(c.args[0], ast.Name) and c.args[0].id in func_params(fn)]
        evals = [c for c in walk_no_nested(fn) if isinstance(c, ast.Call) and dotted(c.func) == "eval"]
        if literal_only and not evals:
            res.fail(construct, f"`{short(literal_only[0])}` accepts Python literals only: cost expressions such as `float('inf')` (an event that is forbidden) or `3/2` are rejected by the argument parser, and nothing is written for them", cli, literal_only[0])
        else:
            res.ok(construct, "cost options are evaluated as expressions" if evals else "the parser accepts `inf`")
    solver_mods = ("compute.reconciliation", "compute.super_reconciliation", "compute.unordered_super_reconciliation", "compute.exhaustive")
    table = _cost_taint_table(prog, solver_mods)
    for modname in solver_mods:
        mod = prog.module(modname)
        bad = None
        for qual, fn in prog.defs(modname).items():
            if not isinstance(fn, FuncNode):
                continue
            tainted = table[(modname, qual)]
            for c in walk_no_nested(fn):
                if isinstance(c, ast.Call) and (dotted(c.func) or "").split(".")[-1] in ROUNDERS and any(_mentions_cost(a, tainted) for a in c.args):
                    bad = (qual, c)
        construct = f"{modname}:<module>/no-rounding"
        if bad:
            res.fail(f"{modname}:{bad[0]}/no-rounding", f"`{short(bad[1])}` rounds a value derived from the cost vector", mod, bad[1])
        else:
            res.ok(construct, "no rounding of cost-derived values")
    return res


# ---------------------------------------------------------------------------
# GAIN-AT-LCA


def gain_at_lca(prog: Program) -> RuleResult:
    res = RuleResult(
        "GAIN-AT-LCA",
        "each family is gained at the lowest common ancestor of ALL the leaves that carry it: the LCA oracle of the "
        "object tree is applied to the unpacked collection of carriers (`lca(*carriers)`), and that collection "
        "receives, unconditionally, every leaf of `leaf_syntenies` for every family of its synteny - not two "
        "representative leaves (`first`, `last`), whose choice depends on the listing order of the mapping",
    )
    modname = "compute.unordered_super_reconciliation"
    mod = prog.module(modname)
    fn = prog.func(modname, "_compute_gain_sets")
    oracles = {
        t.id for st in walk_no_nested(fn) if isinstance(st, ast.Assign) and isinstance(st.value, ast.Call) and (dotted(st.value.func) or "").endswith("LowestCommonAncestor")
        for t in st.targets if isinstance(t, ast.Name)
    }
    if not oracles:
        raise AnalysisError("_compute_gain_sets: LCA oracle of the object tree not found")
    calls = [c for c in walk_no_nested(fn) if isinstance(c, ast.Call) and isinstance(c.func, ast.Name) and c.func.id in oracles]
    if not calls:
        raise AnalysisError("_compute_gain_sets: the LCA oracle is never applied")
    for i, call in enumerate(calls):
        construct = f"{modname}:_compute_gain_sets/gain-node#{i}"
        if not (len(call.args) == 1 and isinstance(call.args[0], ast.Starred)):
            res.fail(construct, f"the gain node is `{short(call)}`: the LCA of {len(call.args)} chosen leaves, not of all the carriers of the family", mod, call)
            continue
        coll = call.args[0].value
        # the collection: loop variable of `for family, X in M.items()` or `M[family]`
        container = None
        if isinstance(coll, ast.Name):
            for loop in loops_around(fn, call):
                if isinstance(loop, ast.For) and isinstance(loop.target, ast.Tuple) and len(loop.target.elts) == 2 and dotted(loop.target.elts[1]) == coll.id:
                    it = loop.iter
                    if isinstance(it, ast.Call) and isinstance(it.func, ast.Attribute) and it.func.attr == "items":
                        container = dotted(it.func.value)
        elif isinstance(coll, ast.Subscript):
            container = dotted(coll.value)
        if container is None:
            raise AnalysisError(f"{construct}: carrier collection `{short(coll)}` not recognised")
        fills = [
            c for c in walk_no_nested(fn)
            if isinstance(c, ast.Call) and isinstance(c.func, ast.Attribute) and c.func.attr in ("add", "append") and isinstance(c.func.value, ast.Subscript) and dotted(c.func.value.value) == container
        ]
        ok = False
        why = f"`{container}` is never filled with the carrier leaves"
        for fill in fills:
            lps = [l for l in loops_around(fn, fill) if isinstance(l, ast.For)]
            outer = next((l for l in lps if isinstance(l.iter, ast.Call) and isinstance(l.iter.func, ast.Attribute) and l.iter.func.attr == "items" and (dotted(l.iter.func.value) or "").endswith("leaf_syntenies")), None)
            if outer is None or not isinstance(outer.target, ast.Tuple):
                why = "the carriers are not collected from every entry of leaf_syntenies"
                continue
            leaf_var, syn_var = (dotted(e) for e in outer.target.elts)
            inner = next((l for l in lps if l is not outer and dotted(l.iter) == syn_var), None)
            if inner is None:
                why = "the carriers are not collected for every family of the synteny"
                continue
            if dotted(fill.func.value.slice) != dotted(inner.target) or not fill.args or dotted(fill.args[0]) != leaf_var:
                why = f"`{short(fill)}` does not record the leaf under the family"
                continue
            if [g for g, _p in conditions(fn, fill)]:
                why = f"`{short(fill)}` is conditional"
                continue
            ok = True
        if ok:
            res.ok(construct, f"lca(*{container}[family]) with every carrier recorded")
        else:
            res.fail(construct, why, mod, call)
    return res


# ---------------------------------------------------------------------------
# STALE-INPUT


def stale_input(prog: Program) -> RuleResult:
    res = RuleResult(
        "STALE-INPUT",
        "inside the loop over the binary refinements of the input, the drivers read the REFINEMENT: the original "
        "(possibly multifurcating) input is not referenced in the loop body, and nothing computed from it before the "
        "loop (gain sets, precedence graph, trees) is used inside - except in the `total=` of a progress bar.  Data "
        "derived from the unrefined trees does not describe the nodes the refinement created",
    )
    for modname, qual in (("compute.super_reconciliation", "_spfs"), ("compute.unordered_super_reconciliation", "_uspfs")):
        mod = prog.module(modname)
        fn = prog.func(modname, qual)
        original = func_params(fn)[0]
        loops = []
        for node in walk_no_nested(fn):
            if isinstance(node, ast.For):
                src = [c for c in ast.walk(node.iter) if isinstance(c, ast.Call) and isinstance(c.func, ast.Attribute) and c.func.attr == "binarize" and dotted(c.func.value) == original]
                if src:
                    loops.append(node)
        if len(loops) != 1:
            raise AnalysisError(f"{modname}:{qual}: loop over `{original}.binarize()` not found")
        loop = loops[0]
        construct = f"{modname}:{qual}/refinement-only"
        # locals derived from the original input before the loop
        derived: Set[str] = set()
        for st in fn.body:
            if st is loop:
                break
            for a in ast.walk(st):
                if isinstance(a, ast.Assign) and any(isinstance(n, ast.Name) and n.id in derived | {original} for n in ast.walk(a.value)):
                    derived |= {t.id for t in a.targets if isinstance(t, ast.Name)}
        cosmetic: Set[int] = set()
        for c in ast.walk(loop):
            if isinstance(c, ast.Call):
                for kw in c.keywords:
                    if kw.arg in ("total", "desc"):
                        cosmetic |= {id(n) for n in ast.walk(kw.value)}
        bad = None
        for st in loop.body:
            for n in ast.walk(st):
                if isinstance(n, ast.Name) and isinstance(n.ctx, ast.Load) and n.id in derived | {original} and id(n) not in cosmetic:
                    bad = n
                    break
            if bad:
                break
        if bad is not None:
            what = "the unrefined input" if bad.id == original else f"`{bad.id}`, computed from the unrefined input before the loop,"
            res.fail(construct, f"{what} is used inside the loop over the refinements (`{short(mod.parent(bad) or bad, 80)}`)", mod, bad)
        else:
            res.ok(construct, f"the loop body reads `{dotted(loop.target)}` only (progress totals aside)")
    return res


# ---------------------------------------------------------------------------
# HASH-CANONICAL, NODE-OPAQUE


def hash_canonical(prog: Program) -> RuleResult:
    res = RuleResult(
        "HASH-CANONICAL",
        "`__hash__` of the model classes is insensitive to the order in which a mapping was filled, like `__eq__`: "
        "every `.items()` / `.keys()` / `.values()` it hashes is wrapped in `sorted(...)` or `frozenset(...)` (two "
        "equal solutions produced by different algorithms must meet in a set - that is how ALL removes duplicates)",
    )
    n = 0
    for modname in (MODEL,):
        mod = prog.module(modname)
        for qual, fn in prog.defs(modname).items():
            if not isinstance(fn, FuncNode) or qual.split(".")[-1] != "__hash__":
                continue
            n += 1
            construct = f"{modname}:{qual}/order-free"
            bad = None
            for call in walk_no_nested(fn):
                if isinstance(call, ast.Call) and isinstance(call.func, ast.Attribute) and call.func.attr in ("items", "keys", "values"):
                    if not any(isinstance(n_, ast.Name) and n_.id == "self" for n_ in ast.walk(call.func.value)):
                        continue  # not instance data (e.g. the fixed member table of an enumeration)
                    cur = call
                    wrapped = False
                    while True:
                        par = mod.parent(cur)
                        if par is None or par is fn:
                            break
                        if isinstance(par, ast.Call) and dotted(par.func) in ("sorted", "frozenset", "set", "sum", "len", "min", "max"):
                            wrapped = True
                            break
                        cur = par
                    if not wrapped:
                        bad = call
                        break
            if bad is not None:
                res.fail(construct, f"`{short(bad)}` is hashed in insertion order: equal objects whose mappings were filled in a different order hash differently", mod, bad)
            else:
                res.ok(construct, "mappings are hashed through sorted / frozenset")
    if n < 2:
        raise AnalysisError("HASH-CANONICAL: __hash__ methods of the model classes not found")
    return res


def node_opaque(prog: Program) -> RuleResult:
    res = RuleResult(
        "NODE-OPAQUE",
        "the ordering routines treat vertices as opaque hashable values: no `sorted` / `.sort` / `min` / `max` and no "
        "`<`-comparison is applied to vertices or vertex collections (a graph whose vertices are not mutually "
        "orderable - mixed labels, tuples with None - must not raise)",
    )
    mod = prog.module(TOPO)
    for qual, fn in prog.defs(TOPO).items():
        if not isinstance(fn, FuncNode):
            continue
        construct = f"{TOPO}:{qual}/vertices-opaque"
        gparams = [a.arg for a in fn.args.args if a.annotation is not None and "Node" in unparse(a.annotation)]
        bad = None
        for node in walk_no_nested(fn):
            if isinstance(node, ast.Call) and (dotted(node.func) in ("sorted", "min", "max") or (isinstance(node.func, ast.Attribute) and node.func.attr == "sort")):
                args = list(node.args) + ([node.func.value] if isinstance(node.func, ast.Attribute) else [])
                if any(isinstance(n, ast.Name) and (n.id in gparams or n.id in _vertex_locals(fn, gparams)) for a in args for n in ast.walk(a)) and not any(kw.arg == "key" for kw in node.keywords):
                    bad = node
                    break
        if bad is not None:
            res.fail(construct, f"`{short(bad)}` orders vertices: unorderable vertex labels raise TypeError", mod, bad)
        else:
            res.ok(construct, "vertices are only hashed and compared for equality")
    return res


def _vertex_locals(fn: ast.AST, gparams: List[str]) -> Set[str]:
    out: Set[str] = set()
    changed = True
    while changed:
        changed = False
        for node in walk_no_nested(fn):
            tgt = val = None
            if isinstance(node, ast.Assign) and len(node.targets) == 1 and isinstance(node.targets[0], ast.Name):
                tgt, val = node.targets[0].id, node.value
            elif isinstance(node, ast.For) and isinstance(node.target, ast.Name):
                tgt, val = node.target.id, node.iter
            if tgt and tgt not in out and val is not None and any(isinstance(n, ast.Name) and (n.id in gparams or n.id in out) for n in ast.walk(val)):
                out.add(tgt)
                changed = True
    return out


# ---------------------------------------------------------------------------
# UPDATE-ALL-CANDIDATES


def update_all_candidates(prog: Program) -> RuleResult:
    res = RuleResult(
        "UPDATE-ALL-CANDIDATES",
        "Entry.update examines every candidate it is offered, in one loop over the parameter itself: the candidate "
        "collection is not rebound, filtered or sliced beforehand (a pre-selection `candidates[:1]` under ANY drops a "
        "tagged optimum behind an untagged one; offering the same candidates one call at a time must be equivalent)",
    )
    mod = prog.module(DP)
    cls = prog.cls(DP, "Entry")
    fn = method_def(cls, "update")
    if fn is None:
        raise AnalysisError("Entry.update not found")
    var = fn.args.vararg.arg if fn.args.vararg else (func_params(fn)[1] if len(func_params(fn)) > 1 else None)
    if var is None:
        raise AnalysisError("Entry.update: candidate parameter not found")
    construct = f"{DP}:Entry.update/all-candidates"
    rebinds = [
        st for st in walk_no_nested(fn)
        if (isinstance(st, ast.Assign) and any(isinstance(t, ast.Name) and t.id == var for t in st.targets)
            and not (isinstance(st.value, ast.Call) and dotted(st.value.func) in ("list", "tuple") and len(st.value.args) == 1 and dotted(st.value.args[0]) == var))
        or (isinstance(st, ast.AugAssign) and isinstance(st.target, ast.Name) and st.target.id == var)
    ]
    loops = [l for l in walk_no_nested(fn) if isinstance(l, ast.For) and isinstance(l.iter, ast.Name) and l.iter.id == var]
    if rebinds:
        res.fail(construct, f"the candidates are replaced before they are examined (`{short(rebinds[0], 80)}`)", mod, rebinds[0])
    elif len(loops) != 1:
        res.fail(construct, f"expected one loop over `{var}` itself, found {len(loops)}", mod, fn)
    elif any(isinstance(n, (ast.Break, ast.Return)) for n in ast.walk(loops[0])):
        res.fail(construct, "the loop over the candidates can stop early (`break` / `return` inside it): the candidates that follow in the same batch are never examined", mod, loops[0])
    else:
        res.ok(construct, f"one loop over `*{var}`, never rebound")
    return res


# ---------------------------------------------------------------------------
# PRIVATE-INDEX, ITERABLE-ONCE


def private_index(prog: Program) -> RuleResult:
    res = RuleResult(
        "PRIVATE-INDEX",
        "the ancestry structure keeps what it computes to itself: LowestCommonAncestor and its helpers store into "
        "`self.*` only and never write an attribute or feature on the nodes of the tree they index (two structures "
        "built over overlapping trees - a clade and its enclosing tree - would overwrite each other's indices)",
    )
    mod = prog.module(TREES)
    n = 0
    for qual, fn in prog.defs(TREES).items():
        if not isinstance(fn, FuncNode) or not (qual.startswith("LowestCommonAncestor.") or qual.startswith("_euler")):
            continue
        n += 1
        construct = f"{TREES}:{qual}/private-index"
        bad = None
        for node in walk_no_nested(fn):
            if isinstance(node, ast.Call) and isinstance(node.func, ast.Attribute) and node.func.attr in ("add_feature", "add_features", "del_feature"):
                bad = node
            elif isinstance(node, ast.Call) and dotted(node.func) == "setattr" and node.args and dotted(node.args[0]) != "self":
                bad = node
            elif isinstance(node, (ast.Assign, ast.AugAssign)):
                for tgt in (node.targets if isinstance(node, ast.Assign) else [node.target]):
                    if isinstance(tgt, ast.Attribute):
                        root = tgt
                        while isinstance(root, (ast.Attribute, ast.Subscript)):
                            root = root.value
                        if not (isinstance(root, ast.Name) and root.id == "self"):
                            bad = node
        if bad is not None:
            res.fail(construct, f"`{short(bad, 80)}` writes on a node of the indexed tree: the index is shared by every structure built over that node", mod, bad)
        else:
            res.ok(construct, "stores into self only")
    if n < 3:
        raise AnalysisError("PRIVATE-INDEX: LowestCommonAncestor not found")
    return res


def iterable_once(prog: Program) -> RuleResult:
    res = RuleResult(
        "ITERABLE-ONCE",
        "a parameter annotated `Iterable[...]` / `Iterator[...]` promises nothing more than one pass: the function "
        "walks it at most once (and not inside a loop) unless it materialises it first - a generator argument is "
        "empty on the second pass, silently",
    )
    n = 0
    for mod in sorted(prog.modules.values(), key=lambda m: m.relpath):
        key = _modkey(mod)
        for qual, fn in prog.defs(mod.name).items():
            if not isinstance(fn, FuncNode):
                continue
            for a in fn.args.posonlyargs + fn.args.args + fn.args.kwonlyargs:
                ann = unparse(a.annotation) if a.annotation is not None else ""
                if not (ann.startswith("Iterable[") or ann.startswith("Iterator[") or ann in ("Iterable", "Iterator")):
                    continue
                if ann.startswith("Iterable[") and "Family" in ann or ann in ("Synteny",):
                    continue
                n += 1
                construct = f"{key}:{qual}/one-pass[{a.arg}]"
                materialised = any(
                    isinstance(st, ast.Assign) and any(isinstance(t, ast.Name) and t.id == a.arg for t in st.targets)
                    and isinstance(st.value, ast.Call) and dotted(st.value.func) in ("list", "tuple", "sorted", "set", "frozenset")
                    for st in fn.body[:3]
                )
                sites = []
                for use in walk_no_nested(fn):
                    if isinstance(use, (ast.For, ast.comprehension)) and isinstance(use.iter, ast.Name) and use.iter.id == a.arg:
                        anchor = use if isinstance(use, ast.For) else use.iter
                        inside = [l for l in loops_around(fn, anchor) if l is not use]
                        sites.append((anchor, bool(inside)))
                    elif isinstance(use, ast.Call) and any(isinstance(x, ast.Name) and x.id == a.arg for x in use.args):
                        fname = dotted(use.func) or ""
                        if fname in ("list", "tuple", "set", "sorted", "sum", "max", "min", "any", "all", "dict", "map", "filter", "zip", "enumerate", "chain"):
                            sites.append((use, bool(loops_around(fn, use))))
                if materialised or len(sites) <= 1 and not any(inl for _s, inl in sites):
                    res.ok(construct, "walked once" if not materialised else "materialised first")
                else:
                    second = sorted(sites, key=lambda s_: getattr(s_[0], "lineno", 0))[-1][0]
                    res.fail(construct, f"`{a.arg}` is annotated {ann} but walked {len(sites)} times (again at `{short(second, 60)}`): a one-shot iterable is empty on the second pass", mod, second)
    if n < 1:
        raise AnalysisError("ITERABLE-ONCE: no Iterable parameter found")
    return res


# ---------------------------------------------------------------------------
# BINARY-COARSENINGS


def binary_coarsenings(prog: Program) -> RuleResult:
    import itertools

    from ..miniexec import MiniExec

    res = RuleResult(
        "BINARY-COARSENINGS",
        "abstract execution of DisjointSet.binary (and its recursive helper) on the analyser's own partition model, "
        "for every partition of 1..5 blocks and EVERY listing order of the block representatives (the order of "
        "`list(set(...))` is arbitrary): the result consists of partitions with exactly two blocks, each a coarsening "
        "of the start partition, all different, and all 2**(k-1) - 1 of them; a partition of one block has none",
    )
    modname = "utils.disjoint_set"
    mod = prog.module(modname)
    cls = prog.cls(modname, "DisjointSet")
    fn = method_def(cls, "binary")
    if fn is None:
        raise AnalysisError("DisjointSet.binary not found")
    self_name = func_params(fn)[0]

    class Part:
        """k blocks labelled by their representatives; unions recorded as a union-find over the labels."""

        def __init__(self, reps, link=None):
            self.reps = list(reps)
            self.link = dict(link or {r: r for r in reps})

        def root(self, x):
            if x not in self.link:
                raise AnalysisError("DisjointSet.binary: unite() is given something that is not a block representative")
            while self.link[x] != x:
                x = self.link[x]
            return x

        def model_unite(self, a, b):
            ra, rb = self.root(a), self.root(b)
            if ra == rb:
                return False
            self.link[ra] = rb
            return True

        def model_find(self, a):
            return self.root(a)

        def model_copy(self):
            return Part(self.reps, self.link)

        def blocks(self):
            out = {}
            for r in self.reps:
                out.setdefault(self.root(r), set()).add(r)
            return frozenset(frozenset(b) for b in out.values())

    verdict = {"two-blocks": None, "no-repetition": None, "complete": None}
    n_runs = 0
    for k in range(1, 6):
        reps = [3 * i + 1 for i in range(k)]
        want = (2 ** (k - 1) - 1) if k >= 1 else 0
        for order in itertools.permutations(reps):
            n_runs += 1
            start = Part(reps)

            def special(me, expr, env, order=order, start=start):
                # the list of block representatives, in this run's listing order
                if any(isinstance(x, ast.Call) and isinstance(x.func, ast.Attribute) and x.func.attr == "find" for x in ast.walk(expr)):
                    return list(order)
                return NotImplemented

            builtins = {
                "deepcopy": lambda p: p.model_copy() if isinstance(p, Part) else (_ for _ in ()).throw(AnalysisError("deepcopy of a non-partition")),
                "copy.deepcopy": lambda p: p.model_copy(),
                "len": lambda x: len(x.blocks()) if isinstance(x, Part) else len(x),
                "list": lambda x: list(x),
                "__special__": special,
            }
            me = MiniExec("DisjointSet.binary", builtins)
            out = me.call_function(fn, [start], {})
            if not isinstance(out, list):
                raise AnalysisError("DisjointSet.binary: result is not a list on the model")
            shapes = []
            for p in out:
                if not isinstance(p, Part):
                    raise AnalysisError("DisjointSet.binary: result contains something that is not a partition")
                shapes.append(p.blocks())
            where = f"{k} block(s) listed as {list(order)}"
            bad2 = [sh for sh in shapes if len(sh) != 2]
            if bad2 and verdict["two-blocks"] is None:
                verdict["two-blocks"] = f"{where}: a returned partition has {len(bad2[0])} block(s)"
            if len(set(shapes)) != len(shapes) and verdict["no-repetition"] is None:
                verdict["no-repetition"] = f"{where}: {len(shapes) - len(set(shapes))} coarsening(s) returned more than once"
            good = {sh for sh in shapes if len(sh) == 2}
            if len(good) != want and verdict["complete"] is None:
                verdict["complete"] = f"{where}: {len(good)} distinct two-block coarsenings returned, there are {want}"
    for key, problem in verdict.items():
        construct = f"{modname}:DisjointSet.binary/{key}"
        if problem:
            res.fail(construct, problem, mod, fn)
        else:
            res.ok(construct, f"{n_runs} runs: partitions of 1..5 blocks in every listing order")
    return res


# ---------------------------------------------------------------------------
# WRAP-AFTER-ESCAPE, DRAW-COLOR-OWN


def wrap_after_escape(prog: Program) -> RuleResult:
    res = RuleResult(
        "WRAP-AFTER-ESCAPE",
        "labels are escaped first and wrapped afterwards: the wrap width bounds the characters that are emitted, so "
        "`tex.escape` is never applied to the result of `balanced_wrap` / `format_synteny` (escaping adds a "
        "character per underscore or backslash, which would push wrapped lines past the width)",
    )
    n = 0
    for modname in ("render.layout", "render.tikz"):
        mod = prog.module(modname)
        for qual, fn in prog.defs(modname).items():
            if not isinstance(fn, FuncNode):
                continue
            wraps = [c for c in walk_no_nested(fn) if isinstance(c, ast.Call) and (dotted(c.func) or "").split(".")[-1] in ("balanced_wrap", "format_synteny")]
            if not wraps:
                continue
            n += 1
            construct = f"{modname}:{qual}/escape-before-wrap"
            wrapped_names = {t.id for st in walk_no_nested(fn) if isinstance(st, ast.Assign) and any(w in list(ast.walk(st.value)) for w in wraps) for t in st.targets if isinstance(t, ast.Name)}
            bad = None
            for c in walk_no_nested(fn):
                if isinstance(c, ast.Call) and (dotted(c.func) or "").split(".")[-1] == "escape" and c.args:
                    arg = c.args[0]
                    if any(w in list(ast.walk(arg)) for w in wraps):
                        bad = c
                    elif isinstance(arg, ast.Name) and arg.id in wrapped_names:
                        # escape(name) where name was bound to a wrapped text BEFORE this call
                        defs = [st for st in walk_no_nested(fn) if isinstance(st, ast.Assign) and any(isinstance(t, ast.Name) and t.id == arg.id for t in st.targets) and any(w in list(ast.walk(st.value)) for w in wraps)]
                        if any(d.lineno < c.lineno for d in defs):
                            bad = c
            if bad is not None:
                res.fail(construct, f"`{short(bad, 90)}` escapes a text that is already wrapped: the emitted lines can exceed the wrap width", mod, bad)
            else:
                res.ok(construct, "what is wrapped is already escaped")
    if n < 2:
        raise AnalysisError("WRAP-AFTER-ESCAPE: wrapping call sites of the renderers not found")
    return res


def draw_color_own(prog: Program) -> RuleResult:
    res = RuleResult(
        "DRAW-COLOR-OWN",
        "everything `_tikz_draw_branches` draws for a branch (node, connectors, loss marker, transfer arrow) takes "
        "the colour of THAT branch: every `get_color(...)` argument is `<branch>.color` of the loop variable, never "
        "the colour of a child or of another branch (a child's own colour must not leak above the child)",
    )
    modname = "render.tikz"
    mod = prog.module(modname)
    fn = prog.func(modname, "_tikz_draw_branches")
    loops = [l for l in walk_no_nested(fn) if isinstance(l, ast.For) and isinstance(l.iter, ast.Call) and isinstance(l.iter.func, ast.Attribute) and l.iter.func.attr == "items" and isinstance(l.target, ast.Tuple) and len(l.target.elts) == 2]
    if len(loops) != 1:
        raise AnalysisError("_tikz_draw_branches: loop over the branches not found")
    branch_var = dotted(loops[0].target.elts[1])
    colour_fns = {p for p in func_params(fn) if any(isinstance(c, ast.Call) and dotted(c.func) == p and c.args and isinstance(c.args[0], ast.Attribute) and c.args[0].attr == "color" for c in ast.walk(fn))}
    if not colour_fns:
        raise AnalysisError("_tikz_draw_branches: colour interner parameter not found")
    calls = [c for c in ast.walk(loops[0]) if isinstance(c, ast.Call) and dotted(c.func) in colour_fns]
    bad = [c for c in calls if not (c.args and isinstance(c.args[0], ast.Attribute) and c.args[0].attr == "color" and dotted(c.args[0].value) == branch_var)]
    construct = f"{modname}:_tikz_draw_branches/own-colour"
    if bad:
        res.fail(construct, f"`{short(bad[0])}` colours part of the drawing of `{branch_var}` with another branch's colour", mod, bad[0])
    elif len(calls) < 5:
        raise AnalysisError(f"_tikz_draw_branches: only {len(calls)} coloured statements found")
    else:
        res.ok(construct, f"{len(calls)} coloured statements, all `{branch_var}.color`")
    return res


# ---------------------------------------------------------------------------
# PROXY-UPDATE-GATE


def proxy_update_gate(prog: Program) -> RuleResult:
    res = RuleResult(
        "PROXY-UPDATE-GATE",
        "EntryProxy.update forwards a batch of candidates to the real cell whenever ANY of them is finite - the gate "
        "is policy-neutral (`any(not is_infinite(c.value) ...)` over all candidates, or no gate at all); a gate that "
        "picks `min(...)` / `max(...)` of the batch takes the side of one merge policy and drops whole batches "
        "under the other",
    )
    mod = prog.module(DP)
    cls = prog.cls(DP, "EntryProxy")
    fn = method_def(cls, "update")
    if fn is None:
        raise AnalysisError("EntryProxy.update not found")
    var = fn.args.vararg.arg if fn.args.vararg else None
    forwards = [c for c in walk_no_nested(fn) if isinstance(c, ast.Call) and isinstance(c.func, ast.Attribute) and c.func.attr == "update" and any(isinstance(a, ast.Starred) and dotted(a.value) == var for a in c.args)]
    if var is None or len(forwards) != 1:
        raise AnalysisError("EntryProxy.update: forwarding `cell.update(*candidates)` not found")
    construct = f"{DP}:EntryProxy.update/gate"
    gs = guards(fn, forwards[0])
    gate = [g for g, pol in gs if any(isinstance(n_, ast.Name) and n_.id == var for n_ in ast.walk(g))]
    if not gate:
        res.ok(construct, "every batch is forwarded")
        return res
    problems = []
    for g in gate:
        if any(isinstance(c, ast.Call) and dotted(c.func) in ("min", "max", "sorted") for c in ast.walk(g)):
            problems.append(f"the gate `{short(g, 90)}` ranks the batch with min/max regardless of the merge policy")
            continue
        anys = [c for c in ast.walk(g) if isinstance(c, ast.Call) and dotted(c.func) == "any" and c.args and isinstance(c.args[0], ast.GeneratorExp)]
        ok = False
        for c in anys:
            gen = c.args[0]
            if len(gen.generators) == 1 and dotted(gen.generators[0].iter) == var and not gen.generators[0].ifs:
                elt = gen.elt
                if isinstance(elt, ast.UnaryOp) and isinstance(elt.op, ast.Not) and isinstance(elt.operand, ast.Call) and (dotted(elt.operand.func) or "").endswith("is_infinite"):
                    ok = True
        if not ok:
            raise AnalysisError(f"{construct}: gate `{short(g, 90)}` not recognised")
    if problems:
        res.fail(construct, "; ".join(problems), mod, gate[0])
    else:
        res.ok(construct, "forwarded when any candidate is finite")
    return res


# ---------------------------------------------------------------------------
# CHAINED-ASSIGN-ORDER


def chained_assign_order(prog: Program) -> RuleResult:
    res = RuleResult(
        "CHAINED-ASSIGN-ORDER",
        "in a chained assignment `a = b[...] = value` Python binds the targets left to right: a later target never "
        "reads a name that an earlier target of the same statement binds (`x = parent[x] = parent[parent[x]]` stores "
        "at the NEW x - in a union-find it makes the grandparent its own root and splits the block)",
    )
    n = 0
    for mod in sorted(prog.modules.values(), key=lambda m: m.relpath):
        key = _modkey(mod)
        bad = []
        for qual, fn in prog.defs(mod.name).items():
            if not isinstance(fn, FuncNode):
                continue
            for st in walk_no_nested(fn):
                if isinstance(st, ast.Assign) and len(st.targets) > 1:
                    n += 1
                    bound: Set[str] = set()
                    for tgt in st.targets:
                        reads = {x.id for x in ast.walk(tgt) if isinstance(x, ast.Name) and isinstance(x.ctx, ast.Load)}
                        if reads & bound:
                            bad.append((qual, st, sorted(reads & bound)[0]))
                            break
                        bound |= {x.id for x in ast.walk(tgt) if isinstance(x, ast.Name) and isinstance(x.ctx, ast.Store)}
        if bad:
            for i, (qual, st, name) in enumerate(bad):
                res.fail(f"{key}:{qual}/chained-assignment#{i}", f"`{short(st, 90)}`: the later target reads `{name}` after the earlier target has rebound it", mod, st)
        else:
            res.ok(f"{key}:<module>/chained-assignments", "no target reads a name bound earlier in the same statement", nontrivial=False)
    return res


# ---------------------------------------------------------------------------
# TRIPLES-SOURCE


def triples_source(prog: Program) -> RuleResult:
    res = RuleResult(
        "TRIPLES-SOURCE",
        "trees_to_triples returns EVERY triple of every input tree: the returned collection is a set / list that "
        "receives the whole triple lists (`update` / `extend` / `|=` / `add` of each triple); it is not a mapping "
        "keyed by part of a triple (one constraint per cherry loses ab|c when ab|d came first) and not filtered",
    )
    mod = prog.module(TREES)
    fn = prog.func(TREES, "trees_to_triples")
    rets = [r for r in walk_no_nested(fn) if isinstance(r, ast.Return) and isinstance(r.value, ast.Tuple) and len(r.value.elts) == 2]
    if len(rets) != 1:
        raise AnalysisError("trees_to_triples: `return leaves, triples` not found")
    construct = f"{TREES}:trees_to_triples/all-triples"
    second = rets[0].value.elts[1]
    inner = second
    while isinstance(inner, ast.Call) and dotted(inner.func) in ("list", "sorted", "tuple", "set") and inner.args:
        inner = inner.args[0]
    if not isinstance(inner, ast.Name):
        res.fail(construct, f"the triples returned are `{short(second)}`, not the accumulated collection itself", mod, rets[0])
        return res
    acc = inner.id
    inits = [st for st in walk_no_nested(fn) if isinstance(st, (ast.Assign, ast.AnnAssign)) and any(isinstance(t, ast.Name) and t.id == acc for t in (st.targets if isinstance(st, ast.Assign) else [st.target]))]
    if any(isinstance(st.value, (ast.Dict, ast.DictComp)) or (isinstance(st.value, ast.Call) and dotted(st.value.func) in ("dict", "defaultdict", "OrderedDict")) for st in inits if st.value is not None):
        res.fail(construct, f"the triples are collected in the mapping `{acc}`: two triples with the same key keep only one of them", mod, inits[0])
        return res
    keyed = [st for st in walk_no_nested(fn) if (isinstance(st, ast.Assign) and any(isinstance(t, ast.Subscript) and dotted(t.value) == acc for t in st.targets)) or (isinstance(st, ast.Call) and isinstance(st.func, ast.Attribute) and st.func.attr == "setdefault" and dotted(st.func.value) == acc)]
    if keyed:
        res.fail(construct, f"`{short(keyed[0], 80)}` stores triples under a key", mod, keyed[0])
        return res
    feeds = [c for c in walk_no_nested(fn) if isinstance(c, ast.Call) and isinstance(c.func, ast.Attribute) and c.func.attr in ("update", "extend", "add", "append") and dotted(c.func.value) == acc]
    feeds += [st for st in walk_no_nested(fn) if isinstance(st, ast.AugAssign) and dotted(st.target) == acc]
    if not feeds:
        raise AnalysisError("trees_to_triples: the triple accumulator is never fed")
    if any(conditions(fn, f) for f in feeds):
        res.fail(construct, f"`{short(feeds[0], 80)}` is conditional: some triples are left out", mod, feeds[0])
    else:
        res.ok(construct, f"`{acc}` receives every triple of every tree")
    return res


# ---------------------------------------------------------------------------
# COMBINATOR-TOTAL


def combinator_total(prog: Program) -> RuleResult:
    res = RuleResult(
        "COMBINATOR-TOTAL",
        "a combinator handed to `Entry.combine` prices every pair of retained candidates the same way: the local "
        "function or lambda has a single, unconditional `return Candidate(...)` - no branch that answers an infinite "
        "or different candidate for some pairs (the aggregates were already restricted to the species that matter; a "
        "second filter inside the combinator is a pruning argument about pairs)",
    )
    n = 0
    for modname in ("compute.reconciliation", "compute.super_reconciliation", "compute.unordered_super_reconciliation"):
        mod = prog.module(modname)
        for qual, fn in prog.defs(modname).items():
            if not isinstance(fn, FuncNode):
                continue
            names = set()
            for call in walk_no_nested(fn):
                if isinstance(call, ast.Call) and isinstance(call.func, ast.Attribute) and call.func.attr == "combine" and len(call.args) >= 2 and isinstance(call.args[1], ast.Name):
                    names.add(call.args[1].id)
            for name in sorted(names):
                local = [sub for sub in walk_no_nested(fn) if isinstance(sub, FuncNode) and sub.name == name]
                if not local:
                    # bound from a factory: `name = factory(cost)` with `def factory(c): return lambda l, r: Candidate(...)`
                    binds = [st for st in walk_no_nested(fn) if isinstance(st, ast.Assign) and any(isinstance(t, ast.Name) and t.id == name for t in st.targets) and isinstance(st.value, ast.Call)]
                    for st in binds:
                        callee = resolve_callee(prog, mod, st.value.func)
                        cands_ = [callee[1]] if callee and isinstance(callee[1], FuncNode) else [sub for sub in walk_no_nested(fn) if isinstance(sub, FuncNode) and sub.name == dotted(st.value.func)]
                        for factory in cands_:
                            n += 1
                            construct = f"{modname}:{qual}/combinator[{name}]/total"
                            lam_bad = [b for b in ast.walk(factory) if isinstance(b, (ast.If, ast.IfExp)) ]
                            if lam_bad:
                                res.fail(construct, f"the combinator built by `{factory.name}` answers differently for some pairs of candidates (`{short(lam_bad[0], 70)}`)", mod, lam_bad[0])
                            else:
                                res.ok(construct, f"built by `{factory.name}`: one unconditional candidate")
                    continue
                n += 1
                comb = local[0]
                construct = f"{modname}:{qual}/combinator[{name}]/total"
                rets = [r for r in walk_no_nested(comb) if isinstance(r, ast.Return)]
                branches = [b for b in walk_no_nested(comb) if isinstance(b, (ast.If, ast.IfExp, ast.For, ast.While, ast.Try))]
                if len(rets) == 1 and not branches:
                    res.ok(construct, "one unconditional return")
                else:
                    where = branches[0] if branches else rets[1]
                    res.fail(construct, f"the combinator `{name}` answers differently for some pairs of candidates (`{short(where, 70)}`): pairs are discarded after the aggregates were formed", mod, where)
    if n < 3:
        raise AnalysisError(f"COMBINATOR-TOTAL: only {n} local combinators found")
    return res


# ---------------------------------------------------------------------------
# GEOM-NO-ORDER, KIND-ENUM-BASE, GRAPH-AS-GIVEN, EVAL-NO-SHORTCUT

CORNERS = {"top_left", "top_right", "bottom_left", "bottom_right", "center", "top", "left", "right", "bottom", "overall_size"}


def _geometric_whole(expr: ast.AST) -> bool:
    """The expression denotes a whole point / size / rectangle (not one of its coordinates)."""
    if isinstance(expr, ast.Call) and isinstance(expr.func, ast.Attribute) and expr.func.attr in CORNERS:
        return True
    if isinstance(expr, ast.Call) and dotted(expr.func) in ("Position", "Size", "Rect"):
        return True
    if isinstance(expr, ast.Subscript) and isinstance(expr.slice, ast.Constant) and expr.slice.value in ("size", "rect", "trunk", "left_pos", "right_pos"):
        return True
    if isinstance(expr, ast.Attribute) and expr.attr in ("rect", "trunk", "size"):
        return True
    return False


def geom_no_order(prog: Program) -> RuleResult:
    res = RuleResult(
        "GEOM-NO-ORDER",
        "points, sizes and rectangles are never ordered as wholes: every operand of `min` / `max` / `sorted` / `<` in "
        "the layout code is a coordinate (`.x .y .w .h`) or a scalar - `Position`, `Size` and `Rect` are named tuples, "
        "so `max(size_a, size_b)` compares widths first and heights only on ties (and does it differently in the two "
        "orientations)",
    )
    for modname in ("render.layout", "render.tikz"):
        mod = prog.module(modname)
        for qual, fn in prog.defs(modname).items():
            if not isinstance(fn, FuncNode):
                continue
            bad = None
            n = 0
            for node in walk_no_nested(fn):
                operands: List[ast.AST] = []
                if isinstance(node, ast.Call) and dotted(node.func) in ("min", "max", "sorted"):
                    for a in node.args:
                        if isinstance(a, (ast.GeneratorExp, ast.ListComp)):
                            operands.append(a.elt)
                        else:
                            operands.append(a)
                elif isinstance(node, ast.Compare) and any(isinstance(op, (ast.Lt, ast.LtE, ast.Gt, ast.GtE)) for op in node.ops):
                    operands = [node.left] + list(node.comparators)
                if not operands:
                    continue
                n += 1
                for o in operands:
                    if _geometric_whole(o):
                        bad = (node, o)
            if n == 0:
                continue
            construct = f"{modname}:{qual}/scalar-comparisons"
            if bad:
                res.fail(construct, f"`{short(bad[0], 80)}` orders `{short(bad[1], 40)}` as a whole named tuple (first component first)", mod, bad[0])
            else:
                res.ok(construct, f"{n} comparison(s), all on coordinates")
    res.floor(3)
    return res


def kind_enum_base(prog: Program) -> RuleResult:
    res = RuleResult(
        "KIND-ENUM-BASE",
        "NodeEvent and EdgeEvent members are told apart by `==` across the two enumerations (a branch kind is either a "
        "node event or a full loss): both derive from plain `Enum`, whose members are equal only to themselves - with "
        "`IntEnum` / a value mixin, `EdgeEvent.FULL_LOSS == NodeEvent.LEAF` whenever their numbers coincide",
    )
    mod = prog.module(MODEL)
    for cname in ("NodeEvent", "EdgeEvent"):
        cls = prog.cls(MODEL, cname)
        bases = [dotted(b) or short(b) for b in cls.bases]
        construct = f"{MODEL}:{cname}/identity-equality"
        values = [st.value for st in cls.body if isinstance(st, ast.Assign) and len(st.targets) == 1 and isinstance(st.targets[0], ast.Name)]
        consts = [ast.dump(v) for v in values if not (isinstance(v, ast.Call) and dotted(v.func) in ("auto", "enum.auto"))]
        member_names = {st.targets[0].id for st in cls.body if isinstance(st, ast.Assign) and len(st.targets) == 1 and isinstance(st.targets[0], ast.Name)}
        dup = sorted({unparse(v) for v in values if consts.count(ast.dump(v)) > 1} | {unparse(v) for v in values if isinstance(v, ast.Name) and v.id in member_names})
        if dup:
            res.fail(construct, f"two members of {cname} are given the same value {dup[0]}: the second is an ALIAS of the first, so a cost vector has one entry for both events", mod, cls)
        elif bases and all(b.split(".")[-1] == "Enum" for b in bases):
            res.ok(construct, "plain Enum")
        else:
            res.fail(construct, f"{cname} derives from {bases}: its members compare by value, so kinds of the two enumerations with the same number are confused", mod, cls)
    return res


def graph_as_given(prog: Program) -> RuleResult:
    res = RuleResult(
        "GRAPH-AS-GIVEN",
        "the ordering routines work on the graph they are given: the graph parameter is never rebound (to a reduced, "
        "filtered or copied-and-edited graph) and never passed through a helper that returns another graph - dropping "
        "'implied' edges can break every cycle of a cyclic graph",
    )
    mod = prog.module(TOPO)
    for qual in ("toposort", "toposort_all", "_toposort_all_bt"):
        fn = prog.func(TOPO, qual)
        gparams = [a.arg for a in fn.args.args if a.annotation is not None and "Mapping" in unparse(a.annotation)]
        construct = f"{TOPO}:{qual}/graph-as-given"
        if not gparams:
            raise AnalysisError(f"{qual}: graph parameter not found")
        g = gparams[0]
        rebinds = [st for st in walk_no_nested(fn) if isinstance(st, (ast.Assign, ast.AugAssign, ast.AnnAssign)) and any(isinstance(t, ast.Name) and t.id == g for t in (st.targets if isinstance(st, ast.Assign) else [st.target]))]
        derived = [st for st in walk_no_nested(fn) if isinstance(st, ast.Assign) and isinstance(st.value, ast.Call) and any(dotted(a) == g for a in st.value.args) and not (dotted(st.value.func) in ("set", "deque", "len", "list", "dict", "sorted")) and resolve_callee(prog, mod, st.value.func) is not None and not (dotted(st.value.func) or "").startswith("_toposort")]
        if rebinds:
            res.fail(construct, f"`{short(rebinds[0], 80)}` replaces the graph that was given", mod, rebinds[0])
        elif derived:
            res.fail(construct, f"`{short(derived[0], 80)}` derives another graph from the one that was given and works on that", mod, derived[0])
        else:
            res.ok(construct, f"`{g}` is used as given")
    return res


def eval_no_shortcut(prog: Program) -> RuleResult:
    res = RuleResult(
        "EVAL-NO-SHORTCUT",
        "the cost evaluator answers by event kind only: in `_cost_rec` and the two labelling-cost methods every "
        "conditional `return` is dominated by a test of the node's event (or of the ordered flag); a return under any "
        "other condition (`the family is confined to one genome, so ...`) is a shortcut that skips the documented "
        "recount for the subtree below",
    )
    mod = prog.module(MODEL)
    n = 0
    for cname, meths in (("ReconciliationOutput", ("_cost_rec",)), ("SuperReconciliationOutput", ("_ordered_labeling_cost", "_unordered_labeling_cost", "labeling_cost"))):
        cls = prog.cls(MODEL, cname)
        for mname in meths:
            fn = method_def(cls, mname)
            if fn is None:
                continue
            n += 1
            construct = f"{MODEL}:{cname}.{mname}/returns-by-kind"
            events = {t.id for st in walk_no_nested(fn) if isinstance(st, ast.Assign) and isinstance(st.value, ast.Call) and isinstance(st.value.func, ast.Attribute) and st.value.func.attr == "node_event" for t in st.targets if isinstance(t, ast.Name)}
            bad = None
            for ret in walk_no_nested(fn):
                if not isinstance(ret, ast.Return):
                    continue
                gs = [(owner.test, True) for _b, _i, _f, owner in _stmt_chain(fn, ret) if isinstance(owner, ast.If)]
                if not gs:
                    continue
                if isinstance(ret.value, ast.Name) or (isinstance(ret.value, ast.Subscript) and isinstance(ret.value.value, ast.Name) and not isinstance(ret.value.slice, ast.Attribute)):
                    continue  # a memoised / previously computed answer

                def kindish(t: ast.AST) -> bool:
                    names = {x.id for x in ast.walk(t) if isinstance(x, ast.Name)}
                    if names & events:
                        return True
                    return any(isinstance(x, ast.Attribute) and x.attr in ("ordered", "children") for x in ast.walk(t)) or any(isinstance(x, ast.Call) and isinstance(x.func, ast.Attribute) and x.func.attr in ("node_event", "is_leaf") for x in ast.walk(t))

                if not any(kindish(t) for t, _p in gs):
                    bad = (ret, gs[0][0])
                    break
            # the walk over the nodes is never cut short: no `break`, and a `continue` only for a kind of node
            early = None
            for st in walk_no_nested(fn):
                if isinstance(st, ast.Break) and any(isinstance(l, (ast.For, ast.While)) for l in loops_around(fn, st)):
                    early = (st, "ends the walk over the nodes: every node visited later is never priced")
                elif isinstance(st, ast.Continue):
                    gs2 = [owner.test for _b, _i, _f, owner in _stmt_chain(fn, st) if isinstance(owner, ast.If)]

                    def kindish2(t: ast.AST) -> bool:
                        names = {x.id for x in ast.walk(t) if isinstance(x, ast.Name)}
                        return bool(names & events) or any(isinstance(x, ast.Call) and isinstance(x.func, ast.Attribute) and x.func.attr in ("node_event", "is_leaf") for x in ast.walk(t)) or any(isinstance(x, ast.Attribute) and x.attr == "children" for x in ast.walk(t))

                    if gs2 and not any(kindish2(t) for t in gs2):
                        early = (st, f"skips a node when `{short(gs2[-1], 60)}`, a condition that is not its event")
            if bad:
                res.fail(construct, f"`{short(bad[0], 70)}` is returned when `{short(bad[1], 70)}`, a condition that is not the event of the node: the subtree below is not recounted", mod, bad[0])
            elif early:
                res.fail(construct, f"`{short(early[0])}` {early[1]}", mod, early[0])
            else:
                res.ok(construct, "every conditional return is selected by the node's event")
    # the kind of a node is what node_event says, whatever the prices: the event local is bound once, and no test of
    # the evaluator reads the cost vector
    for cname, meths in (("ReconciliationOutput", ("_cost_rec",)), ("SuperReconciliationOutput", ("_ordered_labeling_cost", "_unordered_labeling_cost"))):
        cls = prog.cls(MODEL, cname)
        for mname in meths:
            fn = method_def(cls, mname)
            if fn is None:
                continue
            construct = f"{MODEL}:{cname}.{mname}/kind-from-node-event"
            events = {t.id for st in walk_no_nested(fn) if isinstance(st, ast.Assign) and isinstance(st.value, ast.Call) and isinstance(st.value.func, ast.Attribute) and st.value.func.attr == "node_event" for t in st.targets if isinstance(t, ast.Name)}
            rebound = [st for st in walk_no_nested(fn) if isinstance(st, (ast.Assign, ast.AugAssign)) and any(isinstance(t, ast.Name) and t.id in events for t in (st.targets if isinstance(st, ast.Assign) else [st.target])) and not (isinstance(st, ast.Assign) and isinstance(st.value, ast.Call) and isinstance(st.value.func, ast.Attribute) and st.value.func.attr == "node_event")]
            cost_names = {"costs"} | {t.id for st in walk_no_nested(fn) if isinstance(st, ast.Assign) and any(isinstance(x, ast.Attribute) and x.attr == "costs" for x in ast.walk(st.value)) for t in st.targets if isinstance(t, ast.Name)}
            priced_tests = []
            for node in walk_no_nested(fn):
                test = node.test if isinstance(node, (ast.If, ast.IfExp, ast.While)) else None
                if test is not None and any((isinstance(x, ast.Name) and x.id in cost_names) or (isinstance(x, ast.Attribute) and x.attr == "costs") for x in ast.walk(test)):
                    priced_tests.append(test)
            if rebound:
                res.fail(construct, f"`{short(rebound[0], 70)}` re-reads the event of a node: the evaluator prices the kind that node_event assigns", mod, rebound[0])
            elif priced_tests:
                res.fail(construct, f"the test `{short(priced_tests[0], 70)}` makes the classification depend on the prices: which event a node is does not change with the cost vector", mod, priced_tests[0])
            else:
                res.ok(construct, "the event is read once and no test depends on the costs")
    # the totals are exactly the sums of the documented parts: cost() of a reconciliation is the recount from the
    # root of the object tree, cost() of a super-reconciliation adds the labelling cost - no further term
    from ..sym import Normaliser, Poly

    norm = Normaliser()
    for cname, want in (("ReconciliationOutput", ("self._cost_rec(self.input.object_tree)",)), ("SuperReconciliationOutput", ("self.labeling_cost()", "self.reconciliation_cost()"))):
        cls = prog.cls(MODEL, cname)
        for mname in ("cost", "reconciliation_cost"):
            fn = method_def(cls, mname)
            if fn is None:
                continue
            if cname == "SuperReconciliationOutput" and mname == "reconciliation_cost":
                wanted = ("super().cost()",)
            elif mname == "reconciliation_cost":
                continue
            else:
                wanted = want
            construct = f"{MODEL}:{cname}.{mname}/sum-of-parts"
            rets = [r for r in walk_no_nested(fn) if isinstance(r, ast.Return) and r.value is not None]
            if len(rets) != 1:
                raise AnalysisError(f"{cname}.{mname}: expected a single return")
            value = inline(fn, rets[0].value, rets[0])
            poly = norm.poly(value)
            terms = sorted(poly.atom_keys())
            expect = sorted(norm.text(ast.parse(w, mode="eval").body, False) for w in wanted)
            exact = terms == expect and all(poly.coefficient_of(t).const_value() == 1 for t in terms) and (poly - sum((Poly.atom(t) for t in terms), Poly())) == Poly()
            if exact:
                res.ok(construct, f"{mname}() = " + " + ".join(wanted))
            else:
                res.fail(construct, f"{cname}.{mname}() returns `{short(rets[0].value, 90)}`, not exactly {' + '.join(wanted)}: the total is no longer the documented sum of event costs (nothing is charged above the root of the object tree)", mod, rets[0])
    if n < 3:
        raise AnalysisError("EVAL-NO-SHORTCUT: evaluator methods not found")
    return res


# ---------------------------------------------------------------------------
# TAG-TEST-CONSISTENT


def tag_test_consistent(prog: Program) -> RuleResult:
    res = RuleResult(
        "TAG-TEST-CONSISTENT",
        "Entry.update decides in one way only whether a candidate carries a tag: the conjunct on the candidate's "
        "info is the same expression in the tie branch and in the improvement branch (`info` and `info is not None` "
        "are both defensible, but mixing them keeps a falsy tag when its candidate ties and drops it when the same "
        "candidate comes first, so the retained tags depend on the order of the offers)",
    )
    mod = prog.module(DP)
    cls = prog.cls(DP, "Entry")
    fn = method_def(cls, "update")
    if fn is None:
        raise AnalysisError("Entry.update not found")
    info_names = {
        t.id
        for st in ast.walk(fn)
        if isinstance(st, ast.Assign) and isinstance(st.value, ast.Attribute) and st.value.attr == "info"
        for t in st.targets
        if isinstance(t, ast.Name)
    }
    tests: List[Tuple[ast.AST, ast.AST]] = []
    for node in ast.walk(fn):
        if not isinstance(node, (ast.If, ast.IfExp)):
            continue
        parts = node.test.values if isinstance(node.test, ast.BoolOp) and isinstance(node.test.op, ast.And) else [node.test]
        for part in parts:
            names = {x.id for x in ast.walk(part) if isinstance(x, ast.Name)}
            attr_info = any(isinstance(x, ast.Attribute) and x.attr == "info" and isinstance(x.ctx, ast.Load) for x in ast.walk(part))
            if (names and names <= info_names) or (attr_info and not names - {"candidate", "cand"} - info_names):
                tests.append((part, node))
    construct = f"{DP}:Entry.update/one-tag-predicate"
    if len(tests) < 2:
        raise AnalysisError(f"Entry.update: {len(tests)} test(s) on the candidate's tag found, expected one per branch")
    forms = {}
    for part, node in tests:
        forms.setdefault(re.sub(r"\b(" + "|".join(sorted(info_names) + ["candidate.info"]) + r")\b", "<tag>", unparse(part)) if info_names else unparse(part), []).append(node)
    if len(forms) == 1:
        res.ok(construct, f"{len(tests)} branches test `{next(iter(forms))}`")
    else:
        (fa, na), (fb, nb) = list(forms.items())[:2]
        res.fail(construct, f"the branches disagree on what a tagged candidate is: `{fa}` (line {na[0].lineno}) against `{fb}` (line {nb[0].lineno}); a tag such as 0 or () is kept on one path and dropped on the other", mod, nb[0])
    return res


# ---------------------------------------------------------------------------
# ROOT-CONTENT


def root_content(prog: Program) -> RuleResult:
    res = RuleResult(
        "ROOT-CONTENT",
        "the drivers decode from the COMPLETE root synteny only: the argument that the decoder's recursion fills with "
        "`info.<side>.synteny` is, in the driver's call, `subseq_complete(<the root order of the enclosing loop>)` "
        "(ordered) / the LCA assignment with the LCA set of the root object (unordered) - a cheaper table entry for a "
        "truncated root content is not a solution of the problem that was posed",
    )
    for modname, driver, decoder in (
        ("compute.super_reconciliation", "_spfs", "_decode_spfs_table"),
        ("compute.unordered_super_reconciliation", "_uspfs", "_decode_uspfs_table"),
    ):
        mod = prog.module(modname)
        dec = prog.func(modname, decoder)
        drv = prog.func(modname, driver)
        # the content parameter: position that the recursion fills with info.<side>.synteny
        positions = set()
        for call in walk_no_nested(dec):
            if isinstance(call, ast.Call) and dotted(call.func) == decoder:
                for i, a in enumerate(call.args):
                    if isinstance(a, ast.Attribute) and a.attr == "synteny" and isinstance(a.value, ast.Attribute) and a.value.attr in ("left", "right"):
                        positions.add(i)
        if len(positions) != 1:
            raise AnalysisError(f"{decoder}: content parameter not identified ({sorted(positions)})")
        pos = positions.pop()
        calls = [c for c in ast.walk(drv) if isinstance(c, ast.Call) and dotted(c.func) == decoder]
        if not calls:
            raise AnalysisError(f"{driver}: call of {decoder} not found")
        for k, call in enumerate(calls):
            construct = f"{modname}:{driver}/root-content" + (f"#{k}" if k else "")
            if len(call.args) <= pos:
                raise AnalysisError(f"{driver}: call of {decoder} with keyword arguments not understood")
            arg = call.args[pos]
            if isinstance(arg, ast.Name):
                got = reaching(drv, arg.id, call)
                if got is not None and not isinstance(got, Opaque):
                    arg = got
            loop_vars = {dotted(l.target) for l in loops_around(drv, call) if isinstance(l, ast.For)}
            if modname.endswith("unordered_super_reconciliation"):
                nxt = call.args[pos + 1] if len(call.args) > pos + 1 else None
                root = unparse(call.args[0])
                ok = dotted(arg) is not None and dotted(arg).endswith("SyntenyAssignment.LCA") and isinstance(nxt, ast.Subscript) and unparse(nxt.slice) == root and "lca" in unparse(nxt.value)
                want = f"SyntenyAssignment.LCA with the LCA set of `{root}`"
            else:
                ok = isinstance(arg, ast.Call) and dotted(arg.func) == "subseq_complete" and len(arg.args) == 1 and isinstance(arg.args[0], ast.Name) and arg.args[0].id in loop_vars and any(dotted(a) == arg.args[0].id for i, a in enumerate(call.args) if i != pos)
                want = "subseq_complete(<root order of the enclosing loop>)"
            if ok:
                res.ok(construct, f"decodes from `{short(arg, 50)}`")
            else:
                res.fail(construct, f"the driver decodes from the root content `{short(arg, 60)}` instead of {want}: entries of the table for a partial root synteny are cheaper and are not solutions", mod, call)
    return res


# ---------------------------------------------------------------------------
# REFINEMENT-PAIRING

TRAVERSALS = {"traverse", "iter_leaves", "get_leaves", "iter_descendants", "get_descendants", "iter_leaf_names", "get_leaf_names"}


def refinement_pairing(prog: Program) -> RuleResult:
    res = RuleResult(
        "REFINEMENT-PAIRING",
        "the data of an input is carried over to a refinement by NAME (through the dictionary form), never by "
        "position: in `binarize` and the methods it calls, no `zip` pairs a traversal of one tree with a traversal "
        "of another - the refinement enumerator regroups children, so the k-th leaf of a refinement is not the k-th "
        "leaf of the input",
    )
    mod = prog.module(MODEL)
    n = 0
    for cname in ("ReconciliationInput", "SuperReconciliationInput"):
        cls = prog.cls(MODEL, cname)
        methods = {m.name: m for m in cls.body if isinstance(m, FuncNode)}
        # methods of the base class are reachable from a subclass's binarize too
        base = prog.cls(MODEL, "ReconciliationInput")
        all_methods = {m.name: m for m in base.body if isinstance(m, FuncNode)}
        all_methods.update(methods)
        if "binarize" not in methods:
            continue
        todo, seen = ["binarize"], set()
        while todo:
            name = todo.pop()
            if name in seen or name not in all_methods:
                continue
            seen.add(name)
            for c in ast.walk(all_methods[name]):
                if isinstance(c, ast.Call) and isinstance(c.func, ast.Attribute) and dotted(c.func.value) in ("self", "cls", "self.__class__"):
                    todo.append(c.func.attr)
        for name in sorted(seen):
            if name in ("to_dict", "from_dict", "_from_dict"):
                continue
            fn = all_methods[name]
            n += 1
            construct = f"{MODEL}:{cname}.{name}/paired-by-name"
            bad = None
            for c in ast.walk(fn):
                if not (isinstance(c, ast.Call) and dotted(c.func) == "zip" and len(c.args) >= 2):
                    continue
                recvs = []
                for a in c.args:
                    src = a
                    if isinstance(a, ast.Name):
                        got = reaching(fn, a.id, c)
                        src = got if got is not None and not isinstance(got, Opaque) else a
                    while isinstance(src, ast.Call) and dotted(src.func) in ("list", "tuple", "sorted", "iter") and src.args:
                        src = src.args[0]
                    if isinstance(src, (ast.GeneratorExp, ast.ListComp)) and src.generators:
                        src = src.generators[0].iter  # a per-node expression over a traversal keeps its order
                    if isinstance(src, ast.Call) and isinstance(src.func, ast.Attribute) and src.func.attr in TRAVERSALS:
                        recvs.append(unparse(src.func.value))
                if len(set(recvs)) >= 2:
                    bad = (c, recvs)
            if bad:
                res.fail(construct, f"`{short(bad[0], 80)}` pairs the nodes of `{bad[1][0]}` with those of `{bad[1][1]}` by position: a refinement lists its leaves in another order than the input whenever it groups non-adjacent children", mod, bad[0])
            else:
                res.ok(construct, "no positional pairing of two trees")
    if n < 1:
        raise AnalysisError("REFINEMENT-PAIRING: binarize not found")
    return res


# ---------------------------------------------------------------------------
# CLOSURE-LATE-BINDING


def _target_names_of(t: ast.AST) -> Set[str]:
    return {x.id for x in ast.walk(t) if isinstance(x, ast.Name)}


def closure_late_binding(prog: Program) -> RuleResult:
    res = RuleResult(
        "CLOSURE-LATE-BINDING",
        "a function object that outlives the iteration that created it does not read the iteration variable: a "
        "`lambda` that is the element / value of a comprehension, or is stored into a container inside a `for` "
        "loop, sees the LAST value of the loop variable when it is finally called (every event combinator built "
        "this way prices its pairs with the cost of the last event kind)",
    )
    n = 0
    for mod in sorted(prog.modules.values(), key=lambda m: m.relpath):
        key = _modkey(mod)
        bad = []
        for node in ast.walk(mod.tree):
            stored: List[Tuple[ast.Lambda, Set[str]]] = []
            if isinstance(node, (ast.ListComp, ast.SetComp, ast.DictComp)):
                # (a generator expression hands its closures out one at a time: they may be called while their
                # iteration is still the current one)
                n += 1
                loopvars = set()
                for g in node.generators:
                    loopvars |= _target_names_of(g.target)
                elts = [node.value] if isinstance(node, ast.DictComp) else [node.elt]
                for e in elts:
                    for lam in ([e] if isinstance(e, ast.Lambda) else [x for x in (e.elts if isinstance(e, (ast.Tuple, ast.List)) else []) if isinstance(x, ast.Lambda)]):
                        stored.append((lam, loopvars))
            elif isinstance(node, ast.For):
                n += 1
                loopvars = _target_names_of(node.target)
                for st in ast.walk(node):
                    if isinstance(st, ast.Assign) and isinstance(st.value, ast.Lambda) and any(isinstance(t, ast.Subscript) for t in st.targets):
                        stored.append((st.value, loopvars))
                    if isinstance(st, ast.Call) and isinstance(st.func, ast.Attribute) and st.func.attr in ("append", "add", "setdefault") and any(isinstance(a, ast.Lambda) for a in st.args):
                        stored.extend((a, loopvars) for a in st.args if isinstance(a, ast.Lambda))
            for lam, loopvars in stored:
                params = {a.arg for a in lam.args.args + lam.args.kwonlyargs + lam.args.posonlyargs}
                free = {x.id for x in ast.walk(lam.body) if isinstance(x, ast.Name) and isinstance(x.ctx, ast.Load)} - params
                late = sorted(free & loopvars)
                if late:
                    bad.append((lam, late))
        if bad:
            for i, (lam, late) in enumerate(bad):
                res.fail(f"{key}:<module>/late-binding#{i}", f"`{short(lam, 70)}` is kept beyond the iteration that creates it and reads the iteration variable {late}: when it is called, that variable holds the value of the LAST iteration", mod, lam)
        else:
            res.ok(f"{key}:<module>/late-binding", "no stored closure reads an iteration variable")
    if n < 30:
        raise AnalysisError(f"CLOSURE-LATE-BINDING: only {n} loops / comprehensions found in the package")
    return res


# ---------------------------------------------------------------------------
# KINDS-COMPLETE


def kinds_complete(prog: Program) -> RuleResult:
    res = RuleResult(
        "KINDS-COMPLETE",
        "the unordered table holds an entry for BOTH synteny kinds of every (object, species): the loop of "
        "_compute_uspfs_entry that writes `table[object][species][kind]` ranges over the enumeration "
        "SyntenyAssignment itself, not over a parameter or a list chosen per object (an object whose parent inherits "
        "extra families must be able to pass them on even when it misses nothing of its parent's own content)",
    )
    modname = "compute.unordered_super_reconciliation"
    mod = prog.module(modname)
    fn = prog.func(modname, "_compute_uspfs_entry")
    n = 0
    for loop in walk_no_nested(fn):
        if not isinstance(loop, ast.For) or not isinstance(loop.target, ast.Name):
            continue
        kind = loop.target.id
        writes = [
            c for c in ast.walk(loop)
            if isinstance(c, ast.Call) and isinstance(c.func, ast.Attribute) and c.func.attr == "update"
            and isinstance(c.func.value, ast.Subscript) and dotted(c.func.value.slice) == kind
            and isinstance(c.func.value.value, ast.Subscript)
        ]
        if not writes:
            continue
        n += 1
        construct = f"{modname}:_compute_uspfs_entry/kinds-of-table-writes"
        it = loop.iter
        while isinstance(it, ast.Call) and dotted(it.func) in ("list", "tuple", "iter") and len(it.args) == 1:
            it = it.args[0]
        if isinstance(it, ast.Name) and it.id == "SyntenyAssignment":
            res.ok(construct, "both kinds are tabulated for every (object, species)")
        else:
            res.fail(construct, f"the kinds tabulated for an (object, species) range over `{short(loop.iter)}`, not over SyntenyAssignment: a kind left out reads as infinitely bad in the parent's recurrence", mod, loop)
    if n == 0:
        raise AnalysisError("KINDS-COMPLETE: loop writing table[object][species][kind] not found")
    return res


# ---------------------------------------------------------------------------
# TREE-AS-GIVEN

NODE_REMOVERS = {"delete", "detach", "prune", "remove_child", "remove_children", "resolve_polytomy", "unroot", "set_outgroup", "collapse", "standardize"}


def tree_as_given(prog: Program) -> RuleResult:
    res = RuleResult(
        "TREE-AS-GIVEN",
        "`binarize` enumerates the refinements of the tree it is given: it removes no node (no delete / detach / prune "
        "/ collapse of 'soft' polytomies, on the tree or on a copy of it) and its tree parameter is only ever rebound "
        "to a plain copy - a refinement keeps every clade, name and colour of the input",
    )
    mod = prog.module(TREES)
    fn = prog.func(TREES, "binarize")
    tparams = [a.arg for a in fn.args.args if a.annotation is not None and unparse(a.annotation) in ("Tree", "TreeNode", "PhyloTree")]
    if not tparams:
        raise AnalysisError("binarize: tree parameter not found")
    construct = f"{TREES}:binarize/tree-as-given"
    rebinds = [
        st for st in walk_no_nested(fn)
        if isinstance(st, (ast.Assign, ast.AugAssign, ast.AnnAssign))
        and any(isinstance(t, ast.Name) and t.id in tparams for t in (st.targets if isinstance(st, ast.Assign) else [st.target]))
        and not (isinstance(st, ast.Assign) and isinstance(st.value, ast.Call) and isinstance(st.value.func, ast.Attribute) and st.value.func.attr == "copy" and dotted(st.value.func.value) in tparams)
    ]
    removers = [c for c in walk_no_nested(fn) if isinstance(c, ast.Call) and isinstance(c.func, ast.Attribute) and c.func.attr in NODE_REMOVERS]
    if removers:
        res.fail(construct, f"`{short(removers[0], 70)}` removes nodes: the refinements are no longer refinements of the tree that was given", mod, removers[0])
    elif rebinds:
        res.fail(construct, f"`{short(rebinds[0], 70)}` replaces the tree that was given: what follows answers for another tree", mod, rebinds[0])
    else:
        res.ok(construct, f"{tparams} used as given, no node removed")
    return res


# ---------------------------------------------------------------------------
# BRANCH-COMPLETE-ASSIGN


def _stores(node: ast.AST) -> Set[str]:
    out: Set[str] = set()
    stack = [node]
    while stack:
        cur = stack.pop()
        if isinstance(cur, (ast.FunctionDef, ast.AsyncFunctionDef, ast.Lambda, ast.ClassDef)) and cur is not node:
            if isinstance(cur, (ast.FunctionDef, ast.AsyncFunctionDef, ast.ClassDef)):
                out.add(cur.name)
            continue
        if isinstance(cur, ast.Name) and isinstance(cur.ctx, ast.Store):
            out.add(cur.id)
        elif isinstance(cur, (ast.Import, ast.ImportFrom)):
            out.update((a.asname or a.name).split(".")[0] for a in cur.names)
        elif isinstance(cur, ast.ExceptHandler) and cur.name:
            out.add(cur.name)
        stack.extend(ast.iter_child_nodes(cur))
    return out


def _definite(stmts: Sequence[ast.stmt]) -> Optional[Set[str]]:
    """names assigned on every path that falls through the block; None when no path falls through"""
    got: Set[str] = set()
    for st in stmts:
        if isinstance(st, (ast.Return, ast.Raise, ast.Continue, ast.Break)):
            return None
        if isinstance(st, ast.If):
            a, b = _definite(st.body), _definite(st.orelse)
            if a is None and b is None:
                return None
            got |= (a if b is None else b if a is None else a & b)
        elif isinstance(st, (ast.For, ast.While)):
            if isinstance(st, ast.While) and isinstance(st.test, ast.Constant) and st.test.value:
                inner = _definite(st.body)
                got |= inner or set()
            # a loop may run zero times: nothing definite (its target included)
        elif isinstance(st, ast.Try):
            fin = _definite(st.finalbody) if st.finalbody else set()
            got |= fin or set()
        elif isinstance(st, ast.With):
            for item in st.items:
                if item.optional_vars is not None:
                    got |= _stores(item.optional_vars)
            inner = _definite(st.body)
            if inner is None:
                return None
            got |= inner
        else:
            got |= _stores(st)
    return got


def _stores_of(stmts: Sequence[ast.stmt]) -> Set[str]:
    out: Set[str] = set()
    for st in stmts:
        out |= _stores(st)
    return out


def branch_complete_assign(prog: Program) -> RuleResult:
    res = RuleResult(
        "BRANCH-COMPLETE-ASSIGN",
        "a local that is assigned in some branches of an if / elif / else and read after it is assigned in EVERY "
        "branch that falls through, or before the statement: otherwise the read either fails (UnboundLocalError on the "
        "first iteration) or silently sees the value left by an earlier iteration of the enclosing loop",
    )
    n = 0
    for mod in sorted(prog.modules.values(), key=lambda m: m.relpath):
        key = _modkey(mod)
        bad: List[Tuple[str, str, ast.AST, ast.AST]] = []
        for qual, fn in prog.defs(mod.name).items():
            if not isinstance(fn, FuncNode):
                continue
            params = {a.arg for a in fn.args.posonlyargs + fn.args.args + fn.args.kwonlyargs}
            if fn.args.vararg:
                params.add(fn.args.vararg.arg)
            if fn.args.kwarg:
                params.add(fn.args.kwarg.arg)

            def visit(stmts: Sequence[ast.stmt], known: Set[str]) -> None:
                nonlocal n
                have = set(known)
                for idx, st in enumerate(stmts):
                    if isinstance(st, ast.If):
                        n += 1
                        a, b = _definite(st.body), _definite(st.orelse)
                        # only branches that fall through matter for what follows the statement
                        some = (_stores_of(st.body) if a is not None else set()) | (_stores_of(st.orelse) if b is not None else set())
                        allb = some if (a is None and b is None) else (a if b is None else b if a is None else a & b)
                        partial = some - allb - have
                        for name in sorted(partial):
                            # first use after the statement, in this block
                            for later in stmts[idx + 1:]:
                                occ = sorted((x for x in ast.walk(later) if isinstance(x, ast.Name) and x.id == name), key=lambda x: (x.lineno, x.col_offset))
                                if not occ:
                                    continue
                                loads = [x for x in occ if isinstance(x.ctx, ast.Load)]
                                if isinstance(occ[0].ctx, ast.Store):
                                    # re-assigned first: a read only if the assigned value itself reads the name
                                    holder = next((a2 for a2 in ast.walk(later) if isinstance(a2, ast.Assign) and any(t is occ[0] for t in a2.targets)), None)
                                    if holder is None or not any(isinstance(x, ast.Name) and x.id == name and isinstance(x.ctx, ast.Load) for x in ast.walk(holder.value)):
                                        break
                                if loads and not (isinstance(later, ast.If) and _guarded_by_same(st, later, name)):
                                    bad.append((qual, name, st, loads[0]))
                                    break
                                if name in (_definite([later]) or set()):
                                    break
                        visit(st.body, have)
                        visit(st.orelse, have)
                        have |= allb if allb is not None else set()
                    elif isinstance(st, (ast.For, ast.While)):
                        inner = set(have)
                        if isinstance(st, ast.For):
                            inner |= _stores(st.target)
                        visit(st.body, inner)
                        visit(st.orelse, have)
                    elif isinstance(st, ast.With):
                        inner = set(have)
                        for item in st.items:
                            if item.optional_vars is not None:
                                inner |= _stores(item.optional_vars)
                        visit(st.body, inner)
                        have |= _definite([st]) or set()
                    elif isinstance(st, ast.Try):
                        visit(st.body, have)
                        for h in st.handlers:
                            visit(h.body, have | ({h.name} if h.name else set()))
                        visit(st.orelse, have)
                        visit(st.finalbody, have)
                        have |= _definite([st]) or set()
                    else:
                        have |= _stores(st)

            visit(fn.body, params)
        if bad:
            for i, (qual, name, st, use) in enumerate(bad):
                res.fail(f"{key}:{qual}/branch-complete[{name}]", f"`{name}` is assigned in some branches of `if {short(st.test, 50)}` (line {st.lineno}) only, has no value before it, and is read afterwards (line {use.lineno}): unbound on the first pass, stale on later ones", mod, use)
        else:
            res.ok(f"{key}:<module>/branch-complete", "every local read after a conditional is assigned on all of its branches")
    if n < 100:
        raise AnalysisError(f"BRANCH-COMPLETE-ASSIGN: only {n} conditionals found in the package")
    return res


def _guarded_by_same(first: ast.If, later: ast.If, name: str) -> bool:
    """`if c: x = ...` followed by `if c: use(x)` with the same test: the read happens only where x was assigned"""
    if ast.dump(first.test) != ast.dump(later.test):
        return False
    return name in (_definite(first.body) or set()) and not any(isinstance(x, ast.Name) and x.id == name and isinstance(x.ctx, ast.Load) for st in later.orelse for x in ast.walk(st)) and not any(isinstance(x, ast.Name) and x.id == name for x in ast.walk(later.test))


# ---------------------------------------------------------------------------
# TRIPLES-RECURSION


def triples_recursion(prog: Program) -> RuleResult:
    res = RuleResult(
        "TRIPLES-RECURSION",
        "in OneTree / AllTrees the triples handed to the recursion for a group are ALL the triples of the current "
        "call whose three leaves lie in the group (a comprehension over the `triples` parameter itself, filtered by "
        "that test only) - a triple that did not change the partition at this level still constrains a deeper one; "
        "and the wrapper of AllTrees answers `[]` only on the verdict of OneTree",
    )
    mod = prog.module(TREES)
    defs = prog.defs(TREES)
    n = 0
    for qual in ("tree_from_triples", "all_trees_from_triples._all_trees_from_triples"):
        fn = defs.get(qual)
        if not isinstance(fn, FuncNode):
            raise AnalysisError(f"TRIPLES-RECURSION: {qual} not found")
        params = func_params(fn)
        if len(params) < 2:
            raise AnalysisError(f"{qual}: expected (leaves, triples)")
        p_triples = params[1]
        construct = f"{TREES}:{qual}/triples-of-a-group"
        rebound = [st for st in walk_no_nested(fn) if isinstance(st, (ast.Assign, ast.AugAssign)) and any(dotted(t) == p_triples for t in (st.targets if isinstance(st, ast.Assign) else [st.target]))]
        comps = []
        for comp in ast.walk(fn):
            if isinstance(comp, ast.ListComp) and len(comp.generators) == 1:
                gen = comp.generators[0]
                test_all = [t for t in gen.ifs if isinstance(t, ast.Call) and dotted(t.func) == "all"]
                if test_all and isinstance(comp.elt, ast.Name) and dotted(gen.target) == comp.elt.id:
                    comps.append((comp, gen))
        if not comps:
            raise AnalysisError(f"{qual}: the comprehension selecting the triples of a group was not found")
        n += 1
        bad = None
        for comp, gen in comps:
            if dotted(gen.iter) != p_triples:
                bad = (comp, f"selects from `{short(gen.iter)}`, not from the triples of this call (`{p_triples}`)")
            elif len(gen.ifs) != 1:
                bad = (comp, f"applies a second filter (`{short(gen.ifs[-1], 50)}`) besides 'all three leaves are in the group'")
        if rebound:
            res.fail(construct, f"`{short(rebound[0], 60)}` replaces the triples of this call before they are handed down", mod, rebound[0])
        elif bad:
            res.fail(construct, f"the triples of a group: `{short(bad[0], 80)}` {bad[1]}: a triple that is redundant at this level still has to be displayed inside its group", mod, bad[0])
        else:
            res.ok(construct, f"all triples of `{p_triples}` inside the group, no other filter")
    # wrapper verdict
    wrap = prog.func(TREES, "all_trees_from_triples")
    construct = f"{TREES}:all_trees_from_triples/empty-answer"
    empties = [r for r in walk_no_nested(wrap) if isinstance(r, ast.Return) and isinstance(r.value, (ast.List, ast.Tuple)) and not r.value.elts]
    stray = []
    for r in empties:
        gs = conditions(wrap, r)
        verdict = [
            (t, pol) for t, pol in gs
            if isinstance(t, ast.Compare) and len(t.ops) == 1 and isinstance(t.ops[0], (ast.Is, ast.Eq)) and pol
            and isinstance(t.left, ast.Call) and dotted(t.left.func) == "tree_from_triples"
            and isinstance(t.comparators[0], ast.Constant) and t.comparators[0].value is None
        ] + [
            (t, pol) for t, pol in gs
            if not pol and isinstance(t, ast.Call) and dotted(t.func) == "tree_from_triples"
        ]
        if len(verdict) != 1:
            stray.append((r, gs))
        elif any(pol and (t, pol) not in verdict for t, pol in gs):
            stray.append((r, gs))  # the verdict of OneTree is listened to only under a further condition
    if stray:
        r, gs = stray[0]
        cond = " and ".join(("" if pol else "not ") + short(t, 60) for t, pol in gs) or "always"
        res.fail(construct, f"AllTrees answers `[]` when {cond}: only OneTree decides that no tree displays the triples (a counting argument on cherries forgets that they may overlap)", mod, r)
    else:
        res.ok(construct, f"{len(empties)} empty answer(s), on the verdict of tree_from_triples")
    if n < 2:
        raise AnalysisError("TRIPLES-RECURSION: recursive functions not found")
    return res


# ---------------------------------------------------------------------------
# JSON-INFINITE-COSTS


def json_infinite_costs(prog: Program) -> RuleResult:
    res = RuleResult(
        "JSON-INFINITE-COSTS",
        "the tool writes every solution it found: no `json.dump` / `json.dumps` of the command-line code forbids "
        "non-finite numbers (`allow_nan=False`) - an infinite unit cost is the documented way to forbid an event and "
        "is part of the cost vector embedded in every written solution",
    )
    n = 0
    for modname in ("cli.reconcile", "cli.draw", "cli.main"):
        if f"superrec2.{modname}" not in prog.modules:
            continue
        mod = prog.module(modname)
        for qual, fn in prog.defs(modname).items():
            if not isinstance(fn, FuncNode):
                continue
            for c in walk_no_nested(fn):
                if isinstance(c, ast.Call) and dotted(c.func) in ("json.dump", "json.dumps"):
                    n += 1
                    construct = f"{modname}:{qual}/json-accepts-infinity"
                    strict = [k for k in c.keywords if k.arg == "allow_nan" and not (isinstance(k.value, ast.Constant) and k.value.value is True)]
                    if strict:
                        res.fail(construct, f"`{short(c, 70)}` refuses non-finite numbers: with an infinite --cost-* option the encoder raises after the minimum cost was printed and leaves a truncated document", mod, c)
                    else:
                        res.ok(construct, "infinite costs are written (as Infinity) and read back")
    if n < 1:
        raise AnalysisError("JSON-INFINITE-COSTS: no json.dump call found in the command-line code")
    return res


# ---------------------------------------------------------------------------
# LABEL-LINEBREAKS

WRAPPERS = {"format_synteny", "balanced_wrap"}


def _is_linebreak_conversion(call: ast.AST) -> bool:
    """`<x>.replace("\n", "\\\\")`"""
    return (
        isinstance(call, ast.Call) and isinstance(call.func, ast.Attribute) and call.func.attr == "replace" and len(call.args) == 2
        and isinstance(call.args[0], ast.Constant) and call.args[0].value == "\n"
        and isinstance(call.args[1], ast.Constant) and call.args[1].value == "\\\\"
    )


def label_linebreaks(prog: Program) -> RuleResult:
    res = RuleResult(
        "LABEL-LINEBREAKS",
        "a wrapped label reaches TeX with TeX line breaks: the result of every wrapping call (`format_synteny`, "
        "`balanced_wrap`) of the rendering code is converted with `.replace('\\n', '\\\\\\\\')` where it is produced, or - "
        "when the conversion is done by the drawing code instead - every use of a branch's name in the drawing "
        "templates goes through the converting helper (a raw newline inside `\\node{...}` is a space for TeX: the "
        "label is not wrapped at the requested width)",
    )
    converters: Set[str] = set()
    for modname in ("render.layout", "render.tikz"):
        for qual, fn in prog.defs(modname).items():
            if isinstance(fn, FuncNode):
                rets = [r for r in walk_no_nested(fn) if isinstance(r, ast.Return) and r.value is not None]
                if len(rets) == 1 and _is_linebreak_conversion(rets[0].value) and isinstance(rets[0].value.func.value, ast.Name) and rets[0].value.func.value.id in func_params(fn):
                    converters.add(qual.split(".")[-1])
    n = 0
    raw_sources = []
    for modname in ("render.layout", "render.tikz"):
        mod = prog.module(modname)
        for qual, fn in prog.defs(modname).items():
            if not isinstance(fn, FuncNode):
                continue
            for call in walk_no_nested(fn):
                if not (isinstance(call, ast.Call) and dotted(call.func) in WRAPPERS):
                    continue
                n += 1
                par = mod.parent(call)
                converted = False
                # receiver of .replace(...), possibly through an enclosing conditional expression / parentheses
                if isinstance(par, ast.Attribute) and par.attr == "replace" and _is_linebreak_conversion(mod.parent(par)):
                    converted = True
                if isinstance(par, ast.Call) and dotted(par.func) in converters:
                    converted = True
                if isinstance(par, ast.Assign) and len(par.targets) == 1 and isinstance(par.targets[0], ast.Name):
                    name = par.targets[0].id
                    uses = [x for x in walk_no_nested(fn) if isinstance(x, ast.Name) and x.id == name and isinstance(x.ctx, ast.Load)]
                    if uses and all(
                        (isinstance(mod.parent(u), ast.Attribute) and mod.parent(u).attr == "replace" and _is_linebreak_conversion(mod.parent(mod.parent(u))))
                        or (isinstance(mod.parent(u), ast.Call) and dotted(mod.parent(u).func) in converters)
                        for u in uses
                    ):
                        converted = True
                construct = f"{modname}:{qual}/wrapped[{dotted(call.func)}]"
                if converted:
                    res.ok(construct, "line breaks converted where the text is wrapped")
                else:
                    raw_sources.append((modname, qual, call, construct))
    if n < 2:
        raise AnalysisError(f"LABEL-LINEBREAKS: only {n} wrapping calls found in the rendering code")
    if raw_sources:
        # the drawing code must then convert every use of a branch name
        tmod = prog.module("render.tikz")
        draw = prog.func("render.tikz", "_tikz_draw_branches")
        loops = [l for l in walk_no_nested(draw) if isinstance(l, ast.For) and isinstance(l.target, ast.Tuple) and len(l.target.elts) == 2 and "branches" in unparse(l.iter)]
        if not loops:
            raise AnalysisError("_tikz_draw_branches: loop over the branches not found")
        bvar = dotted(loops[0].target.elts[1])
        unconverted = []
        for x in ast.walk(loops[0]):
            if isinstance(x, ast.Attribute) and x.attr == "name" and dotted(x.value) == bvar and isinstance(x.ctx, ast.Load):
                par = tmod.parent(x)
                ok = (isinstance(par, ast.Call) and dotted(par.func) in converters) or (isinstance(par, ast.Attribute) and par.attr == "replace" and _is_linebreak_conversion(tmod.parent(par)))
                if not ok:
                    unconverted.append(x)
        modname, qual, call, construct = raw_sources[0]
        if unconverted or not converters:
            where = f"`{short(tmod.parent(unconverted[0]), 60)}` (line {unconverted[0].lineno})" if unconverted else "the drawing code"
            res.fail(construct, f"`{short(call, 60)}` keeps its newlines, and {where} puts the branch name into a template without converting them: that label is not broken at the requested width", prog.module(modname), call)
        else:
            res.ok(construct, f"newlines kept here; every use of `{bvar}.name` in the drawing code goes through {sorted(converters)}")
    return res


# ---------------------------------------------------------------------------
# LOSS-COLOR-OWN


class _NeedAnswer(Exception):
    def __init__(self, key: str, test: ast.AST):
        self.key = key
        self.test = test


def loss_color_own(prog: Program) -> RuleResult:
    from ..cases import run_cases

    res = RuleResult(
        "LOSS-COLOR-OWN",
        "the virtual loss nodes of a lineage take the colour of THAT lineage: `_add_losses` reads the colour from its "
        "own gene argument, or - when the colour is handed in by the caller - every call passes the colour of the very "
        "gene it passes, on every path through the handler (also after the children were swapped to match the order of "
        "the species' children)",
    )
    mod = prog.module("render.layout")
    addl = prog.func("render.layout", "_add_losses")
    aparams = func_params(addl)
    if len(aparams) < 4:
        raise AnalysisError("_add_losses: expected (layout_state, gene, start_species, end_species)")
    gene_p = aparams[1]
    own = [
        x for x in walk_no_nested(addl)
        if (isinstance(x, ast.Attribute) and x.attr == "color" and dotted(x.value) == gene_p)
        or (isinstance(x, ast.Call) and dotted(x.func) == "getattr" and len(x.args) >= 2 and dotted(x.args[0]) == gene_p and isinstance(x.args[1], ast.Constant) and x.args[1].value == "color")
    ]
    color_params = [p for p in aparams[4:] if "color" in p or "colour" in p]
    construct = "render.layout:_add_losses/colour-of-own-lineage"
    if own and not color_params:
        res.ok(construct, f"read from `{gene_p}` inside _add_losses")
        return res
    if not color_params:
        raise AnalysisError("_add_losses: the colour of the loss nodes comes neither from the gene argument nor from a parameter")
    cpos = aparams.index(color_params[0])
    fn = prog.func("render.layout", "_compute_branches")
    # the handler of internal nodes: the `else` of `<gene>.is_leaf()` in the gene loop
    arm = None
    for st in ast.walk(fn):
        if isinstance(st, ast.If) and isinstance(st.test, ast.Call) and isinstance(st.test.func, ast.Attribute) and st.test.func.attr == "is_leaf" and st.orelse:
            arm = st.orelse
    if arm is None:
        raise AnalysisError("_compute_branches: handler of internal nodes not found")
    n_paths = 0
    bad = None

    def explore(answers: Dict[str, bool], depth: int = 0) -> None:
        nonlocal n_paths, bad
        if depth > 12 or bad is not None:
            return

        def oracle(expr: ast.AST, env) -> Optional[bool]:
            if isinstance(expr, (ast.BoolOp,)) or (isinstance(expr, ast.UnaryOp) and isinstance(expr.op, ast.Not)):
                return None
            key = ast.dump(expr)
            if key not in answers:
                raise _NeedAnswer(key, expr)
            return answers[key]

        try:
            out = run_cases(arm, oracle, where="_compute_branches[internal node]", on_loop=lambda st, o: None)
        except _NeedAnswer as need:
            for val in (True, False):
                explore({**answers, need.key: val}, depth + 1)
            return
        n_paths += 1
        seen = set()
        pool = list(out.env.values()) + [v for _t, v in out.stores] + [e for _k, e in out.events if isinstance(e, ast.AST)]
        for root in pool:
            for c in ast.walk(root):
                if isinstance(c, ast.Call) and dotted(c.func) == "_add_losses" and ast.dump(c) not in seen:
                    seen.add(ast.dump(c))
                    gene_arg = c.args[1] if len(c.args) > 1 else None
                    col_arg = c.args[cpos] if len(c.args) > cpos else next((k.value for k in c.keywords if k.arg == color_params[0]), None)
                    if gene_arg is None or col_arg is None:
                        bad = bad or (c, "no colour is passed")
                        continue
                    # strip nested _add_losses around the gene (a chain continues the same lineage)
                    src = None
                    if isinstance(col_arg, ast.Call) and dotted(col_arg.func) == "getattr" and len(col_arg.args) >= 2:
                        src = col_arg.args[0]
                    elif isinstance(col_arg, ast.Attribute) and col_arg.attr == "color":
                        src = col_arg.value
                    if src is None:
                        raise AnalysisError(f"_compute_branches: the colour `{short(col_arg, 50)}` handed to _add_losses is not the colour attribute of a node")
                    if ast.dump(src) != ast.dump(gene_arg):
                        bad = bad or (c, f"passes the lineage `{short(gene_arg, 40)}` with the colour of `{short(src, 40)}`")

    explore({})
    if n_paths == 0:
        raise AnalysisError("_compute_branches: no path through the handler of internal nodes was followed")
    if bad:
        res.fail(construct, f"on one path of the handler, `_add_losses` {bad[1]}: the loss nodes of one child are drawn in the colour of its sibling", mod, fn)
    else:
        res.ok(construct, f"{n_paths} paths: every call passes the colour of the gene it passes")
    return res


# ---------------------------------------------------------------------------
# UNPACK-SPLIT, RECORD-FIELDS-AGREE, PARAM-NOT-REWRITTEN (get_color), VARARGS-AS-GIVEN


def unpack_split(prog: Program) -> RuleResult:
    res = RuleResult(
        "UNPACK-SPLIT",
        "a string that is split and unpacked into n names is split at most n - 1 times (`maxsplit`): otherwise one "
        "separator more in the data is a ValueError; and the `<species>_<id>` name of an extant gene is split from "
        "the RIGHT, because the species part may itself contain underscores",
    )
    n = 0
    for mod in sorted(prog.modules.values(), key=lambda m: m.relpath):
        key = _modkey(mod)
        for qual, fn in prog.defs(mod.name).items():
            if not isinstance(fn, FuncNode):
                continue
            for st in walk_no_nested(fn):
                if not (isinstance(st, ast.Assign) and len(st.targets) == 1 and isinstance(st.targets[0], ast.Tuple)):
                    continue
                call = st.value
                if not (isinstance(call, ast.Call) and isinstance(call.func, ast.Attribute) and call.func.attr in ("split", "rsplit")):
                    continue
                if any(isinstance(e, ast.Starred) for e in st.targets[0].elts):
                    continue
                n += 1
                want = len(st.targets[0].elts) - 1
                maxsplit = call.args[1] if len(call.args) > 1 else next((k.value for k in call.keywords if k.arg == "maxsplit"), None)
                construct = f"{key}:{qual}/unpack-split[{short(call.func.value, 30)}]"
                if not (isinstance(maxsplit, ast.Constant) and maxsplit.value == want):
                    res.fail(construct, f"`{short(st, 70)}` unpacks into {want + 1} names without `maxsplit={want}`: a value with one separator more raises ValueError (a species called `e_coli` gives the leaf `e_coli_1`)", mod, st)
                elif key == "render.layout" and call.func.attr != "rsplit" and isinstance(call.func.value, ast.Attribute) and call.func.value.attr == "name":
                    res.fail(construct, f"`{short(st, 70)}` splits a `<species>_<id>` name from the left: the species part may contain underscores, the id does not", mod, st)
                else:
                    res.ok(construct, f"{call.func.attr} with maxsplit={want}")
    if n < 1:
        raise AnalysisError("UNPACK-SPLIT: no unpacked split found in the package (the leaf-name convention is parsed somewhere)")
    return res


def record_fields_agree(prog: Program) -> RuleResult:
    res = RuleResult(
        "RECORD-FIELDS-AGREE",
        "the branch records that `_compute_branches` builds for the four kinds of object nodes treat the colour alike: "
        "either none of the record literals carries it (it is added afterwards for every kind), or all of them do - a "
        "kind whose record lacks what its siblings carry is drawn in the default colour",
    )
    mod = prog.module("render.layout")
    fn = prog.func("render.layout", "_compute_branches")
    records = []
    for st in walk_no_nested(fn):
        if isinstance(st, ast.Assign) and isinstance(st.value, ast.Dict) and isinstance(st.targets[0], ast.Subscript) and isinstance(st.targets[0].value, ast.Subscript) and isinstance(st.targets[0].value.slice, ast.Constant) and st.targets[0].value.slice.value == "branches":
            kinds = [dotted(v) for k, v in zip(st.value.keys, st.value.values) if isinstance(k, ast.Constant) and k.value == "kind"]
            carries = any((isinstance(k, ast.Constant) and k.value == "color") or (k is None and "col" in unparse(v).lower()) for k, v in zip(st.value.keys, st.value.values))
            records.append((kinds[0] if kinds else "?", carries, st))
    if len(records) < 4:
        raise AnalysisError(f"_compute_branches: only {len(records)} branch records found")
    construct = "render.layout:_compute_branches/colour-in-every-record"
    with_c = [r for r in records if r[1]]
    without = [r for r in records if not r[1]]
    if with_c and without:
        res.fail(construct, f"the record of {without[0][0]} does not carry the colour that the record of {with_c[0][0]} carries", mod, without[0][2])
    else:
        res.ok(construct, f"{len(records)} records, colour {'in every literal' if with_c else 'added afterwards for every kind'}")
    return res


def param_not_rewritten(prog: Program) -> RuleResult:
    res = RuleResult(
        "PARAM-NOT-REWRITTEN",
        "`get_color` interns the colour it is given: its parameter is never rebound (normalised, validated and "
        "replaced by a default): two spellings of a colour may get two definitions, but a colour is never turned "
        "into another one",
    )
    mod = prog.module("render.tikz")
    hits = [fn for qual, fn in prog.defs("render.tikz").items() if isinstance(fn, FuncNode) and qual.split(".")[-1] == "get_color"]
    if not hits:
        raise AnalysisError("render.tikz: get_color not found")
    for fn in hits:
        construct = "render.tikz:render.get_color/colour-as-given"
        params = func_params(fn)
        rebinds = [st for st in walk_no_nested(fn) if isinstance(st, (ast.Assign, ast.AugAssign)) and any(dotted(t) in params for t in (st.targets if isinstance(st, ast.Assign) else [st.target]))]
        if rebinds:
            res.fail(construct, f"`{short(rebinds[0], 70)}` replaces the colour that was asked for", mod, rebinds[0])
        else:
            res.ok(construct, f"`{params[0] if params else '?'}` is interned as given")
    return res


def varargs_as_given(prog: Program) -> RuleResult:
    res = RuleResult(
        "VARARGS-AS-GIVEN",
        "`Entry.update` / `EntryProxy.update` hand on the batch of candidates they were given: the `*candidates` "
        "parameter is never rebound or unpacked (`first, *candidates = candidates` takes a candidate out of the "
        "retention logic), and a cell that is written for the first time starts as `table.entry()` - empty, with the "
        "policies of the table",
    )
    mod = prog.module(DP)
    n = 0
    for cname in ("Entry", "EntryProxy"):
        cls = prog.cls(DP, cname)
        fn = method_def(cls, "update")
        if fn is None or fn.args.vararg is None:
            continue
        n += 1
        va = fn.args.vararg.arg
        construct = f"{DP}:{cname}.update/batch-as-given"
        rebinds = [
            st for st in walk_no_nested(fn)
            if isinstance(st, (ast.Assign, ast.AugAssign))
            and any(isinstance(x, ast.Name) and x.id == va and isinstance(x.ctx, ast.Store) for t in (st.targets if isinstance(st, ast.Assign) else [st.target]) for x in ast.walk(t))
            # (materialising the whole batch keeps it whole)
            and not (isinstance(st, ast.Assign) and len(st.targets) == 1 and isinstance(st.targets[0], ast.Name) and isinstance(st.value, ast.Call) and dotted(st.value.func) in ("list", "tuple") and len(st.value.args) == 1 and dotted(st.value.args[0]) == va)
        ]
        seeded = [
            c for c in walk_no_nested(fn)
            if isinstance(c, ast.Call) and isinstance(c.func, ast.Attribute) and c.func.attr == "entry" and (c.args or c.keywords)
        ] if cname == "EntryProxy" else []
        if rebinds:
            res.fail(construct, f"`{short(rebinds[0], 70)}` takes candidates out of the batch before the retention logic sees them", mod, rebinds[0])
        elif seeded:
            res.fail(construct, f"a cell written for the first time is created by `{short(seeded[0], 60)}`, not as an empty entry: what it starts with bypasses the retention policy", mod, seeded[0])
        else:
            res.ok(construct, f"`*{va}` handed on as given")
    if n < 2:
        raise AnalysisError("VARARGS-AS-GIVEN: update(*candidates) of Entry / EntryProxy not found")
    return res


# ---------------------------------------------------------------------------
# TABLE-ENTRY-POLICIES, TABLE-KEY-OPAQUE


def table_entry_policies(prog: Program) -> RuleResult:
    res = RuleResult(
        "TABLE-ENTRY-POLICIES",
        "every entry that `Table.entry` hands out carries BOTH policies of the table: each `Entry(...)` it returns is "
        "given `self.merge_policy` and `self.retention_policy` (an explicitly seeded entry without the retention "
        "policy falls back to NONE and forgets the tags of later optimal candidates)",
    )
    mod = prog.module(DP)
    cls = prog.cls(DP, "Table")
    fn = method_def(cls, "entry")
    if fn is None:
        raise AnalysisError("Table.entry not found")
    ctors = [c for r in walk_no_nested(fn) if isinstance(r, ast.Return) and r.value is not None for c in ast.walk(r.value) if isinstance(c, ast.Call) and dotted(c.func) == "Entry"]
    if not ctors:
        raise AnalysisError("Table.entry: no Entry(...) returned")
    for k, c in enumerate(ctors):
        construct = f"{DP}:Table.entry/policies#{k}"
        given = {dotted(a) for a in c.args} | {dotted(kw.value) for kw in c.keywords}
        missing = [p for p in ("self.merge_policy", "self.retention_policy") if p not in given]
        if missing:
            res.fail(construct, f"`{short(c, 70)}` is not given {missing}: the entry falls back to the default policy instead of the table's", mod, c)
        else:
            res.ok(construct, "both policies of the table")
    return res


def table_key_opaque(prog: Program) -> RuleResult:
    res = RuleResult(
        "TABLE-KEY-OPAQUE",
        "`Table.__getitem__` / `__setitem__` use the key they are given as ONE key: no test on its type, no unpacking "
        "(a tuple is a legitimate key of a dictionary dimension; `table[i, j]` as a shorthand for `table[i][j]` makes "
        "`('x',)` an alias of `'x'`)",
    )
    mod = prog.module(DP)
    cls = prog.cls(DP, "Table")
    n = 0
    for mname in ("__getitem__", "__setitem__"):
        fn = method_def(cls, mname)
        if fn is None:
            continue
        n += 1
        key = [p for p in func_params(fn) if p != "self"][0]
        construct = f"{DP}:Table.{mname}/key-as-given"
        typed = [c for c in walk_no_nested(fn) if isinstance(c, ast.Call) and dotted(c.func) in ("isinstance", "type") and c.args and dotted(c.args[0]) == key]
        unpacked = [x for x in walk_no_nested(fn) if (isinstance(x, ast.Starred) and dotted(x.value) == key) or (isinstance(x, (ast.For, ast.comprehension)) and dotted(x.iter) == key)]
        if typed:
            res.fail(construct, f"`{short(typed[0])}` treats some keys differently from others", mod, typed[0])
        elif unpacked:
            res.fail(construct, "the key is unpacked into several indices", mod, unpacked[0] if hasattr(unpacked[0], "lineno") else fn)
        else:
            res.ok(construct, f"`{key}` is one key")
    if n < 2:
        raise AnalysisError("TABLE-KEY-OPAQUE: Table.__getitem__ / __setitem__ not found")
    return res


# ---------------------------------------------------------------------------
# PROTOCOL-ONLY

PROTOCOL_METHODS = {
    "Sequence": {"index", "count"},
    "Iterable": set(),
    "Iterator": set(),
    "Collection": set(),
    "Mapping": {"get", "items", "keys", "values"},
    "AbstractSet": {"isdisjoint"},
}


def protocol_only(prog: Program) -> RuleResult:
    res = RuleResult(
        "PROTOCOL-ONLY",
        "a parameter annotated with an abstract container (`Sequence`, `Iterable`, `Mapping`, ...) is used through that "
        "protocol only: calling `.copy()`, `.append()`, `.sort()` ... on it works for lists and fails (AttributeError) "
        "for the tuples, strings and ranges the signature promises to accept",
    )
    n = 0
    for mod in sorted(prog.modules.values(), key=lambda m: m.relpath):
        key = _modkey(mod)
        for qual, fn in prog.defs(mod.name).items():
            if not isinstance(fn, FuncNode):
                continue
            for arg in fn.args.args + fn.args.kwonlyargs:
                ann = unparse(arg.annotation) if arg.annotation is not None else ""
                head = ann.split("[")[0].split(".")[-1]
                if head not in PROTOCOL_METHODS:
                    continue
                rebound = any(isinstance(x, ast.Name) and x.id == arg.arg and isinstance(x.ctx, ast.Store) for x in ast.walk(fn))
                if rebound:
                    continue
                n += 1
                construct = f"{key}:{qual}/protocol[{arg.arg}: {head}]"
                bad = [
                    c for c in walk_no_nested(fn)
                    if isinstance(c, ast.Call) and isinstance(c.func, ast.Attribute) and isinstance(c.func.value, ast.Name) and c.func.value.id == arg.arg
                    and c.func.attr not in PROTOCOL_METHODS[head] and not c.func.attr.startswith("__")
                ]
                if bad:
                    res.fail(construct, f"`{short(bad[0], 60)}`: `{bad[0].func.attr}` is not part of {head}; a tuple, a string or a range given for `{arg.arg}` raises AttributeError", mod, bad[0])
                else:
                    res.ok(construct, f"used as a {head}")
    if n < 10:
        raise AnalysisError(f"PROTOCOL-ONLY: only {n} parameters with an abstract container annotation found")
    return res


# ---------------------------------------------------------------------------
# SUPERTREE-DELEGATES


def supertree_delegates(prog: Program) -> RuleResult:
    res = RuleResult(
        "SUPERTREE-DELEGATES",
        "`supertree` and `all_supertrees` are the triple decomposition followed by OneTree / AllTrees and nothing "
        "else: the trees they are given are handed to `trees_to_triples` as they are (materialising the iterable is "
        "fine, dropping or pre-judging trees is not), and the only answer is the one of the triple routine",
    )
    mod = prog.module(TREES)
    for qual, callee in (("supertree", "tree_from_triples"), ("all_supertrees", "all_trees_from_triples")):
        fn = prog.func(TREES, qual)
        p_trees = func_params(fn)[0]
        construct = f"{TREES}:{qual}/delegates"
        rets = [r for r in walk_no_nested(fn) if isinstance(r, ast.Return)]
        final = [r for r in rets if isinstance(r.value, ast.Call) and dotted(r.value.func) == callee]
        other = [r for r in rets if r not in final]
        rebinds = [
            st for st in walk_no_nested(fn)
            if isinstance(st, (ast.Assign, ast.AugAssign)) and any(dotted(t) == p_trees for t in (st.targets if isinstance(st, ast.Assign) else [st.target]))
            and not (isinstance(st, ast.Assign) and isinstance(st.value, ast.Call) and dotted(st.value.func) in ("list", "tuple") and len(st.value.args) == 1 and dotted(st.value.args[0]) == p_trees)
        ]
        fed = [c for c in ast.walk(fn) if isinstance(c, ast.Call) and dotted(c.func) == "trees_to_triples"]
        if len(final) != 1 or not fed:
            raise AnalysisError(f"{qual}: delegation to {callee}(*trees_to_triples(...)) not found")
        if other:
            res.fail(construct, f"`{short(other[0], 60)}` answers without asking {callee}: whether trees are compatible is decided by their triples, not by a comparison of their shapes or sizes", mod, other[0])
        elif rebinds:
            res.fail(construct, f"`{short(rebinds[0], 80)}` replaces the trees that were given: a tree left out takes its triples (its constraints) with it", mod, rebinds[0])
        elif not (fed[0].args and dotted(fed[0].args[0]) == p_trees):
            res.fail(construct, f"trees_to_triples is given `{short(fed[0].args[0] if fed[0].args else fed[0], 60)}`, not the trees of the call", mod, fed[0])
        else:
            res.ok(construct, f"{callee}(*trees_to_triples({p_trees}))")
    return res


# ---------------------------------------------------------------------------
# WRAP-FINAL-TEXT


def wrap_final_text(prog: Program) -> RuleResult:
    res = RuleResult(
        "WRAP-FINAL-TEXT",
        "`format_synteny` wraps the text that is displayed: what `balanced_wrap` receives is the finished label (the "
        "families joined with `', '`), and what it returns is returned as it is - separators inserted after the "
        "wrapping make every line longer than the width it was checked against",
    )
    mod = prog.module("model.synteny")
    fn = prog.func("model.synteny", "format_synteny")
    calls = [c for c in walk_no_nested(fn) if isinstance(c, ast.Call) and dotted(c.func) == "balanced_wrap"]
    if not calls:
        raise AnalysisError("format_synteny: call of balanced_wrap not found")
    construct = "model.synteny:format_synteny/wraps-the-displayed-text"
    call = calls[0]
    arg = call.args[0] if call.args else None
    src = arg
    if isinstance(arg, ast.Name):
        got = reaching(fn, arg.id, call)
        src = got if got is not None and not isinstance(got, Opaque) else arg
    sep = src.func.value.value if isinstance(src, ast.Call) and isinstance(src.func, ast.Attribute) and src.func.attr == "join" and isinstance(src.func.value, ast.Constant) else None
    par = mod.parent(call)
    post = isinstance(par, ast.Attribute) or (isinstance(par, ast.Call) and par is not call and dotted(par.func) not in (None,) and call in par.args)
    # the wrapped text bound to a local that is then edited
    if isinstance(par, ast.Assign) and len(par.targets) == 1 and isinstance(par.targets[0], ast.Name):
        name = par.targets[0].id
        uses = [x for x in walk_no_nested(fn) if isinstance(x, ast.Name) and x.id == name and isinstance(x.ctx, ast.Load) and x.lineno > par.lineno]
        post = any(not isinstance(mod.parent(u), ast.Return) for u in uses)
    if sep != ", ":
        res.fail(construct, f"balanced_wrap is given `{short(src, 60)}`, which is not the label that is displayed (families joined with ', '): the width is checked against a shorter text", mod, call)
    elif post:
        res.fail(construct, f"the wrapped text is edited afterwards (`{short(par, 60)}`): what is displayed is not what was fitted to the width", mod, call)
    else:
        res.ok(construct, "the joined label is wrapped and returned as wrapped")
    return res


# ---------------------------------------------------------------------------
# FILL-OBJECT-MAJOR


def fill_object_major(prog: Program) -> RuleResult:
    res = RuleResult(
        "FILL-OBJECT-MAJOR",
        "the tables are filled object by object: every call of a fill helper lies in a loop whose OUTERMOST traversal "
        "is the post-order walk of the object tree, the species (and syntenies) being enumerated inside it - the entry "
        "of an object at one species reads the entries of its children at EVERY species (a transferred child sits "
        "anywhere), so filling species by species reads rows that are still empty",
    )
    targets = (
        ("compute.reconciliation", "_compute_thl_table", ("_compute_thl_try_speciation", "_compute_thl_try_duplication_transfer")),
        ("compute.super_reconciliation", "_compute_spfs_table", ("_compute_spfs_entry",)),
        ("compute.unordered_super_reconciliation", "_compute_uspfs_table", ("_compute_uspfs_entry",)),
    )
    for modname, qual, helpers in targets:
        mod = prog.module(modname)
        fn = prog.func(modname, qual)
        calls = [c for c in walk_no_nested(fn) if isinstance(c, ast.Call) and dotted(c.func) in helpers]
        if not calls:
            raise AnalysisError(f"{qual}: no call of {helpers} found")
        construct = f"{modname}:{qual}/object-major"
        bad = None
        for c in calls:
            around = [l for l in loops_around(fn, c) if isinstance(l, ast.For)]
            if not around:
                bad = (c, "is not in a loop")
                break
            it = around[0].iter
            if isinstance(it, ast.Call) and (dotted(it.func) or "").endswith("tqdm") and it.args:
                it = it.args[0]
            if isinstance(it, ast.Name):
                got = reaching(fn, it.id, around[0])
                it = got if got is not None and not isinstance(got, Opaque) else it
            over_objects = isinstance(it, ast.Call) and isinstance(it.func, ast.Attribute) and it.func.attr == "traverse" and "object_tree" in unparse(it.func.value)
            strat = kwarg(it, "strategy", 0) if isinstance(it, ast.Call) else None
            post = isinstance(strat, ast.Constant) and strat.value == "postorder"
            if not (over_objects and post):
                bad = (c, f"has `for {short(around[0].target)} in {short(around[0].iter, 50)}` as its outermost loop")
                break
        if bad:
            res.fail(construct, f"`{short(bad[0], 50)}` {bad[1]}, not the post-order walk of the object tree: rows of child objects that a transfer reads are not final yet", mod, bad[0])
        else:
            res.ok(construct, f"{len(calls)} fill call(s) under the post-order walk of the object tree")
    return res

# ---------------------------------------------------------------------------
# eleventh batch


def update_policy_symmetric(prog: Program) -> RuleResult:
    res = RuleResult(
        "UPDATE-POLICY-SYMMETRIC",
        "`Entry.update` treats the two merge policies alike: every candidate goes through the comparison that is "
        "guarded by the policy flags - no early `return`, and no builtin `min` / `max` / `sorted` choosing among the "
        "candidates whatever the policy says",
    )
    mod = prog.module(DP)
    fn = method_def(prog.cls(DP, "Entry"), "update")
    if fn is None:
        raise AnalysisError("Entry.update not found")
    construct = f"{DP}:Entry.update/policy-symmetric"
    rets = [n for n in walk_no_nested(fn) if isinstance(n, ast.Return)]
    picks = [c for c in ast.walk(fn) if isinstance(c, ast.Call) and isinstance(c.func, ast.Name) and c.func.id in ("min", "max", "sorted")]
    loops = [n for n in walk_no_nested(fn) if isinstance(n, ast.For)]
    if not loops:
        raise AnalysisError("Entry.update: the loop over the candidates was not found")
    if rets:
        res.fail(construct, f"`{short(rets[0], 60)}` leaves update before (or while) the candidates are compared: what the shortcut does instead is not guarded by both policy flags", mod, rets[0])
    elif picks:
        res.fail(construct, f"`{short(picks[0], 60)}` picks among the candidates with a fixed direction: an entry that maximises gets the smallest value of a batch (or the other way round)", mod, picks[0])
    else:
        res.ok(construct, "one loop, every candidate compared under the policy flags")
    return res


def proxy_cell_store(prog: Program) -> RuleResult:
    res = RuleResult(
        "PROXY-CELL-STORE",
        "`EntryProxy.update` writes into the cell of the table: the entry that receives the candidates is the "
        "subscripted cell itself, or a local that was stored into the cell by a subscript assignment on every path "
        "where it is fresh - `setdefault` does not replace the None a cell holds after it has been read",
    )
    mod = prog.module(DP)
    fn = method_def(prog.cls(DP, "EntryProxy"), "update")
    if fn is None:
        raise AnalysisError("EntryProxy.update not found")
    construct = f"{DP}:EntryProxy.update/cell-store"
    recv = [c for c in ast.walk(fn) if isinstance(c, ast.Call) and isinstance(c.func, ast.Attribute) and c.func.attr == "update" and any(isinstance(a, ast.Starred) for a in c.args)]
    if not recv:
        raise AnalysisError("EntryProxy.update: the call that hands the candidates to the real entry was not found")
    soft = [c for c in ast.walk(fn) if isinstance(c, ast.Call) and isinstance(c.func, ast.Attribute) and c.func.attr == "setdefault"]
    if soft:
        res.fail(construct, f"`{short(soft[0], 60)}` keeps what the cell holds - the None placeholder of a cell that was read before it was written - so the fresh entry and its candidates are lost", mod, soft[0])
        return res
    for call in recv:
        target = call.func.value
        if isinstance(target, ast.Subscript):
            continue
        if not isinstance(target, ast.Name):
            raise AnalysisError(f"EntryProxy.update: receiver `{short(target)}` not understood")
        fresh = [
            st for st in walk_no_nested(fn)
            if isinstance(st, ast.Assign) and any(isinstance(t, ast.Name) and t.id == target.id for t in st.targets)
            and isinstance(st.value, ast.Call) and isinstance(st.value.func, ast.Attribute) and st.value.func.attr == "entry"
        ]
        for st in fresh:
            chained = any(isinstance(t, ast.Subscript) for t in st.targets)
            stored = any(
                isinstance(o, ast.Assign) and any(isinstance(t, ast.Subscript) for t in o.targets) and isinstance(o.value, ast.Name) and o.value.id == target.id
                for o in walk_no_nested(fn)
            )
            if not (chained or stored):
                res.fail(construct, f"`{short(st, 60)}` creates the entry but no subscript assignment puts it into the table: the candidates go to an entry nobody can read", mod, st)
                return res
    res.ok(construct, "the candidates go to the cell of the table")
    return res


def ancestry_total(prog: Program) -> RuleResult:
    res = RuleResult(
        "ANCESTRY-TOTAL",
        "the ancestry structure accepts every rooted tree: building it (`LowestCommonAncestor.__init__`, "
        "`_euler_tour`) raises nothing, and a query refuses only the empty set of nodes",
    )
    mod = prog.module(TREES)
    cls = prog.cls(TREES, "LowestCommonAncestor")
    n = 0
    bodies = [(f"LowestCommonAncestor.{m.name}", m) for m in cls.body if isinstance(m, FuncNode)] + [("_euler_tour", prog.func(TREES, "_euler_tour"))]
    for qual, fn in bodies:
        n += 1
        construct = f"{TREES}:{qual}/total"
        raises = [r for r in walk_no_nested(fn) if isinstance(r, ast.Raise)]
        bad = None
        for r in raises:
            if qual.endswith(".__call__"):
                va = fn.args.vararg.arg if fn.args.vararg else None
                tests = [t for t, _pol in _dominating_tests(fn, r)]
                names = {x.id for t in tests for x in ast.walk(t) if isinstance(x, ast.Name)} - {"len"}
                if tests and va is not None and names == {va}:
                    continue
            bad = r
            break
        if bad is not None:
            res.fail(construct, f"`{short(bad, 70)}` refuses an input: every rooted tree, of any arity at any node, has well-defined ancestry", mod, bad)
        else:
            res.ok(construct, "no refusal" if not raises else "refuses only the empty set of nodes")
    if n < 5:
        raise AnalysisError(f"ANCESTRY-TOTAL: only {n} functions found")
    return res


def parent_encapsulated(prog: Program) -> RuleResult:
    res = RuleResult(
        "PARENT-ENCAPSULATED",
        "the parent forest of the disjoint-set structure is read through `find`: outside `__init__`, `find` and "
        "`unite`, no method subscripts or iterates `self.parent` (a parent link is not a representative until the "
        "path to the root has been followed), only its length is used",
    )
    modname = "utils.disjoint_set"
    mod = prog.module(modname)
    cls = prog.cls(modname, "DisjointSet")
    n = 0
    for m in cls.body:
        if not isinstance(m, FuncNode) or m.name in ("__init__", "find", "unite"):
            continue
        n += 1
        construct = f"{modname}:DisjointSet.{m.name}/through-find"
        bad = None
        for node in ast.walk(m):
            if isinstance(node, ast.Attribute) and node.attr == "parent" and dotted(node) == "self.parent":
                par = mod.parent(node)
                if isinstance(par, ast.Call) and isinstance(par.func, ast.Name) and par.func.id == "len":
                    continue
                bad = par if par is not None else node
                break
        if bad is not None:
            res.fail(construct, f"`{short(bad, 70)}` reads parent links directly: a link is the representative only for roots and their children", mod, bad)
        else:
            res.ok(construct, "representatives come from find()")
    if n < 2:
        raise AnalysisError("PARENT-ENCAPSULATED: methods of DisjointSet not found")
    return res


def draw_no_skip(prog: Program) -> RuleResult:
    res = RuleResult(
        "DRAW-NO-SKIP",
        "`_tikz_draw_branches` draws every branch record of the layout: the loop over the records has no `continue`, "
        "`break` or `return` - what is drawn for a record depends on its kind only, never on where it happens to lie",
    )
    modname = "render.tikz"
    mod = prog.module(modname)
    fn = prog.func(modname, "_tikz_draw_branches")
    loops = [l for l in walk_no_nested(fn) if isinstance(l, ast.For) and "branches" in (short(l.iter, 200) or "")]
    if not loops:
        raise AnalysisError("_tikz_draw_branches: the loop over the branch records was not found")
    construct = f"{modname}:_tikz_draw_branches/every-record"
    jumps = [j for l in loops for j in walk_no_nested(l) if isinstance(j, (ast.Continue, ast.Break, ast.Return))]
    if jumps:
        tests = [short(t, 50) for t, _p in _dominating_tests(fn, jumps[0])]
        res.fail(construct, f"`{short(jumps[0])}` under {tests[-1:] or ['no test']} skips the rest of a record: its event node, child edges or transfer arrow are not drawn", mod, jumps[0])
    else:
        res.ok(construct, "no jump inside the loop over the branch records")
    return res


LAZY_BUILTINS = ("map", "filter", "zip", "reversed", "iter", "enumerate")


def no_lazy_values(prog: Program) -> RuleResult:
    res = RuleResult(
        "NO-LAZY-VALUES",
        "what the model stores can be read more than once: no `map` / `filter` / `zip` / generator object is put into a "
        "dictionary, a field, a constructor argument or a returned record of the model modules - a one-shot iterator "
        "is empty the second time the object is serialised, priced or compared",
    )
    n = 0

    def lazy(expr: ast.AST) -> bool:
        if isinstance(expr, ast.GeneratorExp):
            return True
        return isinstance(expr, ast.Call) and isinstance(expr.func, ast.Name) and expr.func.id in LAZY_BUILTINS

    for modname in ("model.reconciliation", "model.synteny", "model.tree_mapping"):
        mod = prog.module(modname)
        for qual, fn in prog.defs(modname).items():
            if not isinstance(fn, FuncNode):
                continue
            n += 1
            construct = f"{modname}:{qual}/stored-values"
            bad = None
            for node in walk_no_nested(fn):
                stored: List[ast.AST] = []
                if isinstance(node, ast.Dict):
                    stored = [v for v in node.values if v is not None]
                elif isinstance(node, ast.DictComp):
                    stored = [node.value]
                elif isinstance(node, (ast.List, ast.Tuple, ast.Set)) and isinstance(getattr(node, "ctx", ast.Load()), ast.Load):
                    stored = list(node.elts)
                elif isinstance(node, ast.Assign) and any(isinstance(t, (ast.Attribute, ast.Subscript)) for t in node.targets):
                    stored = [node.value]
                elif isinstance(node, ast.Call) and (
                    (isinstance(node.func, ast.Name) and (node.func.id[:1].isupper() or node.func.id == "cls"))
                    or (isinstance(node.func, ast.Attribute) and node.func.attr in ("add_feature", "setdefault", "append", "add"))
                ):
                    stored = list(node.args) + [k.value for k in node.keywords]
                for v in stored:
                    if lazy(v):
                        bad = v
                        break
                if bad is not None:
                    break
            if bad is not None:
                res.fail(construct, f"`{short(bad, 60)}` is stored as it is: an iterator yields its items once, the second reader of the object finds nothing", mod, bad)
            else:
                res.ok(construct, "no one-shot iterator stored")
    if n < 20:
        raise AnalysisError(f"NO-LAZY-VALUES: only {n} functions of the model modules seen")
    return res



RULES = {
    "UPDATE-POLICY-SYMMETRIC": update_policy_symmetric,
    "PROXY-CELL-STORE": proxy_cell_store,
    "ANCESTRY-TOTAL": ancestry_total,
    "PARENT-ENCAPSULATED": parent_encapsulated,
    "DRAW-NO-SKIP": draw_no_skip,
    "NO-LAZY-VALUES": no_lazy_values,
    "FILL-OBJECT-MAJOR": fill_object_major,
    "WRAP-FINAL-TEXT": wrap_final_text,
    "SUPERTREE-DELEGATES": supertree_delegates,
    "PROTOCOL-ONLY": protocol_only,
    "TABLE-ENTRY-POLICIES": table_entry_policies,
    "TABLE-KEY-OPAQUE": table_key_opaque,
    "UNPACK-SPLIT": unpack_split,
    "RECORD-FIELDS-AGREE": record_fields_agree,
    "PARAM-NOT-REWRITTEN": param_not_rewritten,
    "VARARGS-AS-GIVEN": varargs_as_given,
    "LOSS-COLOR-OWN": loss_color_own,
    "LABEL-LINEBREAKS": label_linebreaks,
    "JSON-INFINITE-COSTS": json_infinite_costs,
    "TRIPLES-RECURSION": triples_recursion,
    "BRANCH-COMPLETE-ASSIGN": branch_complete_assign,
    "TREE-AS-GIVEN": tree_as_given,
    "KINDS-COMPLETE": kinds_complete,
    "CLOSURE-LATE-BINDING": closure_late_binding,
    "REFINEMENT-PAIRING": refinement_pairing,
    "ROOT-CONTENT": root_content,
    "TAG-TEST-CONSISTENT": tag_test_consistent,
    "GEOM-NO-ORDER": geom_no_order,
    "KIND-ENUM-BASE": kind_enum_base,
    "GRAPH-AS-GIVEN": graph_as_given,
    "EVAL-NO-SHORTCUT": eval_no_shortcut,
    "COMBINATOR-TOTAL": combinator_total,
    "TRIPLES-SOURCE": triples_source,
    "CHAINED-ASSIGN-ORDER": chained_assign_order,
    "PROXY-UPDATE-GATE": proxy_update_gate,
    "WRAP-AFTER-ESCAPE": wrap_after_escape,
    "DRAW-COLOR-OWN": draw_color_own,
    "BINARY-COARSENINGS": binary_coarsenings,
    "PRIVATE-INDEX": private_index,
    "ITERABLE-ONCE": iterable_once,
    "UPDATE-ALL-CANDIDATES": update_all_candidates,
    "HASH-CANONICAL": hash_canonical,
    "NODE-OPAQUE": node_opaque,
    "STALE-INPUT": stale_input,
    "GAIN-AT-LCA": gain_at_lca,
    "COST-NO-ROUNDING": cost_no_rounding,
    "TREE-ITER-EXPLICIT": tree_iter_explicit,
    "MASK-RANGE": mask_range,
    "CANDIDATE-GUARDS": candidate_guards,
    "CLI-FLOW-TABLE": cli_flow_table,
    "LOSS-WALK": loss_walk,
    "SET-ALGEBRA-ARGS": set_algebra_args,
    "NAME-AS-KEY": name_as_key,
    "KEY-GUARD": key_guard,
    "COST-KEY-RESOLUTION": cost_key_resolution,
    "BINARIZE-GUARD": binarize_guard,
    "OUTPUT-FLAG": output_flag,
    "ENTRY-CTOR": entry_ctor,
    "ENUM-NO-TRUNCATION": enum_no_truncation,
    "HASH-IDENTITY": hash_identity,
    "COST-GUARD": cost_guard,
    "COPY-FAITHFUL": copy_faithful,
    "WIDTH-VERBATIM": width_verbatim,
    "LEAF-MAP-DOMAIN": leaf_map_domain,
    "TOPO-VERDICT": topo_verdict,
    "ROOT-ORDER-SOURCE": root_order_source,
}
