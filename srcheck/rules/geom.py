"""Orientation symmetry of the layout (C14): SIGMA-INVARIANCE and SIGMA-CLOSURE."""
from __future__ import annotations

import ast
from typing import List

from ..core import AnalysisError, FuncNode, Program, RuleResult, dotted, short, walk_no_nested
from ..resolve import own_fields
from ..sigma import (
    SWAP_METHOD,
    canon_block,
    canon_stmt,
    first_difference,
    is_orientation_test,
    sigma,
)

LAYOUT = "render.layout"
GEOM = "utils.geometry"


def sigma_invariance(prog: Program) -> RuleResult:
    res = RuleResult(
        "SIGMA-INVARIANCE",
        "render/layout.py is invariant under the transposition sigma (x<->y, w<->h, top<->left, bottom<->right, "
        "VERTICAL<->HORIZONTAL, ...): the two arms of every orientation switch are sigma-images of each other and "
        "every orientation-independent statement is its own image - so the horizontal layout is the transposed "
        "vertical layout of the transposed sizes",
    )
    mod = prog.module(LAYOUT)
    n_pairs = 0
    n_funcs = 0
    for qual, fn in prog.defs(LAYOUT).items():
        if not isinstance(fn, FuncNode) or "." in qual:
            continue
        n_funcs += 1
        pair_idx = 0
        for node in ast.walk(fn):
            if isinstance(node, ast.If) and is_orientation_test(node.test) is not None:
                pair_idx += 1
                n_pairs += 1
                kind = is_orientation_test(node.test)
                vert, horiz = (node.body, node.orelse) if kind == "VERTICAL" else (node.orelse, node.body)
                construct = f"{LAYOUT}:{qual}/orientation-switch#{pair_idx}"
                if not vert or not horiz:
                    res.fail(construct, "one orientation has no code at this switch", mod, node)
                    continue
                image = [sigma(s) for s in horiz]
                a = canon_block(vert)
                b = canon_block(image)
                if a == b:
                    res.ok(construct, f"{len(vert)} statement(s): horizontal arm = sigma(vertical arm)")
                else:
                    x, y = first_difference(a, b)
                    res.fail(
                        construct,
                        "the horizontal arm is not the transposed vertical arm: vertical has "
                        f"`{x[:160]}` where the transposed horizontal arm has `{y[:160]}`",
                        mod,
                        node,
                        vertical=a,
                        transposed_horizontal=b,
                    )
        construct = f"{LAYOUT}:{qual}/orientation-independent-part"
        a = canon_block(fn.body, orient_placeholder=True)
        b = canon_block(sigma(fn).body, orient_placeholder=True)  # type: ignore[attr-defined]
        if a == b:
            res.ok(construct, "invariant under sigma", nontrivial=pair_idx > 0 or _mentions_geometry(fn))
        else:
            x, y = first_difference(a, b)
            res.fail(
                construct,
                f"a statement outside the orientation switches is not symmetric: `{x[:200]}` transposes to `{y[:200]}`",
                mod,
                fn,
            )
    if n_pairs < 10 or n_funcs < 5:
        raise AnalysisError(f"SIGMA-INVARIANCE: only {n_pairs} orientation switches in {n_funcs} functions recognised")
    return res


def _mentions_geometry(fn: ast.AST) -> bool:
    return any(isinstance(n, ast.Attribute) and n.attr in ("x", "y", "w", "h") for n in ast.walk(fn))


def sigma_closure(prog: Program) -> RuleResult:
    res = RuleResult(
        "SIGMA-CLOSURE",
        "the geometry primitives are closed under sigma: transposing the body of a method gives the body of the "
        "transposed method (top<->left, top_right<->bottom_left, meet_hv<->meet_vh, the others fixed), and the "
        "field orders are (x, y), (w, h), (x, y, w, h)",
    )
    mod = prog.module(GEOM)
    expected_fields = {"Position": ["x", "y"], "Size": ["w", "h"], "Rect": ["x", "y", "w", "h"]}
    for cname, want in expected_fields.items():
        cls = prog.cls(GEOM, cname)
        got = own_fields(cls)
        construct = f"{GEOM}:{cname}/fields"
        if got == want:
            res.ok(construct, f"{got}")
        else:
            res.fail(construct, f"fields are {got}, positional construction everywhere assumes {want}", mod, cls)
    for cname in ("Position", "Rect"):
        cls = prog.cls(GEOM, cname)
        methods = {s.name: s for s in cls.body if isinstance(s, FuncNode)}
        for name, fn in methods.items():
            if name in ("__str__", "__format__", "__repr__"):
                continue
            image_name = SWAP_METHOD.get(name, name)
            construct = f"{GEOM}:{cname}.{name}"
            if image_name not in methods:
                res.fail(construct, f"the transposed method `{image_name}` does not exist", mod, fn)
                continue
            vec = [a.arg for a in fn.args.args if a.annotation is not None and dotted(a.annotation) == "tuple"]
            a = canon_block([sigma(s, vec) for s in fn.body])
            b = canon_block(methods[image_name].body)
            if a == b:
                res.ok(construct, f"sigma({name}) = {image_name}")
            else:
                x, y = first_difference(a, b)
                res.fail(
                    construct,
                    f"transposing `{name}` gives `{x[:160]}` but `{image_name}` is `{y[:160]}`",
                    mod,
                    fn,
                )
    res.floor(18)
    return res



TIKZ = "render.tikz"


def _used_after(fn: ast.AST, switch: ast.If, name: str) -> bool:
    """Is `name` read after the switch (in a later statement of an enclosing block or a later loop iteration)?"""
    inside = {id(n) for n in ast.walk(switch)}
    for node in ast.walk(fn):
        if isinstance(node, ast.Name) and node.id == name and isinstance(node.ctx, ast.Load) and id(node) not in inside:
            if getattr(node, "lineno", 0) >= getattr(switch, "end_lineno", 0):
                return True
    return False


def sigma_draw(prog: Program) -> RuleResult:
    from ..geomsym import GeoEval, arm_values, is_geometric, sigma_value

    res = RuleResult(
        "SIGMA-DRAW",
        "in render/tikz.py, wherever the two orientations compute points, rectangles or TikZ path operators by "
        "straight-line code, the values left in the variables that are used afterwards are sigma-images of each "
        "other (components exchanged, x<->y and w<->h of every base rectangle / point renamed, `|-`<->`-|`): the "
        "horizontal drawing places every fork corner, leaf outline, leaf marker and loss marker where the "
        "transposed vertical drawing places it. Points are reduced to polynomials through the method bodies of "
        "utils/geometry.py, so helper points that differ only in a coordinate nobody reads do not matter.",
    )
    mod = prog.module(TIKZ)
    compared = 0
    skipped = []
    for qual, fn in prog.defs(TIKZ).items():
        if not isinstance(fn, FuncNode) or "." in qual:
            continue
        ge = GeoEval(prog, fn)
        idx = 0
        for node in ast.walk(fn):
            if not (isinstance(node, ast.If) and is_orientation_test(node.test) is not None):
                continue
            idx += 1
            kind = is_orientation_test(node.test)
            vert, horiz = (node.body, node.orelse) if kind == "VERTICAL" else (node.orelse, node.body)
            v = arm_values(ge, vert)
            h = arm_values(ge, horiz)
            base = f"{TIKZ}:{qual}/orientation-switch#{idx}"
            if v is None or h is None:
                skipped.append(base)
                continue
            live = sorted(n for n in set(v) | set(h) if _used_after(fn, node, n))
            geo = [n for n in live if n in v and n in h and is_geometric(v[n]) and is_geometric(h[n])]
            if not geo:
                skipped.append(base)
                continue
            for name in geo:
                compared += 1
                construct = f"{base}/{name}"
                image = sigma_value(h[name])
                if image == v[name]:
                    res.ok(construct, f"vertical {v[name]} = sigma(horizontal)")
                else:
                    res.fail(
                        construct,
                        f"`{name}`: the vertical arm gives {v[name]} but the transposed horizontal arm gives {image} "
                        f"(horizontal arm: {h[name]}): in one orientation this element is drawn somewhere else",
                        mod,
                        node,
                    )
            for name in live:
                if (name in v) != (name in h):
                    res.fail(f"{base}/{name}", f"`{name}` is used afterwards but only one orientation assigns it", mod, node)
    if compared < 6:
        raise AnalysisError(f"SIGMA-DRAW: only {compared} geometric values compared in render/tikz.py (skipped: {skipped})")
    res.ok(f"{TIKZ}:non-geometric-switches", f"{len(skipped)} orientation switches hold text styles or nested conditions and are not compared: {[s.split(':')[1] for s in skipped]}", nontrivial=False)
    return res


def finite_arith(prog: Program) -> RuleResult:
    from ..flow import guards

    res = RuleResult(
        "FINITE-ARITH",
        "every coordinate of a layout is built from the measured node sizes and the drawing parameters with "
        "+, -, *, division by a non-zero constant, and max/min over non-empty collections only: no division by a "
        "variable, no inf / nan / math function, no max()/min() of an iterable that can be empty (each is guarded by "
        "the truth of the collection it iterates or has a default) - so finite positive sizes give finite "
        "coordinates and the layout cannot fail on an empty species",
    )
    n = 0
    for modname in (LAYOUT, GEOM):
        mod = prog.module(modname)
        for qual, fn in prog.defs(modname).items():
            if not isinstance(fn, FuncNode):
                continue
            if "." in qual and modname == LAYOUT:
                continue
            bad = []
            for node in walk_no_nested(fn):
                if isinstance(node, ast.BinOp) and isinstance(node.op, (ast.Div, ast.FloorDiv, ast.Mod)):
                    r = node.right
                    if not (isinstance(r, ast.Constant) and isinstance(r.value, (int, float)) and r.value != 0):
                        bad.append((node, f"`{short(node, 60)}` divides by `{short(r)}`, which is not a non-zero constant"))
                if isinstance(node, ast.BinOp) and isinstance(node.op, ast.Pow):
                    bad.append((node, f"`{short(node, 60)}` uses a power"))
                if isinstance(node, ast.Name) and node.id in ("inf", "nan"):
                    bad.append((node, f"`{node.id}` enters a coordinate computation"))
                if isinstance(node, ast.Call) and (dotted(node.func) or "").startswith("math."):
                    bad.append((node, f"`{short(node, 60)}` is outside the polynomial / max / min fragment"))
                if isinstance(node, ast.Call) and dotted(node.func) == "float" and node.args and isinstance(node.args[0], ast.Constant) and str(node.args[0].value).lower() in ("inf", "-inf", "nan"):
                    bad.append((node, f"`{short(node)}` enters a coordinate computation"))
                if isinstance(node, ast.Call) and dotted(node.func) in ("max", "min") and len(node.args) == 1 and not any(k.arg == "default" for k in node.keywords):
                    arg = node.args[0]
                    if isinstance(arg, (ast.GeneratorExp, ast.ListComp, ast.SetComp)):
                        it = arg.generators[0].iter
                        base = it
                        while isinstance(base, ast.Call) and isinstance(base.func, ast.Attribute) and base.func.attr in ("values", "keys", "items"):
                            base = base.func.value
                        key = ast.dump(base)
                        guarded = any(pol and ast.dump(g) == key for g, pol in guards(fn, node))
                        if not guarded:
                            bad.append((node, f"`{short(node, 70)}` takes the {dotted(node.func)} of `{short(it, 40)}`, which may be empty here (no `default=`, no enclosing `if {short(base, 30)}:`)"))
            n += 1
            construct = f"{modname}:{qual}/finite"
            if bad:
                for node, why in bad:
                    res.fail(construct, why, mod, node)
            else:
                res.ok(construct, "polynomial / max / min of sizes and parameters", nontrivial=_mentions_geometry(fn))
    if n < 20:
        raise AnalysisError(f"FINITE-ARITH: only {n} functions inspected")
    return res


RULES = {"FINITE-ARITH": finite_arith, "SIGMA-INVARIANCE": sigma_invariance, "SIGMA-CLOSURE": sigma_closure, "SIGMA-DRAW": sigma_draw}
