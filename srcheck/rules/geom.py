"""Orientation symmetry of the layout (C14): SIGMA-INVARIANCE and SIGMA-CLOSURE."""
from __future__ import annotations

import ast
from typing import List

from ..core import AnalysisError, FuncNode, Program, RuleResult, dotted, short, walk_no_nested
from ..resolve import own_fields
from ..sigma import (
    SWAP_METHOD,
    canon_block,
    canon_stmt,
    first_difference,
    is_orientation_test,
    sigma,
)

LAYOUT = "render.layout"
GEOM = "utils.geometry"


def sigma_invariance(prog: Program) -> RuleResult:
    res = RuleResult(
        "SIGMA-INVARIANCE",
        "render/layout.py is invariant under the transposition sigma (x<->y, w<->h, top<->left, bottom<->right, "
        "VERTICAL<->HORIZONTAL, ...): the two arms of every orientation switch are sigma-images of each other and "
        "every orientation-independent statement is its own image - so the horizontal layout is the transposed "
        "vertical layout of the transposed sizes",
    )
    mod = prog.module(LAYOUT)
    n_pairs = 0
    n_funcs = 0
    for qual, fn in prog.defs(LAYOUT).items():
        if not isinstance(fn, FuncNode) or "." in qual:
            continue
        n_funcs += 1
        pair_idx = 0
        for node in ast.walk(fn):
            if isinstance(node, ast.If) and is_orientation_test(node.test) is not None:
                pair_idx += 1
                n_pairs += 1
                kind = is_orientation_test(node.test)
                vert, horiz = (node.body, node.orelse) if kind == "VERTICAL" else (node.orelse, node.body)
                construct = f"{LAYOUT}:{qual}/orientation-switch#{pair_idx}"
                if not vert or not horiz:
                    res.fail(construct, "one orientation has no code at this switch", mod, node)
                    continue
                image = [sigma(s) for s in horiz]
                a = canon_block(vert)
                b = canon_block(image)
                if a == b:
                    res.ok(construct, f"{len(vert)} statement(s): horizontal arm = sigma(vertical arm)")
                else:
                    x, y = first_difference(a, b)
                    res.fail(
                        construct,
                        "the horizontal arm is not the transposed vertical arm: vertical has "
                        f"`{x[:160]}` where the transposed horizontal arm has `{y[:160]}`",
                        mod,
                        node,
                        vertical=a,
                        transposed_horizontal=b,
                    )
        construct = f"{LAYOUT}:{qual}/orientation-independent-part"
        a = canon_block(fn.body, orient_placeholder=True)
        b = canon_block(sigma(fn).body, orient_placeholder=True)  # type: ignore[attr-defined]
        if a == b:
            res.ok(construct, "invariant under sigma", nontrivial=pair_idx > 0 or _mentions_geometry(fn))
        else:
            x, y = first_difference(a, b)
            res.fail(
                construct,
                f"a statement outside the orientation switches is not symmetric: `{x[:200]}` transposes to `{y[:200]}`",
                mod,
                fn,
            )
    if n_pairs < 10 or n_funcs < 5:
        raise AnalysisError(f"SIGMA-INVARIANCE: only {n_pairs} orientation switches in {n_funcs} functions recognised")
    return res


def _mentions_geometry(fn: ast.AST) -> bool:
    return any(isinstance(n, ast.Attribute) and n.attr in ("x", "y", "w", "h") for n in ast.walk(fn))


def sigma_closure(prog: Program) -> RuleResult:
    res = RuleResult(
        "SIGMA-CLOSURE",
        "the geometry primitives are closed under sigma: transposing the body of a method gives the body of the "
        "transposed method (top<->left, top_right<->bottom_left, meet_hv<->meet_vh, the others fixed), and the "
        "field orders are (x, y), (w, h), (x, y, w, h)",
    )
    mod = prog.module(GEOM)
    expected_fields = {"Position": ["x", "y"], "Size": ["w", "h"], "Rect": ["x", "y", "w", "h"]}
    for cname, want in expected_fields.items():
        cls = prog.cls(GEOM, cname)
        got = own_fields(cls)
        construct = f"{GEOM}:{cname}/fields"
        if got == want:
            res.ok(construct, f"{got}")
        else:
            res.fail(construct, f"fields are {got}, positional construction everywhere assumes {want}", mod, cls)
    for cname in ("Position", "Rect"):
        cls = prog.cls(GEOM, cname)
        methods = {s.name: s for s in cls.body if isinstance(s, FuncNode)}
        for name, fn in methods.items():
            if name in ("__str__", "__format__", "__repr__"):
                continue
            image_name = SWAP_METHOD.get(name, name)
            construct = f"{GEOM}:{cname}.{name}"
            if image_name not in methods:
                res.fail(construct, f"the transposed method `{image_name}` does not exist", mod, fn)
                continue
            vec = [a.arg for a in fn.args.args if a.annotation is not None and dotted(a.annotation) == "tuple"]
            a = canon_block([sigma(s, vec) for s in fn.body])
            b = canon_block(methods[image_name].body)
            if a == b:
                res.ok(construct, f"sigma({name}) = {image_name}")
            else:
                x, y = first_difference(a, b)
                res.fail(
                    construct,
                    f"transposing `{name}` gives `{x[:160]}` but `{image_name}` is `{y[:160]}`",
                    mod,
                    fn,
                )
    res.floor(18)
    return res



TIKZ = "render.tikz"


def _used_after(fn: ast.AST, switch: ast.If, name: str) -> bool:
    """Is `name` read after the switch (in a later statement of an enclosing block or a later loop iteration)?"""
    inside = {id(n) for n in ast.walk(switch)}
    for node in ast.walk(fn):
        if isinstance(node, ast.Name) and node.id == name and isinstance(node.ctx, ast.Load) and id(node) not in inside:
            if getattr(node, "lineno", 0) >= getattr(switch, "end_lineno", 0):
                return True
    return False


def sigma_draw(prog: Program) -> RuleResult:
    from ..geomsym import GeoEval, arm_values, is_geometric, sigma_value

    res = RuleResult(
        "SIGMA-DRAW",
        "in render/tikz.py, wherever the two orientations compute points, rectangles or TikZ path operators by "
        "straight-line code, the values left in the variables that are used afterwards are sigma-images of each "
        "other (components exchanged, x<->y and w<->h of every base rectangle / point renamed, `|-`<->`-|`): the "
        "horizontal drawing places every fork corner, leaf outline, leaf marker and loss marker where the "
        "transposed vertical drawing places it. Points are reduced to polynomials through the method bodies of "
        "utils/geometry.py, so helper points that differ only in a coordinate nobody reads do not matter.",
    )
    mod = prog.module(TIKZ)
    compared = 0
    skipped = []
    for qual, fn in prog.defs(TIKZ).items():
        if not isinstance(fn, FuncNode) or "." in qual:
            continue
        ge = GeoEval(prog, fn)
        idx = 0
        for node in ast.walk(fn):
            if not (isinstance(node, ast.If) and is_orientation_test(node.test) is not None):
                continue
            idx += 1
            kind = is_orientation_test(node.test)
            vert, horiz = (node.body, node.orelse) if kind == "VERTICAL" else (node.orelse, node.body)
            v = arm_values(ge, vert)
            h = arm_values(ge, horiz)
            base = f"{TIKZ}:{qual}/orientation-switch#{idx}"
            if v is None or h is None:
                skipped.append(base)
                continue
            live = sorted(n for n in set(v) | set(h) if _used_after(fn, node, n))
            geo = [n for n in live if n in v and n in h and is_geometric(v[n]) and is_geometric(h[n])]
            if not geo:
                skipped.append(base)
                continue
            for name in geo:
                compared += 1
                construct = f"{base}/{name}"
                image = sigma_value(h[name])
                if image == v[name]:
                    res.ok(construct, f"vertical {v[name]} = sigma(horizontal)")
                else:
                    res.fail(
                        construct,
                        f"`{name}`: the vertical arm gives {v[name]} but the transposed horizontal arm gives {image} "
                        f"(horizontal arm: {h[name]}): in one orientation this element is drawn somewhere else",
                        mod,
                        node,
                    )
            for name in live:
                if (name in v) != (name in h):
                    res.fail(f"{base}/{name}", f"`{name}` is used afterwards but only one orientation assigns it", mod, node)
    if compared < 6:
        raise AnalysisError(f"SIGMA-DRAW: only {compared} geometric values compared in render/tikz.py (skipped: {skipped})")
    res.ok(f"{TIKZ}:non-geometric-switches", f"{len(skipped)} orientation switches hold text styles or nested conditions and are not compared: {[s.split(':')[1] for s in skipped]}", nontrivial=False)
    return res


def finite_arith(prog: Program) -> RuleResult:
    from ..flow import guards

    res = RuleResult(
        "FINITE-ARITH",
        "every coordinate of a layout is built from the measured node sizes and the drawing parameters with "
        "+, -, *, division by a non-zero constant, and max/min over non-empty collections only: no division by a "
        "variable, no inf / nan / math function, no max()/min() of an iterable that can be empty (each is guarded by "
        "the truth of the collection it iterates or has a default) - so finite positive sizes give finite "
        "coordinates and the layout cannot fail on an empty species",
    )
    n = 0
    for modname in (LAYOUT, GEOM):
        mod = prog.module(modname)
        for qual, fn in prog.defs(modname).items():
            if not isinstance(fn, FuncNode):
                continue
            if "." in qual and modname == LAYOUT:
                continue
            bad = []
            for node in walk_no_nested(fn):
                if isinstance(node, ast.BinOp) and isinstance(node.op, (ast.Div, ast.FloorDiv, ast.Mod)):
                    r = node.right
                    if not (isinstance(r, ast.Constant) and isinstance(r.value, (int, float)) and r.value != 0):
                        bad.append((node, f"`{short(node, 60)}` divides by `{short(r)}`, which is not a non-zero constant"))
                if isinstance(node, ast.BinOp) and isinstance(node.op, ast.Pow):
                    bad.append((node, f"`{short(node, 60)}` uses a power"))
                if isinstance(node, ast.Name) and node.id in ("inf", "nan"):
                    bad.append((node, f"`{node.id}` enters a coordinate computation"))
                if isinstance(node, ast.Call) and (dotted(node.func) or "").startswith("math."):
                    bad.append((node, f"`{short(node, 60)}` is outside the polynomial / max / min fragment"))
                if isinstance(node, ast.Call) and dotted(node.func) == "float" and node.args and isinstance(node.args[0], ast.Constant) and str(node.args[0].value).lower() in ("inf", "-inf", "nan"):
                    bad.append((node, f"`{short(node)}` enters a coordinate computation"))
                if isinstance(node, ast.Call) and dotted(node.func) in ("max", "min") and len(node.args) == 1 and not any(k.arg == "default" for k in node.keywords):
                    arg = node.args[0]
                    if isinstance(arg, (ast.GeneratorExp, ast.ListComp, ast.SetComp)):
                        it = arg.generators[0].iter
                        base = it
                        while isinstance(base, ast.Call) and isinstance(base.func, ast.Attribute) and base.func.attr in ("values", "keys", "items"):
                            base = base.func.value
                        key = ast.dump(base)
                        guarded = any(pol and ast.dump(g) == key for g, pol in guards(fn, node))
                        if not guarded:
                            bad.append((node, f"`{short(node, 70)}` takes the {dotted(node.func)} of `{short(it, 40)}`, which may be empty here (no `default=`, no enclosing `if {short(base, 30)}:`)"))
            n += 1
            construct = f"{modname}:{qual}/finite"
            if bad:
                for node, why in bad:
                    res.fail(construct, why, mod, node)
            else:
                res.ok(construct, "polynomial / max / min of sizes and parameters", nontrivial=_mentions_geometry(fn))
    if n < 20:
        raise AnalysisError(f"FINITE-ARITH: only {n} functions inspected")
    return res


RULES = {"FINITE-ARITH": finite_arith, "SIGMA-INVARIANCE": sigma_invariance, "SIGMA-CLOSURE": sigma_closure, "SIGMA-DRAW": sigma_draw}


# ---------------------------------------------------------------------------
# SUBTREE-BOX: sibling boxes are disjoint, inside their parent, below its trunk (symbolic lemma)


class _NeedDecision(Exception):
    def __init__(self, key: str, test: ast.AST):
        self.key = key
        self.test = test


def subtree_box(prog: Program) -> RuleResult:
    """the lemma under every combination of the tests of the ancestral branch that are not orientation switches
    (`if keep_apart: spacing = max(spacing, minimum)`): each combination is a case of its own"""
    cases: List[dict] = [{}]
    done: List[RuleResult] = []
    while cases:
        decisions = cases.pop()
        try:
            done.append(_subtree_box_case(prog, decisions))
        except _NeedDecision as need:
            if len(decisions) >= 4:
                raise AnalysisError(f"SUBTREE-BOX: too many case distinctions in the ancestral branch (`{short(need.test)}`)")
            cases.append({**decisions, need.key: (True, need.test)})
            cases.append({**decisions, need.key: (False, need.test)})
    res = done[0]
    for other in done[1:]:
        res.obligations.extend(other.obligations)
        res.findings.extend(other.findings)
    return res


def _subtree_box_case(prog: Program, decisions: dict) -> RuleResult:
    import re
    from fractions import Fraction

    from ..linineq import Ctx
    from ..sigma import is_orientation_test
    from ..sym import Poly

    res = RuleResult(
        "SUBTREE-BOX",
        "box lemma of _layout_subtrees, proved symbolically from the VERTICAL arm (the HORIZONTAL arm is its "
        "transposition, SIGMA-INVARIANCE): with the box of child j = (offset stored for it, its size) as the "
        "positioning loop pairs them, for all non-negative child sizes, trunk sizes, fork thickness and spacing "
        "parameters the two sibling boxes do not overlap along the across axis, both lie inside the parent's box, "
        "and both start below the parent's trunk.  Each inequality is PROVED (max(a, b) >= a, sums of non-negative "
        "terms) or REFUTED by a concrete non-negative assignment; neither is an analysis error",
    )
    modname = "render.layout"
    mod = prog.module(modname)
    fn = prog.func(modname, "_layout_subtrees")
    # ---- locate the size loop, its ancestral branch, and the positioning loop
    loops = [st for st in fn.body if isinstance(st, ast.For)]
    if len(loops) != 2:
        raise AnalysisError("_layout_subtrees: expected a size loop and a positioning loop")
    size_loop, pos_loop = loops
    sp = dotted(size_loop.target)
    anc = None
    for st in ast.walk(size_loop):
        if isinstance(st, ast.If) and isinstance(st.test, ast.Call) and isinstance(st.test.func, ast.Attribute) and st.test.func.attr == "is_leaf" and dotted(st.test.func.value) == sp:
            anc = st.orelse
    if not anc:
        raise AnalysisError("_layout_subtrees: ancestral branch (`else` of `is_leaf()`) not found")
    state_name = None
    for st in size_loop.body:
        if isinstance(st, ast.Assign) and isinstance(st.value, ast.Subscript) and dotted(st.value.slice) == sp and isinstance(st.targets[0], ast.Name):
            state_name = st.targets[0].id
    if state_name is None:
        raise AnalysisError("_layout_subtrees: `state = layout_state[species]` not found")

    ctx_holder: List[Ctx] = []
    child_vars: List[str] = []
    info_vars: dict = {}

    def canon(text: str) -> str:
        for name, k in info_vars.items():
            text = re.sub(rf"\b{re.escape(name)}\b", f"child{k}", text)
        return text

    nonneg_names: set = set()

    param_names = [a.arg for a in fn.args.args if a.annotation is not None and "DrawParams" in ast.unparse(a.annotation)] or ["params"]

    def is_nonneg(key: str) -> bool:
        if any(key.startswith(pn + ".") for pn in param_names):
            return True
        if re.fullmatch(r"child[01]\['size'\]\.[wh]", key):
            return True
        if re.fullmatch(r"child[01]\['[a-z_]+'\]\.[xywh]", key):
            return True  # position and size of a rectangle stored for a child (its trunk), in the child's own box
        return key in nonneg_names

    ctx = Ctx(is_nonneg)
    opaque: set = set()
    # points of a rectangle, read from utils/geometry.py itself: method -> (x expression, y expression) over self
    rect_methods: dict = {}
    for m in prog.cls("utils.geometry", "Rect").body:
        if isinstance(m, ast.FunctionDef) and len(m.args.args) == 1:
            rets = [r for r in ast.walk(m) if isinstance(r, ast.Return)]
            if len(rets) == 1 and isinstance(rets[0].value, ast.Call) and dotted(rets[0].value.func) == "Position" and len(rets[0].value.args) == 2:
                rect_methods[m.name] = tuple(rets[0].value.args)
    child_rect_keys: set = set()

    def ev(expr: ast.AST, env: dict):
        if isinstance(expr, ast.Constant) and isinstance(expr.value, (int, float)) and not isinstance(expr.value, bool):
            return Poly.const(Fraction(expr.value).limit_denominator(10**6))
        if isinstance(expr, ast.Name):
            if expr.id in env:
                return env[expr.id]
            # a local bound once, at the top of the function, to a drawing parameter (`pad = params.level_spacing`)
            binds = [st for st in fn.body if isinstance(st, ast.Assign) and len(st.targets) == 1 and dotted(st.targets[0]) == expr.id]
            stores = [x for x in ast.walk(fn) if isinstance(x, ast.Name) and x.id == expr.id and isinstance(x.ctx, ast.Store)]
            if len(binds) == 1 and len(stores) == 1 and isinstance(binds[0].value, ast.Attribute) and dotted(binds[0].value.value) in param_names:
                return Poly.atom(canon(ast.unparse(binds[0].value)))
            return Poly.atom(expr.id)
        if isinstance(expr, ast.UnaryOp) and isinstance(expr.op, ast.USub):
            v = ev(expr.operand, env)
            if isinstance(v, Poly):
                return -v
        if isinstance(expr, ast.BinOp):
            a, b = ev(expr.left, env), ev(expr.right, env)
            if isinstance(a, Poly) and isinstance(b, Poly):
                if isinstance(expr.op, ast.Add):
                    return a + b
                if isinstance(expr.op, ast.Sub):
                    return a - b
                if isinstance(expr.op, ast.Mult):
                    return a * b
                if isinstance(expr.op, ast.Div) and b.is_const() and b.const_value() != 0:
                    return a.scale(1 / b.const_value())
            raise AnalysisError(f"SUBTREE-BOX: arithmetic `{short(expr)}` not understood")
        if isinstance(expr, ast.Call):
            name = dotted(expr.func)
            if name in ("max", "min") and expr.args and not expr.keywords:
                args = [ev(a, env) for a in expr.args]
                if all(isinstance(a, Poly) for a in args):
                    return ctx.extremum(name, args)
            if name in ("Position", "Size") and len(expr.args) == 2 and not expr.keywords:
                a, b = ev(expr.args[0], env), ev(expr.args[1], env)
                if isinstance(a, Poly) and isinstance(b, Poly):
                    return ("vec", a, b)
            if isinstance(expr.func, ast.Attribute) and expr.func.attr in rect_methods and not expr.args and not expr.keywords:
                base = ev(expr.func.value, env)
                if isinstance(base, tuple) and base[0] == "rect":
                    senv = {"self.x": base[1][1], "self.y": base[1][2], "self.w": base[2][1], "self.h": base[2][2]}

                    def sub(e: ast.AST):
                        if isinstance(e, ast.Attribute) and dotted(e) in senv:
                            return senv[dotted(e)]
                        if isinstance(e, ast.Constant) and isinstance(e.value, (int, float)):
                            return Poly.const(Fraction(e.value).limit_denominator(10**6))
                        if isinstance(e, ast.BinOp) and isinstance(e.op, (ast.Add, ast.Sub)):
                            a_, b_ = sub(e.left), sub(e.right)
                            return a_ + b_ if isinstance(e.op, ast.Add) else a_ - b_
                        if isinstance(e, ast.BinOp) and isinstance(e.op, ast.Div) and isinstance(e.right, ast.Constant) and e.right.value:
                            return sub(e.left).scale(Fraction(1) / Fraction(e.right.value))
                        raise AnalysisError(f"SUBTREE-BOX: Rect.{expr.func.attr} is not a sum of the rectangle's fields")

                    xe, ye = rect_methods[expr.func.attr]
                    return ("vec", sub(xe), sub(ye))
            if name and name.endswith("make_from"):
                pos = ev(expr.args[0] if expr.args else next(k.value for k in expr.keywords if k.arg == "position"), env)
                size = ev(expr.args[1] if len(expr.args) > 1 else next(k.value for k in expr.keywords if k.arg == "size"), env)
                return ("rect", pos, size)
            # a call the lemma does not interpret: a quantity of unknown sign and value, never a free unknown
            opaque.add(canon(ast.unparse(expr)))
            return Poly.atom(canon(ast.unparse(expr)))
        if isinstance(expr, ast.Attribute):
            if expr.attr in ("x", "y", "w", "h"):
                base = ev(expr.value, env)
                if isinstance(base, tuple) and base[0] == "vec":
                    return base[1] if expr.attr in ("x", "w") else base[2]
            return Poly.atom(canon(ast.unparse(expr)))
        if isinstance(expr, ast.Subscript):
            base = expr.value
            if (
                isinstance(base, ast.Call) and dotted(base.func) == "sorted" and len(base.args) == 1 and not base.keywords
                and isinstance(base.args[0], (ast.Tuple, ast.List)) and base.args[0].elts
                and isinstance(expr.slice, (ast.Constant, ast.UnaryOp))
            ):
                idx = ast.literal_eval(expr.slice) if not isinstance(expr.slice, ast.Constant) or isinstance(expr.slice.value, int) else None
                if idx in (0, -1):
                    args = [ev(a, env) for a in base.args[0].elts]
                    if all(isinstance(a, Poly) for a in args):
                        return ctx.extremum("min" if idx == 0 else "max", args)
            if any(isinstance(x, ast.Call) for x in ast.walk(expr)):
                opaque.add(canon(ast.unparse(expr)))
            if isinstance(base, ast.Name) and base.id in info_vars and isinstance(expr.slice, ast.Constant) and expr.slice.value == size_key:
                k = info_vars[base.id]
                return ("vec", Poly.atom(f"child{k}['size'].w"), Poly.atom(f"child{k}['size'].h"))
            if isinstance(base, ast.Name) and base.id in info_vars and isinstance(expr.slice, ast.Constant) and isinstance(expr.slice.value, str) and re.fullmatch(r"[a-z_]+", expr.slice.value):
                # a rectangle the child stored for itself (checked below to be the trunk key)
                k, key_ = info_vars[base.id], expr.slice.value
                child_rect_keys.add(key_)
                at = lambda f: Poly.atom(f"child{k}['{key_}'].{f}")  # noqa: E731
                return ("rect", ("vec", at("x"), at("y")), ("vec", at("w"), at("h")))
            return Poly.atom(canon(ast.unparse(expr)))
        raise AnalysisError(f"SUBTREE-BOX: expression `{short(expr)}` not understood")

    # ---- pairing in the positioning loop
    pchild: List[str] = []
    size_keys: set = set()
    pairs: dict = {}
    for st in ast.walk(pos_loop):
        if isinstance(st, ast.Assign) and isinstance(st.targets[0], ast.Tuple) and isinstance(st.value, ast.Attribute) and st.value.attr == "children":
            pchild = [dotted(e) for e in st.targets[0].elts]
    for st in ast.walk(pos_loop):
        if isinstance(st, ast.Assign) and isinstance(st.targets[0], ast.Subscript) and isinstance(st.targets[0].slice, ast.Constant):
            who = st.targets[0].value
            if isinstance(who, ast.Subscript) and dotted(who.slice) in pchild and isinstance(st.value, ast.Call) and (dotted(st.value.func) or "").endswith("make_from"):
                j = pchild.index(dotted(who.slice))
                call = st.value
                posarg = call.args[0] if call.args else next((k.value for k in call.keywords if k.arg == "position"), None)
                sizearg = call.args[1] if len(call.args) > 1 else next((k.value for k in call.keywords if k.arg == "size"), None)
                keys = [n.slice.value for n in ast.walk(posarg) if isinstance(n, ast.Subscript) and isinstance(n.slice, ast.Constant) and isinstance(n.slice.value, str)] if posarg is not None else []
                size_of = [dotted(n.slice) for n in ast.walk(sizearg) if isinstance(n, ast.Subscript) and dotted(n.slice) in pchild] if sizearg is not None else []
                if isinstance(sizearg, ast.Subscript) and isinstance(sizearg.slice, ast.Constant):
                    size_keys.add(sizearg.slice.value)
                keys = [k_ for k_ in keys if k_ not in size_keys]
                if len(keys) != 1 or len(size_of) != 1:
                    raise AnalysisError(f"SUBTREE-BOX: positioning `{short(st, 80)}` not understood")
                pairs[j] = (keys[0], pchild.index(size_of[0]), st)
    if set(pairs) != {0, 1}:
        raise AnalysisError("SUBTREE-BOX: the positioning loop does not place both children")
    if len(size_keys) != 1:
        raise AnalysisError("SUBTREE-BOX: the key under which subtree sizes are stored is not recognised")
    size_key = next(iter(size_keys))
    stores: dict = {}
    env: dict = {}

    def run(stmts):
        for st in stmts:
            if isinstance(st, ast.Expr) and isinstance(st.value, ast.Constant):
                continue
            if isinstance(st, ast.If):
                kind = is_orientation_test(st.test)
                if kind is None:
                    key_ = ast.dump(st.test)
                    if key_ not in decisions:
                        raise _NeedDecision(key_, st.test)
                    run(st.body if decisions[key_][0] else st.orelse)
                    continue
                run(st.body if kind == "VERTICAL" else st.orelse)
                continue
            if isinstance(st, ast.Assign) and len(st.targets) == 1:
                tgt = st.targets[0]
                if isinstance(tgt, ast.Tuple) and isinstance(st.value, ast.Attribute) and st.value.attr == "children" and len(tgt.elts) == 2:
                    child_vars[:] = [dotted(e) for e in tgt.elts]
                    continue
                if isinstance(tgt, ast.Name) and isinstance(st.value, ast.Subscript) and dotted(st.value.slice) in child_vars and not isinstance(st.value.value, ast.Subscript):
                    info_vars[tgt.id] = child_vars.index(dotted(st.value.slice))
                    continue
                if isinstance(tgt, ast.Name):
                    env[tgt.id] = ev(st.value, env)
                    continue
                if isinstance(tgt, ast.Subscript) and dotted(tgt.value) == state_name and isinstance(tgt.slice, ast.Constant):
                    stores[tgt.slice.value] = (ev(st.value, env), st)
                    continue
            if isinstance(st, ast.AugAssign) and isinstance(st.target, ast.Name) and isinstance(st.op, (ast.Add, ast.Sub)):
                cur = env.get(st.target.id, Poly.atom(st.target.id))
                val = ev(st.value, env)
                if isinstance(cur, Poly) and isinstance(val, Poly):
                    env[st.target.id] = cur + val if isinstance(st.op, ast.Add) else cur - val
                    continue
            raise AnalysisError(f"SUBTREE-BOX: statement `{short(st, 70)}` in the ancestral branch not understood")

    # names assumed non-negative: the components of the trunk size and the fork thickness (computed before the branch)
    for st in ast.walk(size_loop):
        if isinstance(st, ast.Assign) and isinstance(st.value, ast.Call) and dotted(st.value.func) == "Size" and isinstance(st.targets[0], ast.Name):
            if all(isinstance(a, ast.Name) for a in st.value.args):
                trunk_size_name = st.targets[0].id
                if any(isinstance(u, ast.Call) and (dotted(u.func) or "").endswith("make_from") and any(dotted(a) == trunk_size_name for a in list(u.args) + [k.value for k in u.keywords]) for u in ast.walk(size_loop)):
                    nonneg_names.update(a.id for a in st.value.args)
                    env[trunk_size_name] = ("vec", Poly.atom(st.value.args[0].id), Poly.atom(st.value.args[1].id))
    run(anc)
    for key, (_val, st_) in stores.items():
        if isinstance(st_.value, ast.Name):
            nonneg_names.add(st_.value.id)  # a scalar stored as it is (the fork thickness)
    trunk_keys = [k for k, (v, _s) in stores.items() if isinstance(v, tuple) and v[0] == "rect"]
    if size_key not in stores or len(trunk_keys) != 1:
        raise AnalysisError("SUBTREE-BOX: the ancestral branch does not store the subtree size and the trunk")
    size_v = stores[size_key][0]
    trunk_v = stores[trunk_keys[0]][0]
    if not (isinstance(size_v, tuple) and size_v[0] == "vec" and isinstance(trunk_v, tuple) and trunk_v[0] == "rect"):
        raise AnalysisError("SUBTREE-BOX: stored size / trunk not recognised")
    trunk_pos, trunk_size = trunk_v[1], trunk_v[2]
    boxes = {}
    for j, (key, size_child, st) in pairs.items():
        if key not in stores:
            raise AnalysisError(f"SUBTREE-BOX: offset `{key}` used by the positioning loop is not stored by the size loop")
        off = stores[key][0]
        if not (isinstance(off, tuple) and off[0] == "vec"):
            raise AnalysisError(f"SUBTREE-BOX: offset `{key}` is not a Position")
        boxes[j] = (off, (Poly.atom(f"child{size_child}['size'].w"), Poly.atom(f"child{size_child}['size'].h")), key, size_child, st)

    def decide(label: str, alternatives, node):
        """alternatives: list of polys, the obligation holds when one of them is >= 0 for all non-negative unknowns."""
        case = "".join(f"[{'' if val else 'not '}{short(test, 30)}]" for val, test in decisions.values())
        construct = f"{modname}:_layout_subtrees/box/{label}{case}"
        if any(ctx.prove_nonneg(p) for p in alternatives):
            res.ok(construct, "proved for all non-negative sizes and spacings")
            return
        blocked = sorted({a for p in alternatives for a in ctx.free_atoms(p) if a in opaque})
        if blocked:
            raise AnalysisError(f"{construct}: `{alternatives[0]} >= 0` is not proved and contains `{blocked[0]}`, a call the lemma does not interpret - no counter-example can be built from it")
        witnesses = [ctx.refute_nonneg(p) for p in alternatives]
        if all(w is not None for w in witnesses):
            w = witnesses[0]
            shown = ", ".join(f"{k} = {v}" for k, v in sorted(w.items()) if v != 0) or "all sizes 0"
            res.fail(construct, f"refuted: with {shown} (everything else 0) the quantity `{alternatives[0]}` that must be >= 0 is negative", mod, node)
            return
        raise AnalysisError(f"{construct}: `{alternatives[0]} >= 0` is neither proved nor refuted")

    (o0, s0, k0, c0, st0), (o1, s1, k1, c1, st1) = boxes[0], boxes[1]
    decide("siblings-disjoint", [o1[1] - o0[1] - s0[0], o0[1] - o1[1] - s1[0]], st1)
    # the trunks of the two sibling species (each at its stored place inside its own box) do not overlap along
    # the across axis - also when a trunk sticks out of its box
    if child_rect_keys - {trunk_keys[0]}:
        raise AnalysisError(f"SUBTREE-BOX: the children's entries {sorted(child_rect_keys)} are read as rectangles but the trunk is stored under {trunk_keys[0]!r}")
    tk = trunk_keys[0]
    t = {j: {f: Poly.atom(f"child{boxes[j][3]}['{tk}'].{f}") for f in "xywh"} for j in (0, 1)}
    decide(
        "sibling-trunks-disjoint",
        [(o1[1] + t[1]["x"]) - (o0[1] + t[0]["x"] + t[0]["w"]), (o0[1] + t[0]["x"]) - (o1[1] + t[1]["x"] + t[1]["w"])],
        st1,
    )
    for j, (off, sz, key, _c, st) in boxes.items():
        for label, poly in (
            (f"child{j}/left-edge-inside", off[1]),
            (f"child{j}/right-edge-inside", size_v[1] - off[1] - sz[0]),
            (f"child{j}/top-edge-inside", off[2]),
            (f"child{j}/bottom-edge-inside", size_v[2] - off[2] - sz[1]),
            (f"child{j}/below-parent-trunk", off[2] - trunk_pos[2] - trunk_size[2]),
        ):
            decide(label, [poly], st)
    return res


RULES["SUBTREE-BOX"] = subtree_box
