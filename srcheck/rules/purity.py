"""Effect rules: SOLVER-STATELESS, RECURSE-FORWARD, IDENTITY-KEYS, READONLY-GRAPH."""
from __future__ import annotations

import ast
from typing import Dict, List, Optional, Sequence, Set, Tuple

from ..core import AnalysisError, FuncNode, Module, Program, RuleResult, dotted, func_params, short, walk_no_nested
from ..flow import Opaque, reaching
from ..resolve import call_graph, resolve_callee, resolve_name

MEMO_DECORATORS = {"lru_cache", "cache", "cached_property", "memoize", "memoized", "memo"}
MUTATORS = {
    "add", "update", "discard", "remove", "pop", "clear", "append", "extend", "insert", "setdefault", "popitem",
    "sort", "reverse", "difference_update", "intersection_update", "symmetric_difference_update", "popleft",
    "appendleft",
}
# classes whose instances are updated in place by design (one line of reason each)
MUTABLE_BY_DESIGN = {
    "utils.dynamic_programming:Entry": "a DP cell: update() is its purpose (C16)",
    "utils.disjoint_set:DisjointSet": "union-find: find() compresses paths, unite() links (C20)",
}
PURE_SCOPE = ("compute.", "model.", "utils.", "render.")


def _modkey(mod: Module) -> str:
    return mod.name.split(".", 1)[1] if "." in mod.name else mod.name


def _module_level_names(mod: Module) -> Dict[str, ast.AST]:
    out: Dict[str, ast.AST] = {}
    for stmt in mod.tree.body:
        if isinstance(stmt, ast.Assign):
            for tgt in stmt.targets:
                if isinstance(tgt, ast.Name):
                    out[tgt.id] = stmt.value
        elif isinstance(stmt, ast.AnnAssign) and isinstance(stmt.target, ast.Name) and stmt.value is not None:
            out[stmt.target.id] = stmt.value
    return out


def _local_names(fn: ast.AST) -> Set[str]:
    names = set(func_params(fn))
    args = fn.args  # type: ignore[attr-defined]
    if args.vararg:
        names.add(args.vararg.arg)
    if args.kwarg:
        names.add(args.kwarg.arg)
    declared_global: Set[str] = set()
    for node in walk_no_nested(fn):
        if isinstance(node, (ast.Global, ast.Nonlocal)):
            declared_global.update(node.names)
        elif isinstance(node, ast.Name) and not isinstance(node.ctx, ast.Load):
            names.add(node.id)
        elif isinstance(node, FuncNode + (ast.ClassDef,)):
            names.add(node.name)
        elif isinstance(node, ast.comprehension):
            for sub in ast.walk(node.target):
                if isinstance(sub, ast.Name):
                    names.add(sub.id)
    return names - declared_global


def _is_mutable_literal(node: Optional[ast.AST]) -> bool:
    if isinstance(node, (ast.Dict, ast.List, ast.Set, ast.DictComp, ast.ListComp, ast.SetComp)):
        return True
    if isinstance(node, ast.Call) and dotted(node.func) in ("dict", "list", "set", "defaultdict", "collections.defaultdict", "OrderedDict", "deque"):
        return True
    return False


def _root_name(node: ast.AST) -> Optional[str]:
    while isinstance(node, (ast.Subscript, ast.Attribute)):
        node = node.value
    return node.id if isinstance(node, ast.Name) else None


def solver_stateless(prog: Program) -> RuleResult:
    res = RuleResult(
        "SOLVER-STATELESS",
        "what a solver, decoder, evaluator or utility returns is a function of its arguments as they are at the "
        "time of the call: no memoising decorator, no mutable default argument used as a memo table, no write to "
        "module-level state, no result cached on an input object. (Inputs are mutable - cost vectors are dicts "
        "updated in place, trees are relabelled - and their hash ignores the costs, so any state that survives a "
        "call makes a later call answer for an earlier input.)",
    )
    n_funcs = 0
    for mod, qual, fn in prog.functions():
        key = _modkey(mod)
        if not key.startswith(PURE_SCOPE):
            continue
        n_funcs += 1
        construct = f"{key}:{qual}"
        bad: List[Tuple[ast.AST, str]] = []
        # (a) memoising decorators
        for deco in fn.decorator_list:  # type: ignore[attr-defined]
            target = deco.func if isinstance(deco, ast.Call) else deco
            name = dotted(target) or ""
            if name.split(".")[-1] in MEMO_DECORATORS:
                bad.append((deco, f"decorator `@{short(deco)}` keeps results across calls, keyed by hash/equality of the arguments"))
        # (b) mutable default used as a table
        args = fn.args  # type: ignore[attr-defined]
        pos = args.posonlyargs + args.args
        defaults = [None] * (len(pos) - len(args.defaults)) + list(args.defaults)
        pairs = list(zip(pos, defaults)) + list(zip(args.kwonlyargs, args.kw_defaults))
        for arg, default in pairs:
            if _is_mutable_literal(default):
                if _mutated_in(fn, arg.arg):
                    bad.append((default, f"mutable default of parameter `{arg.arg}` is written in the body: it is shared by all calls"))
        # (c) module-level state
        mod_names = _module_level_names(mod)
        locals_ = _local_names(fn)
        for node in walk_no_nested(fn):
            if isinstance(node, ast.Global):
                for name in node.names:
                    if _assigned_in(fn, name):
                        bad.append((node, f"`global {name}` is assigned in the body"))
            target = None
            what = ""
            if isinstance(node, (ast.Assign, ast.AugAssign, ast.AnnAssign, ast.Delete)):
                tgts = node.targets if isinstance(node, (ast.Assign, ast.Delete)) else [node.target]
                for tgt in tgts:
                    if isinstance(tgt, (ast.Subscript, ast.Attribute)):
                        root = _root_name(tgt)
                        if root and root not in locals_ and _is_module_state(prog, mod, root, mod_names):
                            bad.append((node, f"`{short(node, 70)}` writes into module-level object `{root}`"))
            elif isinstance(node, ast.Call) and isinstance(node.func, ast.Attribute) and node.func.attr in MUTATORS:
                root = _root_name(node.func.value)
                if root and root not in locals_ and _is_module_state(prog, mod, root, mod_names):
                    bad.append((node, f"`{short(node, 70)}` mutates module-level object `{root}`"))
            del target, what
        # (c') a local bound to the result of a package function that hands out a module-level object
        shared_locals: Dict[str, str] = {}
        for node in walk_no_nested(fn):
            if isinstance(node, ast.Assign) and len(node.targets) == 1 and isinstance(node.targets[0], ast.Name) and isinstance(node.value, ast.Call):
                src = _returns_module_state(prog, mod, node.value)
                if src:
                    shared_locals[node.targets[0].id] = src
        if shared_locals:
            for node in walk_no_nested(fn):
                hit = None
                if isinstance(node, (ast.Assign, ast.AugAssign, ast.Delete)):
                    tgts = node.targets if isinstance(node, (ast.Assign, ast.Delete)) else [node.target]
                    for tgt in tgts:
                        if isinstance(tgt, ast.Subscript) and _root_name(tgt) in shared_locals:
                            hit = _root_name(tgt)
                elif isinstance(node, ast.Call) and isinstance(node.func, ast.Attribute) and node.func.attr in MUTATORS:
                    if _root_name(node.func.value) in shared_locals:
                        hit = _root_name(node.func.value)
                if hit:
                    bad.append((node, f"`{short(node, 70)}` writes into `{hit}`, which is the module-level object `{shared_locals[hit]}` handed out by a function (every later caller sees the change)"))
        # (e) shallow copy of a module-level container whose values are themselves mutable, then written through
        for node in walk_no_nested(fn):
            if not (isinstance(node, (ast.Assign, ast.AnnAssign)) and node.value is not None):
                continue
            tgt = node.targets[0] if isinstance(node, ast.Assign) and len(node.targets) == 1 else getattr(node, "target", None)
            if not isinstance(tgt, ast.Name):
                continue
            src = _shallow_copy_of(node.value)
            if src is None or src in locals_ or not _is_module_state(prog, mod, src, mod_names):
                continue
            literal = mod_names.get(src)
            if literal is None or not _has_nested_mutable(literal):
                continue
            if _written_through(prog, mod, fn, tgt.id, depth=2):
                bad.append((node, f"`{short(node, 70)}` is a shallow copy of module-level `{src}`, whose inner containers stay shared, and is then written through: every call appends to the same lists"))
        # (d) results cached on `self` outside the constructor (classes that are mutable by design are listed)
        owner_cls = _owner_class(prog, mod, qual)
        if (
            owner_cls is not None
            and fn.name not in ("__init__", "__post_init__", "__new__", "__setstate__")  # type: ignore[attr-defined]
            and f"{key}:{owner_cls.name}" not in MUTABLE_BY_DESIGN
        ):
            for node in walk_no_nested(fn):
                if isinstance(node, (ast.Assign, ast.AugAssign, ast.AnnAssign)):
                    tgts = node.targets if isinstance(node, ast.Assign) else [node.target]
                    for tgt in tgts:
                        base = tgt
                        while isinstance(base, ast.Subscript):
                            base = base.value
                        if isinstance(base, ast.Attribute) and isinstance(base.value, ast.Name) and base.value.id == "self":
                            bad.append((node, f"`{short(node, 70)}` stores state on the object outside its constructor (a cached result outlives later changes of what it was computed from)"))
                elif isinstance(node, ast.Call):
                    name = dotted(node.func) or ""
                    if name.endswith("__setattr__") or name == "setattr":
                        if node.args and isinstance(node.args[0], ast.Name) and node.args[0].id == "self":
                            bad.append((node, f"`{short(node, 70)}` stores state on a (frozen) object outside its constructor"))
        # (f) a mutable class attribute written through `self` is shared by all instances
        if owner_cls is not None:
            shared = {}
            for st in owner_cls.body:
                tgt = None
                if isinstance(st, ast.Assign) and len(st.targets) == 1 and isinstance(st.targets[0], ast.Name):
                    tgt, val = st.targets[0].id, st.value
                elif isinstance(st, ast.AnnAssign) and isinstance(st.target, ast.Name) and st.value is not None:
                    tgt, val = st.target.id, st.value
                if tgt and _is_mutable_literal(val):
                    shared[tgt] = st
            rebound = set()
            init = next((m for m in owner_cls.body if isinstance(m, FuncNode) and m.name in ("__init__", "__post_init__")), None)
            if init is not None:
                for node in walk_no_nested(init):
                    if isinstance(node, (ast.Assign, ast.AnnAssign)):
                        tgts = node.targets if isinstance(node, ast.Assign) else [node.target]
                        for t in tgts:
                            if isinstance(t, ast.Attribute) and isinstance(t.value, ast.Name) and t.value.id == "self":
                                rebound.add(t.attr)
            for attr, st in shared.items():
                if attr in rebound:
                    continue
                for node in walk_no_nested(fn):
                    hit = False
                    if isinstance(node, (ast.Assign, ast.AugAssign)):
                        tgts = node.targets if isinstance(node, ast.Assign) else [node.target]
                        for t in tgts:
                            if isinstance(t, ast.Subscript) and dotted(t.value) == f"self.{attr}":
                                hit = True
                    elif isinstance(node, ast.Call) and isinstance(node.func, ast.Attribute) and node.func.attr in MUTATORS:
                        if dotted(node.func.value) == f"self.{attr}":
                            hit = True
                    if hit:
                        bad.append((node, f"`{short(node, 60)}` writes into `{attr}`, a mutable class attribute (`{short(st, 50)}`) that the constructor never rebinds: all instances share it"))
        if bad:
            for node, why in bad:
                res.fail(construct, why, mod, node)
        else:
            res.ok(construct, "no state survives a call", nontrivial=bool(fn.body))  # type: ignore[attr-defined]
    if n_funcs < 100:
        raise AnalysisError(f"SOLVER-STATELESS: only {n_funcs} functions found under compute/, model/, utils/")
    return res


def _returns_module_state(prog: Program, mod: Module, call: ast.Call) -> Optional[str]:
    """Name of the module-level mutable object a package function returns as is (`return DEFAULT`), if any."""
    target = resolve_callee(prog, mod, call.func)
    if target is None or not isinstance(target[1], FuncNode):
        return None
    tmod, tfn = target
    names = _module_level_names(tmod)
    for ret in walk_no_nested(tfn):
        if isinstance(ret, ast.Return) and isinstance(ret.value, ast.Name) and ret.value.id in names:
            if _is_mutable_literal(names[ret.value.id]) and ret.value.id not in _local_names(tfn):
                return ret.value.id
    return None


def _shallow_copy_of(value: ast.AST) -> Optional[str]:
    if isinstance(value, ast.Call):
        name = dotted(value.func) or ""
        if name in ("dict", "list", "set", "copy", "copy.copy") and len(value.args) == 1 and isinstance(value.args[0], ast.Name):
            return value.args[0].id
        if isinstance(value.func, ast.Attribute) and value.func.attr == "copy" and not value.args and isinstance(value.func.value, ast.Name):
            return value.func.value.id
    if isinstance(value, ast.Dict) and len(value.keys) == 1 and value.keys[0] is None and isinstance(value.values[0], ast.Name):
        return value.values[0].id
    if isinstance(value, ast.Name):
        return value.id  # plain alias
    return None


def _has_nested_mutable(literal: ast.AST) -> bool:
    if isinstance(literal, ast.Dict):
        return any(_is_mutable_literal(v) for v in literal.values)
    if isinstance(literal, (ast.List, ast.Set, ast.Tuple)):
        return any(_is_mutable_literal(v) for v in literal.elts)
    return False


def _written_through(prog: Program, mod: Module, fn: ast.AST, name: str, depth: int) -> bool:
    """Is an inner container of `name` mutated in `fn`, or in a package function that receives `name`?"""
    for node in ast.walk(fn):
        if isinstance(node, ast.Call) and isinstance(node.func, ast.Attribute) and node.func.attr in MUTATORS:
            recv = node.func.value
            if isinstance(recv, ast.Subscript) and _root_name(recv) == name:
                return True
        if isinstance(node, (ast.Assign, ast.AugAssign)):
            tgts = node.targets if isinstance(node, ast.Assign) else [node.target]
            for tgt in tgts:
                if isinstance(tgt, ast.Subscript) and isinstance(tgt.value, ast.Subscript) and _root_name(tgt) == name:
                    return True
                if isinstance(node, ast.AugAssign) and isinstance(tgt, ast.Subscript) and _root_name(tgt) == name:
                    return True  # x[k] += [...] extends the shared inner list
    if depth <= 0:
        return False
    for call in ast.walk(fn):
        if not isinstance(call, ast.Call):
            continue
        passed = [(i, a) for i, a in enumerate(call.args) if isinstance(a, ast.Name) and a.id == name]
        passed_kw = [k.arg for k in call.keywords if isinstance(k.value, ast.Name) and k.value.id == name and k.arg]
        if not passed and not passed_kw:
            continue
        target = resolve_callee(prog, mod, call.func)
        if target is None and isinstance(call.func, ast.Name):
            local = [n for n in ast.walk(fn) if isinstance(n, FuncNode) and n.name == call.func.id]
            target = (mod, local[0]) if local else None
        if target is None or not isinstance(target[1], FuncNode):
            continue
        params = func_params(target[1])
        names = [params[i] for i, _a in passed if i < len(params)] + [k for k in passed_kw if k in params]
        for pname in names:
            if _written_through(prog, target[0], target[1], pname, depth - 1):
                return True
    return False


def _owner_class(prog: Program, mod: Module, qual: str) -> Optional[ast.ClassDef]:
    if "." not in qual:
        return None
    owner = prog.defs(mod.name).get(qual.rsplit(".", 1)[0])
    return owner if isinstance(owner, ast.ClassDef) else None


def _mutated_in(fn: ast.AST, name: str) -> bool:
    for node in ast.walk(fn):
        if isinstance(node, (ast.Assign, ast.AugAssign, ast.Delete)):
            tgts = node.targets if isinstance(node, (ast.Assign, ast.Delete)) else [node.target]
            for tgt in tgts:
                if isinstance(tgt, ast.Subscript) and _root_name(tgt) == name:
                    return True
        if isinstance(node, ast.Call) and isinstance(node.func, ast.Attribute) and node.func.attr in MUTATORS:
            if _root_name(node.func.value) == name:
                return True
    return False


def _assigned_in(fn: ast.AST, name: str) -> bool:
    for node in walk_no_nested(fn):
        if isinstance(node, ast.Name) and node.id == name and not isinstance(node.ctx, ast.Load):
            return True
    return False


def _is_module_state(prog: Program, mod: Module, name: str, mod_names: Dict[str, ast.AST]) -> bool:
    """`name` denotes a module-level object of the package (defined here or imported from a package module)."""
    if name in mod_names:
        return True
    res = resolve_name(prog, mod, name)
    if res is not None and not isinstance(res[1], FuncNode + (ast.ClassDef,)):
        return True
    from ..resolve import import_table

    imp = import_table(prog, mod).get(name)
    if imp and imp[0] in prog.modules and imp[1] is not None:
        target = prog.modules[imp[0]]
        return imp[1] in _module_level_names(target)
    return False


# ---------------------------------------------------------------------------


def recurse_forward(prog: Program) -> RuleResult:
    res = RuleResult(
        "RECURSE-FORWARD",
        "a recursive generator that takes a constraint parameter (a parameter with a default that some "
        "recursive call forwards unchanged) forwards it in every recursive call: a call that drops it lifts the "
        "constraint for the whole subtree explored from there (belief inferred from the function's own sibling "
        "calls; instances confirmed by hand: utils.trees.graft/ignore)",
    )
    found = 0
    for mod, qual, fn in prog.functions():
        key = _modkey(mod)
        if "." in qual:
            continue
        params = func_params(fn)
        args = fn.args  # type: ignore[attr-defined]
        n_def = len(args.defaults)
        defaulted = [a.arg for a in (args.posonlyargs + args.args)[len(args.posonlyargs + args.args) - n_def:]] if n_def else []
        defaulted += [a.arg for a, d in zip(args.kwonlyargs, args.kw_defaults) if d is not None]
        if not defaulted:
            continue
        rec_calls = [
            c for c in ast.walk(fn)
            if isinstance(c, ast.Call) and isinstance(c.func, ast.Name) and c.func.id == fn.name  # type: ignore[attr-defined]
        ]
        if len(rec_calls) < 1:
            continue
        for pname in defaulted:
            idx = params.index(pname)
            forwards = []
            for call in rec_calls:
                passed = None
                if len(call.args) > idx and not any(isinstance(a, ast.Starred) for a in call.args[: idx + 1]):
                    passed = call.args[idx]
                for kw in call.keywords:
                    if kw.arg == pname:
                        passed = kw.value
                    if kw.arg is None:
                        passed = kw.value  # **kwargs: cannot tell, assume forwarded
                forwards.append((call, passed))
            n_fwd = sum(1 for _c, p in forwards if p is not None)
            if n_fwd == 0:
                continue  # the parameter is not a propagated constraint
            if not _reassigned(fn, pname) or True:
                found += 1
                construct = f"{key}:{qual}/forward[{pname}]"
                dropped = [c for c, p in forwards if p is None]
                if dropped:
                    for call in dropped:
                        res.fail(
                            construct,
                            f"recursive call `{short(call, 60)}` does not pass `{pname}` although "
                            f"{n_fwd} sibling call(s) do: the constraint is lost below this call",
                            mod,
                            call,
                        )
                else:
                    res.ok(construct, f"{len(forwards)} recursive calls, all forward `{pname}`")
    res.floor(1)
    return res


def _reassigned(fn: ast.AST, name: str) -> bool:
    return any(isinstance(n, ast.Name) and n.id == name and not isinstance(n.ctx, ast.Load) for n in ast.walk(fn))


# ---------------------------------------------------------------------------


VALUE_EQ_BASES = {"NamedTuple", "tuple", "str", "int", "frozenset", "typing.NamedTuple"}


def identity_keys(prog: Program) -> RuleResult:
    res = RuleResult(
        "IDENTITY-KEYS",
        "a class whose instances are created (without arguments, or as stand-ins stored beside real tree nodes) to stand for distinct virtual nodes and are "
        "used as dictionary keys / set elements (render.model.PseudoGene: one per full loss) compares and "
        "hashes by identity: it has no value-equality base (NamedTuple, tuple, dataclass with eq) and "
        "defines neither __eq__ nor __hash__ - otherwise two losses collapse into one entry",
    )
    n = 0
    for mod, qual, node in [(m, q, d) for m in prog.modules.values() for q, d in prog.defs(m.name).items()]:
        if not isinstance(node, ast.ClassDef) or "." in qual:
            continue
        # instantiated with no arguments somewhere in the package and the instance is used as key / element
        uses = _zero_arg_instances(prog, node.name) or _standin_instances(prog, node.name)
        if not uses:
            continue
        keyed = [u for u in uses if u[2]]
        if not keyed:
            continue
        n += 1
        construct = f"{_modkey(mod)}:{node.name}/identity"
        why = []
        for base in node.bases:
            bname = dotted(base) or short(base)
            if bname in VALUE_EQ_BASES or bname.split(".")[-1] in VALUE_EQ_BASES:
                why.append(f"base `{bname}` compares by value")
        for deco in node.decorator_list:
            dname = dotted(deco.func if isinstance(deco, ast.Call) else deco) or ""
            if dname.split(".")[-1] == "dataclass":
                eq_off = isinstance(deco, ast.Call) and any(
                    kw.arg == "eq" and isinstance(kw.value, ast.Constant) and kw.value.value is False for kw in deco.keywords
                )
                if not eq_off:
                    why.append("@dataclass generates a value __eq__")
        for stmt in node.body:
            if isinstance(stmt, FuncNode) and stmt.name in ("__eq__", "__hash__"):
                why.append(f"defines {stmt.name}")
        if why:
            res.fail(
                construct,
                f"instances of {node.name} are created per virtual node ({len(uses)} sites) and used as keys "
                f"({short(keyed[0][1], 60)}), but " + "; ".join(why) + ": all instances are equal",
                mod,
                node,
            )
        else:
            res.ok(construct, f"{len(uses)} creation sites, {len(keyed)} used as key/element; identity semantics")
    res.floor(1)
    return res


def _standin_instances(prog: Program, clsname: str):
    """Instances created WITH arguments that stand in for tree nodes: bound to a local that is used as a key of a
    mapping `X[...]["k"][local]` whose sibling stores (same final key path) are keyed by a traversal loop variable."""
    out = []
    tree_keyed_paths = set()
    for mod, qual, fn in prog.functions():
        loop_vars = {
            l.target.id for l in ast.walk(fn)
            if isinstance(l, ast.For) and isinstance(l.target, ast.Name) and isinstance(l.iter, ast.Call) and isinstance(l.iter.func, ast.Attribute) and l.iter.func.attr == "traverse"
        }
        for st in ast.walk(fn):
            if isinstance(st, ast.Assign) and isinstance(st.targets[0], ast.Subscript) and isinstance(st.targets[0].slice, ast.Name) and st.targets[0].slice.id in loop_vars:
                inner = st.targets[0].value
                if isinstance(inner, ast.Subscript) and isinstance(inner.slice, ast.Constant):
                    tree_keyed_paths.add(inner.slice.value)
    for mod, qual, fn in prog.functions():
        for call in ast.walk(fn):
            if isinstance(call, ast.Call) and isinstance(call.func, ast.Name) and call.func.id == clsname and (call.args or call.keywords):
                res = resolve_name(prog, mod, clsname)
                if res is None or not isinstance(res[1], ast.ClassDef):
                    continue
                par = mod.parent(call)
                if not (isinstance(par, ast.Assign) and len(par.targets) == 1 and isinstance(par.targets[0], ast.Name)):
                    continue
                var = par.targets[0].id
                for st in ast.walk(fn):
                    if isinstance(st, ast.Assign) and isinstance(st.targets[0], ast.Subscript) and isinstance(st.targets[0].slice, ast.Name) and st.targets[0].slice.id == var:
                        inner = st.targets[0].value
                        if isinstance(inner, ast.Subscript) and isinstance(inner.slice, ast.Constant) and inner.slice.value in tree_keyed_paths:
                            out.append((mod, st.targets[0], True))
    return out


def _zero_arg_instances(prog: Program, clsname: str):
    """(module, creation call, used-as-key?) for every `Cls()` in the package."""
    out = []
    for mod, qual, fn in prog.functions():
        for call in ast.walk(fn):
            if isinstance(call, ast.Call) and isinstance(call.func, ast.Name) and call.func.id == clsname and not call.args and not call.keywords:
                res = resolve_name(prog, mod, clsname)
                if res is None or not isinstance(res[1], ast.ClassDef):
                    continue
                # the variable it is bound to
                par = mod.parent(call)
                var = None
                if isinstance(par, ast.Assign) and len(par.targets) == 1 and isinstance(par.targets[0], ast.Name):
                    var = par.targets[0].id
                keyed = False
                if var:
                    for sub in ast.walk(fn):
                        if isinstance(sub, ast.Subscript) and isinstance(sub.slice, ast.Name) and sub.slice.id == var:
                            keyed = True
                        if (
                            isinstance(sub, ast.Call)
                            and isinstance(sub.func, ast.Attribute)
                            and sub.func.attr in ("add", "append")
                            and any(isinstance(a, ast.Name) and a.id == var for a in sub.args)
                        ):
                            keyed = True
                out.append((mod, call, keyed))
    return out


# ---------------------------------------------------------------------------


def readonly_graph(prog: Program) -> RuleResult:
    res = RuleResult(
        "READONLY-GRAPH",
        "the topological sorters never mutate the graph they are given nor the successor sets stored in it "
        "(the caller's graph is used again by the next call, and two vertices may share one successor set)",
    )
    modname = "utils.toposort"
    mod = prog.module(modname)
    n = 0
    for qual, fn in prog.defs(modname).items():
        if not isinstance(fn, FuncNode) or "." in qual:
            continue
        params = func_params(fn)
        gname = None
        for arg in fn.args.args:  # type: ignore[attr-defined]
            ann = ast.unparse(arg.annotation) if arg.annotation is not None else ""
            if ann.startswith(("Mapping[", "Dict[")) and "Set[" in ann:
                gname = arg.arg
        if gname is None:
            continue
        n += 1
        construct = f"{modname}:{qual}/graph-readonly"
        # names aliasing the graph or a value stored in it
        alias: Set[str] = {gname}
        changed = True
        while changed:
            changed = False
            for node in walk_no_nested(fn):
                tgt_val = None
                if isinstance(node, ast.Assign) and len(node.targets) == 1 and isinstance(node.targets[0], ast.Name):
                    tgt_val = (node.targets[0].id, node.value)
                elif isinstance(node, ast.For) and isinstance(node.target, ast.Name):
                    # iterating the graph yields keys (immutable vertices); iterating .values()/.items() yields the sets
                    it = node.iter
                    if isinstance(it, ast.Call) and isinstance(it.func, ast.Attribute) and it.func.attr in ("values",) and _root_name(it.func.value) in alias:
                        tgt_val = (node.target.id, it)
                elif isinstance(node, ast.For) and isinstance(node.target, ast.Tuple):
                    it = node.iter
                    if isinstance(it, ast.Call) and isinstance(it.func, ast.Attribute) and it.func.attr == "items" and _root_name(it.func.value) in alias:
                        for elt in node.target.elts[1:]:
                            if isinstance(elt, ast.Name) and elt.id not in alias:
                                alias.add(elt.id)
                                changed = True
                if tgt_val:
                    name, val = tgt_val
                    if name in alias:
                        continue
                    if _shares_graph(val, alias):
                        alias.add(name)
                        changed = True
        bad = []
        for node in walk_no_nested(fn):
            if isinstance(node, (ast.Assign, ast.AugAssign, ast.Delete)):
                tgts = node.targets if isinstance(node, (ast.Assign, ast.Delete)) else [node.target]
                for tgt in tgts:
                    if isinstance(tgt, ast.Subscript) and _root_name(tgt) in alias:
                        bad.append(node)
                    if isinstance(node, ast.AugAssign) and isinstance(tgt, ast.Name) and tgt.id in alias and tgt.id != gname:
                        bad.append(node)
            elif isinstance(node, ast.Call) and isinstance(node.func, ast.Attribute) and node.func.attr in MUTATORS:
                if _root_name(node.func.value) in alias:
                    bad.append(node)
        if bad:
            for node in bad:
                res.fail(construct, f"`{short(node, 70)}` mutates the caller's graph (aliases: {sorted(alias)})", mod, node)
        else:
            res.ok(construct, f"no mutation through {sorted(alias)}")
    res.floor(3)
    return res


def _shares_graph(val: ast.AST, alias: Set[str]) -> bool:
    """Does the expression evaluate to the graph itself or to an object stored in it (not a copy)?"""
    if isinstance(val, ast.Name):
        return val.id in alias
    if isinstance(val, ast.Subscript):
        return _root_name(val) in alias
    if isinstance(val, ast.Call) and isinstance(val.func, ast.Attribute) and val.func.attr in ("get", "setdefault", "pop"):
        return _root_name(val.func.value) in alias
    return False


# ---------------------------------------------------------------------------


def _generator_functions(prog: Program) -> Set[str]:
    out = set()
    for mod, qual, fn in prog.functions():
        if any(isinstance(n, (ast.Yield, ast.YieldFrom)) for n in walk_no_nested(fn)):
            out.add(fn.name)  # type: ignore[attr-defined]
    return out


ONE_SHOT_CALLS = {"map", "filter", "zip", "iter", "enumerate", "reversed", "chain", "itertools.chain", "product", "itertools.product"}


def iterator_reuse(prog: Program) -> RuleResult:
    res = RuleResult(
        "ITERATOR-REUSE",
        "a one-shot iterator (map / filter / zip / generator expression / the result of a generator function of "
        "the package such as binarize) bound to a name is never consumed inside the body of a loop that runs "
        "after the binding: from the second iteration on it is exhausted and the inner loop silently does nothing",
    )
    gens = _generator_functions(prog)
    n = 0
    for mod, qual, fn in prog.functions():
        key = _modkey(mod)
        for node in walk_no_nested(fn):
            if not (isinstance(node, ast.Assign) and len(node.targets) == 1 and isinstance(node.targets[0], ast.Name)):
                continue
            val = node.value
            one_shot = isinstance(val, ast.GeneratorExp) or (
                isinstance(val, ast.Call)
                and (
                    (dotted(val.func) or "") in ONE_SHOT_CALLS
                    or (isinstance(val.func, ast.Name) and val.func.id in gens)
                    or (isinstance(val.func, ast.Attribute) and val.func.attr in gens and val.func.attr not in ("copy",))
                )
            )
            if not one_shot:
                continue
            name = node.targets[0].id
            n += 1
            construct = f"{key}:{qual}/iterator[{name}]"
            from ..flow import loops_around

            binding_loops = loops_around(fn, node)
            bad = []
            for use in walk_no_nested(fn):
                consumed = None
                if isinstance(use, (ast.For, ast.comprehension)) and isinstance(use.iter, ast.Name) and use.iter.id == name:
                    consumed = use
                elif isinstance(use, ast.Call) and any(isinstance(a, ast.Name) and a.id == name for a in use.args):
                    fname = dotted(use.func) or ""
                    if fname in ("list", "tuple", "set", "sorted", "sum", "max", "min", "any", "all", "dict", "len") or fname in ONE_SHOT_CALLS:
                        consumed = use
                if consumed is None or getattr(consumed, "lineno", node.lineno) < node.lineno:
                    continue
                anchor = consumed if not isinstance(consumed, ast.comprehension) else use.iter
                use_loops = loops_around(fn, anchor)
                if isinstance(consumed, ast.For):
                    use_loops = [l for l in use_loops if l is not consumed]
                extra = [l for l in use_loops if not any(l is b for b in binding_loops)]
                if extra:
                    bad.append((anchor, extra[0]))
            if bad:
                anchor, loop = bad[0]
                res.fail(
                    construct,
                    f"`{name}` = `{short(val, 60)}` is a one-shot iterator, but it is consumed inside the loop "
                    f"`for {short(loop.target, 30) if isinstance(loop, ast.For) else '...'} in ...` that starts after the binding: "
                    "only the first iteration sees its elements",
                    mod,
                    anchor,
                )
            else:
                res.ok(construct, f"`{short(val, 50)}` consumed at most once per binding")
    # across calls: a one-shot iterator handed to a parameter that the callee walks more than once
    from ..resolve import resolve_callee

    def is_one_shot(fn_, expr) -> bool:
        if isinstance(expr, ast.GeneratorExp):
            return True
        if isinstance(expr, ast.Call):
            fname = dotted(expr.func) or ""
            return fname in ONE_SHOT_CALLS or (isinstance(expr.func, ast.Name) and expr.func.id in gens)
        if isinstance(expr, ast.Name):
            defs = [a for a in walk_no_nested(fn_) if isinstance(a, ast.Assign) and len(a.targets) == 1 and isinstance(a.targets[0], ast.Name) and a.targets[0].id == expr.id]
            return bool(defs) and all(is_one_shot(fn_, a.value) for a in defs if not (isinstance(a.value, ast.Name) and a.value.id == expr.id))
        return False

    multi_cache: Dict[Tuple[int, str], Optional[ast.AST]] = {}

    def walked_twice(cfn, pname) -> Optional[ast.AST]:
        ck = (id(cfn), pname)
        if ck in multi_cache:
            return multi_cache[ck]
        sites = []
        materialised = False
        for st in cfn.body:
            if isinstance(st, ast.Assign) and len(st.targets) == 1 and isinstance(st.targets[0], ast.Name) and st.targets[0].id == pname:
                if isinstance(st.value, ast.Call) and dotted(st.value.func) in ("list", "tuple", "sorted", "set", "frozenset"):
                    materialised = True
                break
            if any(isinstance(n, ast.Name) and n.id == pname for n in ast.walk(st)):
                break
        if not materialised:
            for use in walk_no_nested(cfn):
                if isinstance(use, (ast.For, ast.comprehension)) and isinstance(use.iter, ast.Name) and use.iter.id == pname:
                    anchor = use if isinstance(use, ast.For) else use.iter
                    lp = [l for l in loops_around(cfn, anchor) if l is not use]
                    sites.append((anchor, bool(lp)))
                elif isinstance(use, ast.Call) and any(isinstance(a, ast.Name) and a.id == pname for a in use.args):
                    fname = dotted(use.func) or ""
                    if fname in ("list", "tuple", "set", "sorted", "sum", "max", "min", "any", "all", "dict") or fname in ONE_SHOT_CALLS:
                        sites.append((use, bool(loops_around(cfn, use))))
        verdict = None
        if len(sites) >= 2:
            verdict = sorted(sites, key=lambda s_: getattr(s_[0], "lineno", 0))[1][0]
        elif sites and sites[0][1]:
            verdict = sites[0][0]
        multi_cache[ck] = verdict
        return verdict

    from ..flow import loops_around

    for mod, qual, fn in prog.functions():
        key = _modkey(mod)
        idx = 0
        for call in walk_no_nested(fn):
            if not isinstance(call, ast.Call):
                continue
            shots = [(i, a, None) for i, a in enumerate(call.args) if is_one_shot(fn, a)] + [(None, kw.value, kw.arg) for kw in call.keywords if kw.arg and is_one_shot(fn, kw.value)]
            if not shots:
                continue
            callee = resolve_callee(prog, mod, call.func)
            if callee is None or not isinstance(callee[1], (ast.FunctionDef, ast.AsyncFunctionDef)):
                continue
            cfn = callee[1]
            cparams = [a.arg for a in cfn.args.posonlyargs + cfn.args.args]
            for pos, arg, kwname in shots:
                pname = kwname if kwname else (cparams[pos] if pos is not None and pos < len(cparams) else None)
                if pname is None:
                    continue
                construct = f"{key}:{qual}/one-shot-argument#{idx}[{cfn.name}.{pname}]"
                idx += 1
                second = walked_twice(cfn, pname)
                if second is not None:
                    res.fail(
                        construct,
                        f"`{short(arg, 60)}` is a one-shot iterator, but `{cfn.name}` walks its parameter `{pname}` more than once "
                        f"(again at `{short(second, 50)}`): the second walk sees nothing",
                        mod,
                        call,
                    )
                else:
                    res.ok(construct, f"`{cfn.name}` walks `{pname}` once")
    res.floor(1)
    return res


# ---------------------------------------------------------------------------


def memo_key(prog: Program) -> RuleResult:
    res = RuleResult(
        "MEMO-KEY",
        "a function that keeps results in a table (`if key not in T: T[key] = ...; return T[key]`) builds the key "
        "from every parameter its callers vary: a parameter that some call site sets to anything else than the "
        "caller's own unchanged parameter of the same name, and that the key leaves out, makes later calls "
        "return the answer computed for another argument",
    )
    n = 0
    for mod, qual, fn in prog.functions():
        key_mod = _modkey(mod)
        if not key_mod.startswith(PURE_SCOPE):
            continue
        params = func_params(fn)
        for test in walk_no_nested(fn):
            if not (isinstance(test, ast.Compare) and len(test.ops) == 1 and isinstance(test.ops[0], (ast.In, ast.NotIn))):
                continue
            table = test.comparators[0]
            tname = dotted(table)
            if tname is None:
                continue
            keyexpr = test.left
            stores = [
                st for st in walk_no_nested(fn)
                if isinstance(st, ast.Assign) and len(st.targets) == 1 and isinstance(st.targets[0], ast.Subscript)
                and dotted(st.targets[0].value) == tname and ast.dump(st.targets[0].slice) == ast.dump(keyexpr)
            ]
            returns = [
                r for r in walk_no_nested(fn)
                if isinstance(r, ast.Return) and isinstance(r.value, ast.Subscript) and dotted(r.value.value) == tname
                and ast.dump(r.value.slice) == ast.dump(keyexpr)
            ]
            if not stores or not returns:
                continue
            n += 1
            construct = f"{key_mod}:{qual}/memo[{tname}]"
            key_names = _expand_names(fn, keyexpr)
            varying = _varying_params(prog, mod, fn)
            missing = [p for p in params if p in varying and p not in key_names and p != tname and p not in ("self", "cls")]
            # parameters that do not influence the stored value are irrelevant
            used = set()
            for st in stores:
                used |= {nm.id for nm in ast.walk(st.value) if isinstance(nm, ast.Name)}
            missing = [p for p in missing if p in used]
            if missing:
                res.fail(
                    construct,
                    f"results are cached in `{tname}` under the key `{short(keyexpr)}`, which leaves out "
                    f"{missing}: callers vary {'these parameters' if len(missing) > 1 else 'this parameter'} "
                    "and the stored result depends on it",
                    mod,
                    stores[0],
                )
            else:
                res.ok(construct, f"key `{short(keyexpr)}` covers every varying parameter")
    seen_mods = {f.construct.split(":")[0] for f in res.findings} | {o.construct.split(":")[0] for o in res.obligations}
    for m in prog.modules.values():
        key_m = _modkey(m)
        if key_m.startswith(PURE_SCOPE) and key_m not in seen_mods and m.src.strip():
            res.ok(f"{key_m}:memo-tables", "no memo-table idiom in this module", nontrivial=False)
    return res


def _expand_names(fn: ast.AST, expr: ast.AST) -> Set[str]:
    names = {n.id for n in ast.walk(expr) if isinstance(n, ast.Name)}
    out = set(names)
    for nm in list(names):
        for node in ast.walk(expr):
            if isinstance(node, ast.Name) and node.id == nm and hasattr(node, "lineno"):
                val = reaching(fn, nm, node)
                if val is not None and not isinstance(val, Opaque):
                    out |= {n.id for n in ast.walk(val) if isinstance(n, ast.Name)}
                break
    return out


def _varying_params(prog: Program, mod: Module, fn: ast.AST) -> Set[str]:
    """Parameters of `fn` that some call site in the package binds to something else than the caller's
    own never-reassigned parameter of the same name."""
    params = func_params(fn)
    varying: Set[str] = set()
    seen_call = False
    graph = call_graph(prog)
    me = None
    for k, (m, node) in graph.nodes.items():
        if node is fn:
            me = k
    inside = graph.reachable(me) if me is not None else set()
    for cmod, cqual, caller in prog.functions():
        # only call sites inside the recursion (functions reachable from fn): the call that starts a
        # recursion may pass anything, it comes with its own table
        if me is not None and graph.key(cmod, cqual) not in inside:
            continue
        cparams = set(func_params(caller))
        reassigned = {n.id for n in ast.walk(caller) if isinstance(n, ast.Name) and not isinstance(n.ctx, ast.Load)}
        for call in ast.walk(caller):
            if not isinstance(call, ast.Call):
                continue
            target = None
            if isinstance(call.func, ast.Name) and call.func.id == fn.name:  # type: ignore[attr-defined]
                res = resolve_callee(prog, cmod, call.func)
                if res is not None and res[1] is fn:
                    target = fn
                elif cmod is mod:
                    target = fn
            if target is None:
                continue
            seen_call = True
            bound: Dict[str, ast.AST] = {}
            for i, a in enumerate(call.args):
                if i < len(params) and not isinstance(a, ast.Starred):
                    bound[params[i]] = a
            for kw in call.keywords:
                if kw.arg in params:
                    bound[kw.arg] = kw.value
            for p, a in bound.items():
                same = isinstance(a, ast.Name) and a.id == p and p in cparams and p not in reassigned
                if not same:
                    varying.add(p)
    if not seen_call:
        return set()
    return varying


# ---------------------------------------------------------------------------


INPUT_CLASSES = ("ReconciliationInput", "SuperReconciliationInput")


def readonly_input(prog: Program) -> RuleResult:
    res = RuleResult(
        "READONLY-INPUT",
        "a solver or a renderer never writes into the input / solution object it is given: no store, in-place operator or mutating "
        "method on anything reached from a parameter annotated with an input class (its mappings, cost "
        "vector, trees) - the caller's input is used again, and leaf_object_species must keep only leaves. "
        "(label_internal() on a refinement produced by binarize() is a write to a fresh object.)",
    )
    n = 0
    for mod, qual, fn in prog.functions():
        key = _modkey(mod)
        if not key.startswith(("compute.", "render.")):
            continue
        in_params = []
        for arg in fn.args.args + fn.args.kwonlyargs:  # type: ignore[attr-defined]
            ann = dotted(arg.annotation) if arg.annotation is not None else None
            if ann in INPUT_CLASSES or (key.startswith("render.") and ann in ("ReconciliationOutput", "SuperReconciliationOutput")):
                in_params.append(arg.arg)
        if not in_params:
            continue
        n += 1
        construct = f"{key}:{qual}/input-readonly"
        alias: Set[str] = set(in_params)
        refinements: Set[str] = set()
        changed = True
        while changed:
            changed = False
            for node in walk_no_nested(fn):
                if isinstance(node, ast.Assign) and len(node.targets) == 1 and isinstance(node.targets[0], ast.Name):
                    nm = node.targets[0].id
                    if nm not in alias and _reaches_input(node.value, alias):
                        alias.add(nm)
                        changed = True
                # `for x in <input>.binarize()`: a binary input is yielded as it is, so x may BE the caller's input
                if isinstance(node, ast.For) and isinstance(node.target, ast.Name) and node.target.id not in alias:
                    it = node.iter
                    if isinstance(it, ast.Call) and (dotted(it.func) or "").endswith("tqdm") and it.args:
                        it = it.args[0]
                    if isinstance(it, ast.Call) and isinstance(it.func, ast.Attribute) and it.func.attr == "binarize" and _root_name(it.func.value) in alias:
                        alias.add(node.target.id)
                        refinements.add(node.target.id)
                        changed = True
        bad = []
        for node in walk_no_nested(fn):
            if isinstance(node, (ast.Assign, ast.AugAssign, ast.Delete)):
                tgts = node.targets if isinstance(node, (ast.Assign, ast.Delete)) else [node.target]
                for tgt in tgts:
                    if isinstance(tgt, (ast.Subscript, ast.Attribute)) and _root_name(tgt) in alias:
                        bad.append(node)
                    elif isinstance(node, ast.AugAssign) and isinstance(tgt, ast.Name) and tgt.id in alias and tgt.id not in in_params:
                        if isinstance(node.op, (ast.BitOr, ast.BitAnd, ast.BitXor, ast.Add)):
                            bad.append(node)
            elif isinstance(node, ast.Call) and isinstance(node.func, ast.Attribute) and node.func.attr in MUTATORS | {"label_internal", "add_feature", "add_child", "detach", "delete", "remove_child"}:
                if _root_name(node.func.value) in alias:
                    # (naming the unnamed ancestors of a refinement is the documented exception)
                    if node.func.attr == "label_internal" and dotted(node.func.value) in refinements:
                        continue
                    bad.append(node)
        if bad:
            for node in bad:
                res.fail(construct, f"`{short(node, 70)}` writes into the caller's input (aliases of the input: {sorted(alias)})", mod, node)
        else:
            res.ok(construct, f"no write through {sorted(alias)}")
    res.floor(10)
    return res



def _writes_through(fn: ast.AST, roots: Sequence[str]) -> Tuple[List[ast.AST], Set[str]]:
    """statements of `fn` that write into an object reached from one of the names `roots` (or an alias)"""
    alias: Set[str] = set(roots)
    changed = True
    while changed:
        changed = False
        for node in walk_no_nested(fn):
            if isinstance(node, ast.Assign) and len(node.targets) == 1 and isinstance(node.targets[0], ast.Name):
                nm = node.targets[0].id
                if nm not in alias and _reaches_input(node.value, alias):
                    alias.add(nm)
                    changed = True
    bad: List[ast.AST] = []
    for node in walk_no_nested(fn):
        if isinstance(node, (ast.Assign, ast.AugAssign, ast.Delete)):
            tgts = node.targets if isinstance(node, (ast.Assign, ast.Delete)) else [node.target]
            for tgt in tgts:
                if isinstance(tgt, (ast.Subscript, ast.Attribute)) and _root_name(tgt) in alias:
                    bad.append(node)
        elif isinstance(node, ast.Call) and isinstance(node.func, ast.Attribute) and node.func.attr in MUTATORS:
            if _root_name(node.func.value) in alias:
                bad.append(node)
    return bad, alias


def parse_readonly(prog: Program) -> RuleResult:
    res = RuleResult(
        "PARSE-READONLY",
        "parsing does not rewrite what it parses: `from_dict` / `_from_dict` and the mapping parsers make no store, "
        "`pop`, `update`, `del` ... through their dictionary argument or an alias of one of its entries - the "
        "dictionary is what `to_dict` produced and is compared, dumped or parsed again afterwards, and a parsed object "
        "must not share a mutable entry with it",
    )
    n = 0
    for modname in ("model.reconciliation", "model.tree_mapping", "model.synteny"):
        mod = prog.module(modname)
        for qual, fn in prog.defs(modname).items():
            if not isinstance(fn, FuncNode):
                continue
            last = qual.split(".")[-1]
            if not (last in ("from_dict", "_from_dict") or last.startswith("parse_")):
                continue
            params = [a.arg for a in fn.args.args if a.arg not in ("self", "cls")]
            # the dictionary argument: `data`, or the last parameter of a parser
            roots = [p for p in params if p in ("data", "mapping", "raw")] or params[-1:]
            if not roots:
                continue
            n += 1
            construct = f"{modname}:{qual}/argument-readonly"
            bad, alias = _writes_through(fn, roots)
            # an alias that is stored in the result while being an entry of the argument is shared state
            if bad:
                res.fail(construct, f"`{short(bad[0], 70)}` rewrites the dictionary being parsed (through {sorted(alias)}): it no longer equals what was serialised, and the parsed object shares the entry", mod, bad[0])
            else:
                res.ok(construct, f"no write through {sorted(alias)}")
    if n < 5:
        raise AnalysisError(f"PARSE-READONLY: only {n} parsing functions found")
    return res


def _reaches_input(val: ast.AST, alias: Set[str]) -> bool:
    """The value is (part of) the input object itself, not a copy / fresh result."""
    if isinstance(val, ast.Name):
        return val.id in alias
    if isinstance(val, (ast.Attribute, ast.Subscript)):
        return _root_name(val) in alias
    if isinstance(val, ast.IfExp):
        return _reaches_input(val.body, alias) or _reaches_input(val.orelse, alias)
    return False


# ---------------------------------------------------------------------------


def no_pruned_traversal(prog: Program) -> RuleResult:
    res = RuleResult(
        "NO-PRUNED-TRAVERSAL",
        "no tree traversal of the package passes `is_leaf_fn` (ete3 then stops at the nodes the predicate "
        "accepts and never visits what lies below): every loop that is meant to see every node sees every node",
    )
    n = 0
    for mod, qual, fn in prog.functions():
        for call in walk_no_nested(fn):
            if isinstance(call, ast.Call) and isinstance(call.func, ast.Attribute) and call.func.attr in (
                "traverse", "iter_leaves", "get_leaves", "iter_descendants", "get_descendants", "iter_leaf_names", "get_leaf_names",
            ):
                n += 1
                pruned = any(k.arg == "is_leaf_fn" for k in call.keywords) or (call.func.attr == "traverse" and len(call.args) > 1)
                construct = f"{_modkey(mod)}:{qual}/traversal[{short(call.func.value, 30)}.{call.func.attr}]"
                if pruned:
                    res.fail(construct, f"`{short(call, 80)}` prunes the traversal: nodes below an accepted node are never visited", mod, call)
                else:
                    res.ok(construct, "visits every node", nontrivial=False)
    if n < 20:
        raise AnalysisError(f"NO-PRUNED-TRAVERSAL: only {n} traversals found")
    return res


# ---------------------------------------------------------------------------


MODEL_CLASSES = ("ReconciliationInput", "SuperReconciliationInput", "ReconciliationOutput", "SuperReconciliationOutput")


def field_copy_complete(prog: Program) -> RuleResult:
    from ..resolve import all_fields

    res = RuleResult(
        "FIELD-COPY-COMPLETE",
        "wherever a model object is rebuilt from the fields of another one (a constructor call with two or more "
        "arguments of the form `x.<field>` on the same x), every field of the target class is passed: a field "
        "with a default that is left out (the cost vector) silently falls back to that default",
    )
    n = 0
    for mod, qual, fn in prog.functions():
        for call in walk_no_nested(fn):
            if not (isinstance(call, ast.Call) and isinstance(call.func, ast.Name) and call.func.id in MODEL_CLASSES):
                continue
            target = resolve_name(prog, mod, call.func.id)
            if target is None or not isinstance(target[1], ast.ClassDef):
                continue
            n += 1
            fields = all_fields(prog, target[0], target[1])
            given: Dict[str, ast.AST] = {}
            for i, a in enumerate(call.args):
                if i < len(fields):
                    given[fields[i]] = a
            for kw in call.keywords:
                if kw.arg:
                    given[kw.arg] = kw.value
                else:
                    given["**"] = kw.value
            sources = [_root_name(v) for v in given.values() if isinstance(v, ast.Attribute)]
            construct = f"{_modkey(mod)}:{qual}/{call.func.id}(...)"
            copied_from = {s for s in sources if s and sources.count(s) >= 2}
            missing = [f for f in fields if f not in given]
            if copied_from and missing and "**" not in given:
                res.fail(
                    construct,
                    f"`{short(call, 80)}` rebuilds a {call.func.id} from the fields of `{sorted(copied_from)[0]}` but "
                    f"leaves out {missing}: the copy falls back to the default value of "
                    f"{'these fields' if len(missing) > 1 else 'this field'}",
                    mod,
                    call,
                )
            else:
                res.ok(construct, f"passes {sorted(given)}", nontrivial=bool(copied_from))
    res.floor(4)
    return res


def eq_by_fields(prog: Program) -> RuleResult:
    res = RuleResult(
        "EQ-BY-FIELDS",
        "the model classes compare by their fields (the generated dataclass __eq__: mappings keyed by node "
        "objects): none of them defines an __eq__ that goes through the name-keyed serialisation, which merges "
        "two different solutions whenever two nodes share a name (result sets are sets of outputs)",
    )
    model = "model.reconciliation"
    mod = prog.module(model)
    for cname in MODEL_CLASSES:
        cls = prog.cls(model, cname)
        construct = f"{model}:{cname}/equality"
        eq = next((m for m in cls.body if isinstance(m, FuncNode) and m.name == "__eq__"), None)
        deco_ok = any(
            (dotted(d.func if isinstance(d, ast.Call) else d) or "").split(".")[-1] == "dataclass"
            and not (isinstance(d, ast.Call) and any(k.arg == "eq" and isinstance(k.value, ast.Constant) and k.value.value is False for k in d.keywords))
            for d in cls.decorator_list
        )
        if eq is None:
            if deco_ok:
                res.ok(construct, "dataclass field equality")
            else:
                res.fail(construct, f"{cname} is not a dataclass with generated equality: outputs compare by identity", mod, cls)
            continue
        coarse = [c for c in ast.walk(eq) if isinstance(c, ast.Call) and (dotted(c.func) or "").startswith("serialize_")]
        if coarse:
            res.fail(
                construct,
                f"{cname}.__eq__ compares `{short(coarse[0], 60)}`: two solutions that differ only on nodes sharing a "
                "name compare equal and are merged in the result set",
                mod,
                eq,
            )
        else:
            raise AnalysisError(f"{construct}: hand-written __eq__ of a shape that is not recognised")
    return res


# ---------------------------------------------------------------------------


def none_sentinel_truth(prog: Program) -> RuleResult:
    res = RuleResult(
        "NONE-SENTINEL-TRUTH",
        "a value obtained with an explicit None sentinel (`next(it, None)`, `d.get(k)`, `d.get(k, None)`) and then "
        "compared with other values is tested against the sentinel with `is None` / `is not None`, not by "
        "truthiness: a legitimate falsy element (0, '', an empty tuple) would be taken for 'exhausted'",
    )
    n = 0
    for mod, qual, fn in prog.functions():
        key = _modkey(mod)
        if not key.startswith(PURE_SCOPE):
            continue
        sentinels: Dict[str, ast.AST] = {}
        for node in walk_no_nested(fn):
            if isinstance(node, ast.Assign) and len(node.targets) == 1 and isinstance(node.targets[0], ast.Name) and isinstance(node.value, ast.Call):
                call = node.value
                if dotted(call.func) == "next" and len(call.args) == 2 and isinstance(call.args[1], ast.Constant) and call.args[1].value is None:
                    sentinels[node.targets[0].id] = node
        # a parameter annotated Optional[...] is a value-or-None as well: `if not left` also refuses 0, '' and ()
        for arg in fn.args.args + fn.args.kwonlyargs:  # type: ignore[attr-defined]
            ann = ast.unparse(arg.annotation) if arg.annotation is not None else ""
            if ann.startswith("Optional[") and "bool" not in ann and not any(w in ann for w in ("List", "Sequence", "Set", "Dict", "Iterable", "Mapping", "Tree")):
                sentinels.setdefault(arg.arg, ast.Assign(targets=[ast.Name(id=arg.arg, ctx=ast.Store())], value=ast.Name(id=f"<parameter {arg.arg}: {ann}>", ctx=ast.Load())))
        for name, origin in sentinels.items():
            n += 1
            construct = f"{key}:{qual}/sentinel[{name}]"
            bad = []
            for node in walk_no_nested(fn):
                tests = []
                if isinstance(node, (ast.If, ast.While, ast.IfExp, ast.Assert)):
                    tests.append(node.test)
                for test in tests:
                    stack = [test]
                    while stack:
                        t = stack.pop()
                        if isinstance(t, ast.BoolOp):
                            stack.extend(t.values)
                        elif isinstance(t, ast.UnaryOp) and isinstance(t.op, ast.Not):
                            stack.append(t.operand)
                        elif isinstance(t, ast.Name) and t.id == name:
                            bad.append(node)
            if bad:
                res.fail(construct, f"`{name}` comes from `{short(origin.value)}` and is tested by truthiness in `{short(bad[0].test, 50)}`: a falsy element ends the scan as if the iterator were exhausted", mod, bad[0])
            else:
                res.ok(construct, "compared with `is None`")
    seen_mods = {o.construct.split(":")[0] for o in res.obligations}
    for m in prog.modules.values():
        key_m = _modkey(m)
        if key_m.startswith(PURE_SCOPE) and key_m not in seen_mods and m.src.strip():
            res.ok(f"{key_m}:none-sentinels", "no `next(it, None)` sentinel in this module", nontrivial=False)
    return res


def optional_checked(prog: Program) -> RuleResult:
    res = RuleResult(
        "OPTIONAL-CHECKED",
        "the result of a module function annotated `-> Optional[...]` (tree_from_triples, supertree, toposort, "
        "find_cycle: None means 'no such tree / ordering / cycle') is returned as is, tested directly, or bound to a "
        "name that is tested before any other use; it is never passed straight into another call (ete3's "
        "add_child(None) silently creates an empty node) or dereferenced",
    )
    optional_fns: Dict[str, Tuple[Module, ast.AST]] = {}
    for mod, qual, fn in prog.functions():
        if "." in qual:
            continue
        ret = getattr(fn, "returns", None)
        if ret is not None and ast.unparse(ret).startswith(("Optional[", "typing.Optional[")):
            optional_fns[fn.name] = (mod, fn)  # type: ignore[attr-defined]
    n = 0
    from ..flow import guards as _guards

    for mod, qual, fn in prog.functions():
        key = _modkey(mod)
        for call in walk_no_nested(fn):
            if not (isinstance(call, ast.Call) and isinstance(call.func, ast.Name) and call.func.id in optional_fns):
                continue
            target = resolve_callee(prog, mod, call.func)
            if target is None or target[1] is not optional_fns[call.func.id][1]:
                continue
            n += 1
            construct = f"{key}:{qual}/{call.func.id}()#{n}"
            par = mod.parent(call)
            if isinstance(par, ast.Return):
                res.ok(construct, "returned as is")
                continue
            if isinstance(par, ast.Compare) or isinstance(par, (ast.If, ast.While, ast.IfExp, ast.Assert)) or (isinstance(par, ast.UnaryOp) and isinstance(par.op, ast.Not)) or isinstance(par, ast.BoolOp):
                res.ok(construct, "tested directly")
                continue
            if isinstance(par, ast.Assign) and len(par.targets) == 1 and isinstance(par.targets[0], ast.Name):
                name = par.targets[0].id
                bad = None
                for use in walk_no_nested(fn):
                    if not (isinstance(use, ast.Name) and use.id == name and isinstance(use.ctx, ast.Load)):
                        continue
                    if getattr(use, "lineno", 0) < par.lineno:
                        continue
                    up = mod.parent(use)
                    in_test = isinstance(up, (ast.Compare, ast.If, ast.While, ast.IfExp, ast.Assert, ast.BoolOp)) or (isinstance(up, ast.UnaryOp) and isinstance(up.op, ast.Not))
                    if in_test or isinstance(up, ast.Return):
                        continue
                    gs = _guards(fn, use)
                    if any(name in {x.id for x in ast.walk(t) if isinstance(x, ast.Name)} for t, _p in gs):
                        continue
                    bad = use
                    break
                if bad is None:
                    res.ok(construct, f"bound to `{name}`, tested before use")
                else:
                    res.fail(construct, f"`{name}` = `{short(call, 50)}` may be None and is used in `{short(mod.parent(bad), 60)}` without a test", mod, bad)
                continue
            res.fail(
                construct,
                f"`{short(call, 60)}` may return None and is passed straight into `{short(par, 70)}`: the absence of a result is swallowed",
                mod,
                call,
            )
    res.floor(3)
    return res


TOPOLOGY_WRITERS = {
    "swap_children", "add_child", "remove_child", "detach", "delete", "prune", "sort_descendants", "ladderize",
    "set_outgroup", "unroot", "resolve_polytomy", "add_sister", "remove_sister", "populate", "standardize",
}


def no_topology_write(prog: Program) -> RuleResult:
    res = RuleResult(
        "NO-TOPOLOGY-WRITE",
        "the layout and drawing code never changes the shape or the child order of the trees of the reconciliation "
        "it is given (no swap_children / add_child / detach / ...): computing a layout twice, or in the other "
        "orientation, sees the same trees",
    )
    n = 0
    for mod, qual, fn in prog.functions():
        key = _modkey(mod)
        if not key.startswith("render."):
            continue
        n += 1
        construct = f"{key}:{qual}/topology-readonly"
        bad = [
            c for c in walk_no_nested(fn)
            if isinstance(c, ast.Call) and isinstance(c.func, ast.Attribute) and c.func.attr in TOPOLOGY_WRITERS
        ]
        bad += [
            st for st in walk_no_nested(fn)
            if isinstance(st, (ast.Assign, ast.AugAssign))
            and any(isinstance(t, ast.Attribute) and t.attr in ("children", "up") for t in (st.targets if isinstance(st, ast.Assign) else [st.target]))
        ]
        if bad:
            for node in bad:
                res.fail(construct, f"`{short(node, 70)}` rewires the tree it is laying out", mod, node)
        else:
            res.ok(construct, "no topology write", nontrivial=False)
    if n < 10:
        raise AnalysisError(f"NO-TOPOLOGY-WRITE: only {n} render functions found")
    return res


ELEMENT_TYPES = {"GeneFamily", "str"}


def element_update(prog: Program) -> RuleResult:
    res = RuleResult(
        "ELEMENT-UPDATE",
        "a single gene family (a string) is never given to an operation that expects a collection of families "
        "(`set.update`, `list.extend`, `|=`, `.union`): that would add its characters. The element type comes "
        "from the annotations (`Dict[GeneFamily, ...]` keys, `for family in <synteny>`).",
    )
    n = 0
    for mod, qual, fn in prog.functions():
        key = _modkey(mod)
        if not key.startswith(("compute.", "model.")):
            continue
        # names known to hold one family
        elems: Set[str] = set()
        dict_key_elem: Set[str] = set()
        for node in walk_no_nested(fn):
            if isinstance(node, ast.AnnAssign) and isinstance(node.target, ast.Name):
                ann = ast.unparse(node.annotation)
                if ann.startswith(("Dict[", "Mapping[", "DefaultDict[")) and ann.split("[", 1)[1].split(",")[0].strip() in ELEMENT_TYPES:
                    dict_key_elem.add(node.target.id)
        for node in walk_no_nested(fn):
            if isinstance(node, (ast.For, ast.comprehension)):
                it, tgt = node.iter, node.target
                if isinstance(it, ast.Call) and isinstance(it.func, ast.Attribute) and it.func.attr == "items" and dotted(it.func.value) in dict_key_elem:
                    if isinstance(tgt, ast.Tuple) and isinstance(tgt.elts[0], ast.Name):
                        elems.add(tgt.elts[0].id)
                if isinstance(it, ast.Name) and it.id in dict_key_elem and isinstance(tgt, ast.Name):
                    elems.add(tgt.id)
                if isinstance(tgt, ast.Name) and tgt.id in ("family", "gene_family"):
                    elems.add(tgt.id)
        for node in walk_no_nested(fn):
            arg = None
            if isinstance(node, ast.Call) and isinstance(node.func, ast.Attribute) and node.func.attr in ("update", "extend", "union", "intersection_update", "difference_update") and len(node.args) == 1:
                arg = node.args[0]
            elif isinstance(node, ast.AugAssign) and isinstance(node.op, (ast.BitOr, ast.BitAnd, ast.Sub)) and isinstance(node.value, ast.Name):
                arg = node.value
            if arg is None or not isinstance(arg, ast.Name):
                continue
            n += 1
            construct = f"{key}:{qual}/bulk-update[{short(node, 40)}]"
            if isinstance(arg, ast.Name) and arg.id in elems:
                res.fail(construct, f"`{short(node, 70)}` treats the single family `{arg.id}` as a collection: its characters are added one by one", mod, node)
            else:
                res.ok(construct, "argument is a collection", nontrivial=False)
    seen_mods = {o.construct.split(":")[0] for o in res.obligations}
    for m in prog.modules.values():
        key_m = _modkey(m)
        if key_m.startswith(("compute.", "model.")) and key_m not in seen_mods and m.src.strip():
            res.ok(f"{key_m}:bulk-updates", "no set/list bulk update with a plain name as argument in this module", nontrivial=False)
    return res


RULES = {
    "NONE-SENTINEL-TRUTH": none_sentinel_truth,
    "OPTIONAL-CHECKED": optional_checked,
    "NO-TOPOLOGY-WRITE": no_topology_write,
    "ELEMENT-UPDATE": element_update,
    "ITERATOR-REUSE": iterator_reuse,
    "MEMO-KEY": memo_key,
    "READONLY-INPUT": readonly_input,
    "PARSE-READONLY": parse_readonly,
    "NO-PRUNED-TRAVERSAL": no_pruned_traversal,
    "FIELD-COPY-COMPLETE": field_copy_complete,
    "EQ-BY-FIELDS": eq_by_fields,
    "SOLVER-STATELESS": solver_stateless,
    "RECURSE-FORWARD": recurse_forward,
    "IDENTITY-KEYS": identity_keys,
    "READONLY-GRAPH": readonly_graph,
}
