"""Effect rules: SOLVER-STATELESS, RECURSE-FORWARD, IDENTITY-KEYS, READONLY-GRAPH."""
from __future__ import annotations

import ast
from typing import Dict, List, Optional, Set, Tuple

from ..core import AnalysisError, FuncNode, Module, Program, RuleResult, dotted, func_params, short, walk_no_nested
from ..flow import Opaque, reaching
from ..resolve import call_graph, resolve_callee, resolve_name

MEMO_DECORATORS = {"lru_cache", "cache", "cached_property", "memoize", "memoized", "memo"}
MUTATORS = {
    "add", "update", "discard", "remove", "pop", "clear", "append", "extend", "insert", "setdefault", "popitem",
    "sort", "reverse", "difference_update", "intersection_update", "symmetric_difference_update", "popleft",
    "appendleft",
}
# classes whose instances are updated in place by design (one line of reason each)
MUTABLE_BY_DESIGN = {
    "utils.dynamic_programming:Entry": "a DP cell: update() is its purpose (C16)",
    "utils.dynamic_programming:Table": "DP table: cells are created on first write",
    "utils.dynamic_programming:EntryProxy": "lazy cell creation",
    "utils.dynamic_programming:TableProxy": "lazy cell creation",
    "utils.disjoint_set:DisjointSet": "union-find: find() compresses paths, unite() links (C20)",
}
PURE_SCOPE = ("compute.", "model.", "utils.", "render.")


def _modkey(mod: Module) -> str:
    return mod.name.split(".", 1)[1] if "." in mod.name else mod.name


def _module_level_names(mod: Module) -> Dict[str, ast.AST]:
    out: Dict[str, ast.AST] = {}
    for stmt in mod.tree.body:
        if isinstance(stmt, ast.Assign):
            for tgt in stmt.targets:
                if isinstance(tgt, ast.Name):
                    out[tgt.id] = stmt.value
        elif isinstance(stmt, ast.AnnAssign) and isinstance(stmt.target, ast.Name) and stmt.value is not None:
            out[stmt.target.id] = stmt.value
    return out


def _local_names(fn: ast.AST) -> Set[str]:
    names = set(func_params(fn))
    args = fn.args  # type: ignore[attr-defined]
    if args.vararg:
        names.add(args.vararg.arg)
    if args.kwarg:
        names.add(args.kwarg.arg)
    declared_global: Set[str] = set()
    for node in walk_no_nested(fn):
        if isinstance(node, (ast.Global, ast.Nonlocal)):
            declared_global.update(node.names)
        elif isinstance(node, ast.Name) and not isinstance(node.ctx, ast.Load):
            names.add(node.id)
        elif isinstance(node, FuncNode + (ast.ClassDef,)):
            names.add(node.name)
        elif isinstance(node, ast.comprehension):
            for sub in ast.walk(node.target):
                if isinstance(sub, ast.Name):
                    names.add(sub.id)
    return names - declared_global


def _is_mutable_literal(node: Optional[ast.AST]) -> bool:
    if isinstance(node, (ast.Dict, ast.List, ast.Set, ast.DictComp, ast.ListComp, ast.SetComp)):
        return True
    if isinstance(node, ast.Call) and dotted(node.func) in ("dict", "list", "set", "defaultdict", "collections.defaultdict", "OrderedDict", "deque"):
        return True
    return False


def _root_name(node: ast.AST) -> Optional[str]:
    while isinstance(node, (ast.Subscript, ast.Attribute)):
        node = node.value
    return node.id if isinstance(node, ast.Name) else None


def solver_stateless(prog: Program) -> RuleResult:
    res = RuleResult(
        "SOLVER-STATELESS",
        "what a solver, decoder, evaluator or utility returns is a function of its arguments as they are at the "
        "time of the call: no memoising decorator, no mutable default argument used as a memo table, no write to "
        "module-level state, no result cached on an input object. (Inputs are mutable - cost vectors are dicts "
        "updated in place, trees are relabelled - and their hash ignores the costs, so any state that survives a "
        "call makes a later call answer for an earlier input.)",
    )
    n_funcs = 0
    for mod, qual, fn in prog.functions():
        key = _modkey(mod)
        if not key.startswith(PURE_SCOPE):
            continue
        n_funcs += 1
        construct = f"{key}:{qual}"
        bad: List[Tuple[ast.AST, str]] = []
        # (a) memoising decorators
        for deco in fn.decorator_list:  # type: ignore[attr-defined]
            target = deco.func if isinstance(deco, ast.Call) else deco
            name = dotted(target) or ""
            if name.split(".")[-1] in MEMO_DECORATORS:
                bad.append((deco, f"decorator `@{short(deco)}` keeps results across calls, keyed by hash/equality of the arguments"))
        # (b) mutable default used as a table
        args = fn.args  # type: ignore[attr-defined]
        pos = args.posonlyargs + args.args
        defaults = [None] * (len(pos) - len(args.defaults)) + list(args.defaults)
        pairs = list(zip(pos, defaults)) + list(zip(args.kwonlyargs, args.kw_defaults))
        for arg, default in pairs:
            if _is_mutable_literal(default):
                if _mutated_in(fn, arg.arg):
                    bad.append((default, f"mutable default of parameter `{arg.arg}` is written in the body: it is shared by all calls"))
        # (c) module-level state
        mod_names = _module_level_names(mod)
        locals_ = _local_names(fn)
        for node in walk_no_nested(fn):
            if isinstance(node, ast.Global):
                for name in node.names:
                    if _assigned_in(fn, name):
                        bad.append((node, f"`global {name}` is assigned in the body"))
            target = None
            what = ""
            if isinstance(node, (ast.Assign, ast.AugAssign, ast.AnnAssign, ast.Delete)):
                tgts = node.targets if isinstance(node, (ast.Assign, ast.Delete)) else [node.target]
                for tgt in tgts:
                    if isinstance(tgt, (ast.Subscript, ast.Attribute)):
                        root = _root_name(tgt)
                        if root and root not in locals_ and _is_module_state(prog, mod, root, mod_names):
                            bad.append((node, f"`{short(node, 70)}` writes into module-level object `{root}`"))
            elif isinstance(node, ast.Call) and isinstance(node.func, ast.Attribute) and node.func.attr in MUTATORS:
                root = _root_name(node.func.value)
                if root and root not in locals_ and _is_module_state(prog, mod, root, mod_names):
                    bad.append((node, f"`{short(node, 70)}` mutates module-level object `{root}`"))
            del target, what
        # (e) shallow copy of a module-level container whose values are themselves mutable, then written through
        for node in walk_no_nested(fn):
            if not (isinstance(node, (ast.Assign, ast.AnnAssign)) and node.value is not None):
                continue
            tgt = node.targets[0] if isinstance(node, ast.Assign) and len(node.targets) == 1 else getattr(node, "target", None)
            if not isinstance(tgt, ast.Name):
                continue
            src = _shallow_copy_of(node.value)
            if src is None or src in locals_ or not _is_module_state(prog, mod, src, mod_names):
                continue
            literal = mod_names.get(src)
            if literal is None or not _has_nested_mutable(literal):
                continue
            if _written_through(prog, mod, fn, tgt.id, depth=2):
                bad.append((node, f"`{short(node, 70)}` is a shallow copy of module-level `{src}`, whose inner containers stay shared, and is then written through: every call appends to the same lists"))
        # (d) results cached on `self` outside the constructor (classes that are mutable by design are listed)
        owner_cls = _owner_class(prog, mod, qual)
        if (
            owner_cls is not None
            and fn.name not in ("__init__", "__post_init__", "__new__", "__setstate__")  # type: ignore[attr-defined]
            and f"{key}:{owner_cls.name}" not in MUTABLE_BY_DESIGN
        ):
            for node in walk_no_nested(fn):
                if isinstance(node, (ast.Assign, ast.AugAssign, ast.AnnAssign)):
                    tgts = node.targets if isinstance(node, ast.Assign) else [node.target]
                    for tgt in tgts:
                        base = tgt
                        while isinstance(base, ast.Subscript):
                            base = base.value
                        if isinstance(base, ast.Attribute) and isinstance(base.value, ast.Name) and base.value.id == "self":
                            bad.append((node, f"`{short(node, 70)}` stores state on the object outside its constructor (a cached result outlives later changes of what it was computed from)"))
                elif isinstance(node, ast.Call):
                    name = dotted(node.func) or ""
                    if name.endswith("__setattr__") or name == "setattr":
                        if node.args and isinstance(node.args[0], ast.Name) and node.args[0].id == "self":
                            bad.append((node, f"`{short(node, 70)}` stores state on a (frozen) object outside its constructor"))
        if bad:
            for node, why in bad:
                res.fail(construct, why, mod, node)
        else:
            res.ok(construct, "no state survives a call", nontrivial=bool(fn.body))  # type: ignore[attr-defined]
    if n_funcs < 100:
        raise AnalysisError(f"SOLVER-STATELESS: only {n_funcs} functions found under compute/, model/, utils/")
    return res


def _shallow_copy_of(value: ast.AST) -> Optional[str]:
    if isinstance(value, ast.Call):
        name = dotted(value.func) or ""
        if name in ("dict", "list", "set", "copy", "copy.copy") and len(value.args) == 1 and isinstance(value.args[0], ast.Name):
            return value.args[0].id
        if isinstance(value.func, ast.Attribute) and value.func.attr == "copy" and not value.args and isinstance(value.func.value, ast.Name):
            return value.func.value.id
    if isinstance(value, ast.Dict) and len(value.keys) == 1 and value.keys[0] is None and isinstance(value.values[0], ast.Name):
        return value.values[0].id
    if isinstance(value, ast.Name):
        return value.id  # plain alias
    return None


def _has_nested_mutable(literal: ast.AST) -> bool:
    if isinstance(literal, ast.Dict):
        return any(_is_mutable_literal(v) for v in literal.values)
    if isinstance(literal, (ast.List, ast.Set, ast.Tuple)):
        return any(_is_mutable_literal(v) for v in literal.elts)
    return False


def _written_through(prog: Program, mod: Module, fn: ast.AST, name: str, depth: int) -> bool:
    """Is an inner container of `name` mutated in `fn`, or in a package function that receives `name`?"""
    for node in ast.walk(fn):
        if isinstance(node, ast.Call) and isinstance(node.func, ast.Attribute) and node.func.attr in MUTATORS:
            recv = node.func.value
            if isinstance(recv, ast.Subscript) and _root_name(recv) == name:
                return True
        if isinstance(node, (ast.Assign, ast.AugAssign)):
            tgts = node.targets if isinstance(node, ast.Assign) else [node.target]
            for tgt in tgts:
                if isinstance(tgt, ast.Subscript) and isinstance(tgt.value, ast.Subscript) and _root_name(tgt) == name:
                    return True
                if isinstance(node, ast.AugAssign) and isinstance(tgt, ast.Subscript) and _root_name(tgt) == name:
                    return True  # x[k] += [...] extends the shared inner list
    if depth <= 0:
        return False
    for call in ast.walk(fn):
        if not isinstance(call, ast.Call):
            continue
        passed = [(i, a) for i, a in enumerate(call.args) if isinstance(a, ast.Name) and a.id == name]
        passed_kw = [k.arg for k in call.keywords if isinstance(k.value, ast.Name) and k.value.id == name and k.arg]
        if not passed and not passed_kw:
            continue
        target = resolve_callee(prog, mod, call.func)
        if target is None and isinstance(call.func, ast.Name):
            local = [n for n in ast.walk(fn) if isinstance(n, FuncNode) and n.name == call.func.id]
            target = (mod, local[0]) if local else None
        if target is None or not isinstance(target[1], FuncNode):
            continue
        params = func_params(target[1])
        names = [params[i] for i, _a in passed if i < len(params)] + [k for k in passed_kw if k in params]
        for pname in names:
            if _written_through(prog, target[0], target[1], pname, depth - 1):
                return True
    return False


def _owner_class(prog: Program, mod: Module, qual: str) -> Optional[ast.ClassDef]:
    if "." not in qual:
        return None
    owner = prog.defs(mod.name).get(qual.rsplit(".", 1)[0])
    return owner if isinstance(owner, ast.ClassDef) else None


def _mutated_in(fn: ast.AST, name: str) -> bool:
    for node in ast.walk(fn):
        if isinstance(node, (ast.Assign, ast.AugAssign, ast.Delete)):
            tgts = node.targets if isinstance(node, (ast.Assign, ast.Delete)) else [node.target]
            for tgt in tgts:
                if isinstance(tgt, ast.Subscript) and _root_name(tgt) == name:
                    return True
        if isinstance(node, ast.Call) and isinstance(node.func, ast.Attribute) and node.func.attr in MUTATORS:
            if _root_name(node.func.value) == name:
                return True
    return False


def _assigned_in(fn: ast.AST, name: str) -> bool:
    for node in walk_no_nested(fn):
        if isinstance(node, ast.Name) and node.id == name and not isinstance(node.ctx, ast.Load):
            return True
    return False


def _is_module_state(prog: Program, mod: Module, name: str, mod_names: Dict[str, ast.AST]) -> bool:
    """`name` denotes a module-level object of the package (defined here or imported from a package module)."""
    if name in mod_names:
        return True
    res = resolve_name(prog, mod, name)
    if res is not None and not isinstance(res[1], FuncNode + (ast.ClassDef,)):
        return True
    from ..resolve import import_table

    imp = import_table(prog, mod).get(name)
    if imp and imp[0] in prog.modules and imp[1] is not None:
        target = prog.modules[imp[0]]
        return imp[1] in _module_level_names(target)
    return False


# ---------------------------------------------------------------------------


def recurse_forward(prog: Program) -> RuleResult:
    res = RuleResult(
        "RECURSE-FORWARD",
        "a recursive generator that takes a constraint parameter (a parameter with a default that some "
        "recursive call forwards unchanged) forwards it in every recursive call: a call that drops it lifts the "
        "constraint for the whole subtree explored from there (belief inferred from the function's own sibling "
        "calls; instances confirmed by hand: utils.trees.graft/ignore)",
    )
    found = 0
    for mod, qual, fn in prog.functions():
        key = _modkey(mod)
        if "." in qual:
            continue
        params = func_params(fn)
        args = fn.args  # type: ignore[attr-defined]
        n_def = len(args.defaults)
        defaulted = [a.arg for a in (args.posonlyargs + args.args)[len(args.posonlyargs + args.args) - n_def:]] if n_def else []
        defaulted += [a.arg for a, d in zip(args.kwonlyargs, args.kw_defaults) if d is not None]
        if not defaulted:
            continue
        rec_calls = [
            c for c in ast.walk(fn)
            if isinstance(c, ast.Call) and isinstance(c.func, ast.Name) and c.func.id == fn.name  # type: ignore[attr-defined]
        ]
        if len(rec_calls) < 1:
            continue
        for pname in defaulted:
            idx = params.index(pname)
            forwards = []
            for call in rec_calls:
                passed = None
                if len(call.args) > idx and not any(isinstance(a, ast.Starred) for a in call.args[: idx + 1]):
                    passed = call.args[idx]
                for kw in call.keywords:
                    if kw.arg == pname:
                        passed = kw.value
                    if kw.arg is None:
                        passed = kw.value  # **kwargs: cannot tell, assume forwarded
                forwards.append((call, passed))
            n_fwd = sum(1 for _c, p in forwards if p is not None)
            if n_fwd == 0:
                continue  # the parameter is not a propagated constraint
            if not _reassigned(fn, pname) or True:
                found += 1
                construct = f"{key}:{qual}/forward[{pname}]"
                dropped = [c for c, p in forwards if p is None]
                if dropped:
                    for call in dropped:
                        res.fail(
                            construct,
                            f"recursive call `{short(call, 60)}` does not pass `{pname}` although "
                            f"{n_fwd} sibling call(s) do: the constraint is lost below this call",
                            mod,
                            call,
                        )
                else:
                    res.ok(construct, f"{len(forwards)} recursive calls, all forward `{pname}`")
    res.floor(1)
    return res


def _reassigned(fn: ast.AST, name: str) -> bool:
    return any(isinstance(n, ast.Name) and n.id == name and not isinstance(n.ctx, ast.Load) for n in ast.walk(fn))


# ---------------------------------------------------------------------------


VALUE_EQ_BASES = {"NamedTuple", "tuple", "str", "int", "frozenset", "typing.NamedTuple"}


def identity_keys(prog: Program) -> RuleResult:
    res = RuleResult(
        "IDENTITY-KEYS",
        "a class whose instances are created without arguments to stand for distinct virtual nodes and are "
        "used as dictionary keys / set elements (render.model.PseudoGene: one per full loss) compares and "
        "hashes by identity: it has no value-equality base (NamedTuple, tuple, dataclass with eq) and "
        "defines neither __eq__ nor __hash__ - otherwise two losses collapse into one entry",
    )
    n = 0
    for mod, qual, node in [(m, q, d) for m in prog.modules.values() for q, d in prog.defs(m.name).items()]:
        if not isinstance(node, ast.ClassDef) or "." in qual:
            continue
        # instantiated with no arguments somewhere in the package and the instance is used as key / element
        uses = _zero_arg_instances(prog, node.name)
        if not uses:
            continue
        keyed = [u for u in uses if u[2]]
        if not keyed:
            continue
        n += 1
        construct = f"{_modkey(mod)}:{node.name}/identity"
        why = []
        for base in node.bases:
            bname = dotted(base) or short(base)
            if bname in VALUE_EQ_BASES or bname.split(".")[-1] in VALUE_EQ_BASES:
                why.append(f"base `{bname}` compares by value")
        for deco in node.decorator_list:
            dname = dotted(deco.func if isinstance(deco, ast.Call) else deco) or ""
            if dname.split(".")[-1] == "dataclass":
                eq_off = isinstance(deco, ast.Call) and any(
                    kw.arg == "eq" and isinstance(kw.value, ast.Constant) and kw.value.value is False for kw in deco.keywords
                )
                if not eq_off:
                    why.append("@dataclass generates a value __eq__")
        for stmt in node.body:
            if isinstance(stmt, FuncNode) and stmt.name in ("__eq__", "__hash__"):
                why.append(f"defines {stmt.name}")
        if why:
            res.fail(
                construct,
                f"instances of {node.name} are created per virtual node ({len(uses)} sites) and used as keys "
                f"({short(keyed[0][1], 60)}), but " + "; ".join(why) + ": all instances are equal",
                mod,
                node,
            )
        else:
            res.ok(construct, f"{len(uses)} creation sites, {len(keyed)} used as key/element; identity semantics")
    res.floor(1)
    return res


def _zero_arg_instances(prog: Program, clsname: str):
    """(module, creation call, used-as-key?) for every `Cls()` in the package."""
    out = []
    for mod, qual, fn in prog.functions():
        for call in ast.walk(fn):
            if isinstance(call, ast.Call) and isinstance(call.func, ast.Name) and call.func.id == clsname and not call.args and not call.keywords:
                res = resolve_name(prog, mod, clsname)
                if res is None or not isinstance(res[1], ast.ClassDef):
                    continue
                # the variable it is bound to
                par = mod.parent(call)
                var = None
                if isinstance(par, ast.Assign) and len(par.targets) == 1 and isinstance(par.targets[0], ast.Name):
                    var = par.targets[0].id
                keyed = False
                if var:
                    for sub in ast.walk(fn):
                        if isinstance(sub, ast.Subscript) and isinstance(sub.slice, ast.Name) and sub.slice.id == var:
                            keyed = True
                        if (
                            isinstance(sub, ast.Call)
                            and isinstance(sub.func, ast.Attribute)
                            and sub.func.attr in ("add", "append")
                            and any(isinstance(a, ast.Name) and a.id == var for a in sub.args)
                        ):
                            keyed = True
                out.append((mod, call, keyed))
    return out


# ---------------------------------------------------------------------------


def readonly_graph(prog: Program) -> RuleResult:
    res = RuleResult(
        "READONLY-GRAPH",
        "the topological sorters never mutate the graph they are given nor the successor sets stored in it "
        "(the caller's graph is used again by the next call, and two vertices may share one successor set)",
    )
    modname = "utils.toposort"
    mod = prog.module(modname)
    n = 0
    for qual, fn in prog.defs(modname).items():
        if not isinstance(fn, FuncNode) or "." in qual:
            continue
        params = func_params(fn)
        if "graph" not in params:
            continue
        n += 1
        construct = f"{modname}:{qual}/graph-readonly"
        # names aliasing the graph or a value stored in it
        alias: Set[str] = {"graph"}
        changed = True
        while changed:
            changed = False
            for node in walk_no_nested(fn):
                tgt_val = None
                if isinstance(node, ast.Assign) and len(node.targets) == 1 and isinstance(node.targets[0], ast.Name):
                    tgt_val = (node.targets[0].id, node.value)
                elif isinstance(node, ast.For) and isinstance(node.target, ast.Name):
                    # iterating the graph yields keys (immutable vertices); iterating .values()/.items() yields the sets
                    it = node.iter
                    if isinstance(it, ast.Call) and isinstance(it.func, ast.Attribute) and it.func.attr in ("values",) and _root_name(it.func.value) in alias:
                        tgt_val = (node.target.id, it)
                elif isinstance(node, ast.For) and isinstance(node.target, ast.Tuple):
                    it = node.iter
                    if isinstance(it, ast.Call) and isinstance(it.func, ast.Attribute) and it.func.attr == "items" and _root_name(it.func.value) in alias:
                        for elt in node.target.elts[1:]:
                            if isinstance(elt, ast.Name) and elt.id not in alias:
                                alias.add(elt.id)
                                changed = True
                if tgt_val:
                    name, val = tgt_val
                    if name in alias:
                        continue
                    if _shares_graph(val, alias):
                        alias.add(name)
                        changed = True
        bad = []
        for node in walk_no_nested(fn):
            if isinstance(node, (ast.Assign, ast.AugAssign, ast.Delete)):
                tgts = node.targets if isinstance(node, (ast.Assign, ast.Delete)) else [node.target]
                for tgt in tgts:
                    if isinstance(tgt, ast.Subscript) and _root_name(tgt) in alias:
                        bad.append(node)
                    if isinstance(node, ast.AugAssign) and isinstance(tgt, ast.Name) and tgt.id in alias and tgt.id != "graph":
                        bad.append(node)
            elif isinstance(node, ast.Call) and isinstance(node.func, ast.Attribute) and node.func.attr in MUTATORS:
                if _root_name(node.func.value) in alias:
                    bad.append(node)
        if bad:
            for node in bad:
                res.fail(construct, f"`{short(node, 70)}` mutates the caller's graph (aliases: {sorted(alias)})", mod, node)
        else:
            res.ok(construct, f"no mutation through {sorted(alias)}")
    res.floor(3)
    return res


def _shares_graph(val: ast.AST, alias: Set[str]) -> bool:
    """Does the expression evaluate to the graph itself or to an object stored in it (not a copy)?"""
    if isinstance(val, ast.Name):
        return val.id in alias
    if isinstance(val, ast.Subscript):
        return _root_name(val) in alias
    if isinstance(val, ast.Call) and isinstance(val.func, ast.Attribute) and val.func.attr in ("get", "setdefault", "pop"):
        return _root_name(val.func.value) in alias
    return False


RULES = {
    "SOLVER-STATELESS": solver_stateless,
    "RECURSE-FORWARD": recurse_forward,
    "IDENTITY-KEYS": identity_keys,
    "READONLY-GRAPH": readonly_graph,
}
