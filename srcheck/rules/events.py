"""Decision tables over finite relational models (relmodel.py): EVENT-TABLE, CONSERVED-SIDE."""
from __future__ import annotations

import ast
from typing import Dict, List, Optional, Tuple

from ..core import AnalysisError, Program, RuleResult, dotted, short, walk_no_nested
from ..flow import guards
from ..relmodel import FnEval, RelEval, TreeModel, Undefined, run_block
from ..resolve import method_def

MODEL = "model.reconciliation"


def _node_param(fn: ast.AST) -> str:
    params = [a.arg for a in fn.args.args if a.arg != "self"]  # type: ignore[attr-defined]
    if len(params) != 1:
        raise AnalysisError(f"{fn.name}: expected a single node parameter")  # type: ignore[attr-defined]
    return params[0]


class _RecBinder:
    """`<mapping>[<node>]`, `<mapping>[<node>.children[k]]` -> n / l / r ; `leaf_object_species[<node>]` -> g."""

    def __init__(self, fn: ast.AST, node_param: str, env: Dict[str, int]):
        self.fn = fn
        self.node_param = node_param
        self.env = env

    def _which(self, key: ast.AST, depth: int = 0) -> Optional[str]:
        from ..flow import Opaque, reaching

        if isinstance(key, ast.Name):
            if key.id == self.node_param:
                return "n"
            if hasattr(key, "lineno") and depth < 6:
                found = reaching(self.fn, key.id, key)
                if found is not None and not isinstance(found, Opaque):
                    return self._which(found, depth + 1)
            return None
        if (
            isinstance(key, ast.Subscript)
            and isinstance(key.value, ast.Attribute)
            and key.value.attr == "children"
            and isinstance(key.slice, ast.Constant)
            and key.slice.value in (0, 1)
            and self._which(key.value.value, depth + 1) == "n"
        ):
            return "lr"[key.slice.value]
        return None

    def _mapping_kind(self, expr: ast.AST, depth: int = 0) -> Optional[str]:
        from ..flow import Opaque, reaching

        name = dotted(expr)
        if name and name.endswith("leaf_object_species"):
            return "given"
        if name and name.endswith("object_species"):
            return "rec"
        if isinstance(expr, ast.Name) and hasattr(expr, "lineno") and depth < 6:
            found = reaching(self.fn, expr.id, expr)
            if found is not None and not isinstance(found, Opaque):
                return self._mapping_kind(found, depth + 1)
        return None

    def __call__(self, node: ast.AST) -> Optional[int]:
        if isinstance(node, ast.Subscript):
            kind = self._mapping_kind(node.value)
            which = self._which(node.slice)
            if kind == "rec" and which:
                return self.env[which]
            if kind == "given" and which == "n":
                return self.env["g"]
        return None


def event_table(prog: Program) -> RuleResult:
    from .model_spec import EVENT_SENTENCES, model_event

    res = RuleResult(
        "EVENT-TABLE",
        "node_event touches species only through order comparisons, so it is a decision table over the order "
        "types of (node species, first child species, second child species); that table, extracted from the "
        "syntax tree over every triple of nodes of a complete binary tree of depth 3, equals the documented "
        "classification (rules/model_spec.py: model_event)",
    )
    mod = prog.module(MODEL)
    out = prog.cls(MODEL, "ReconciliationOutput")
    fn = method_def(out, "node_event")
    if fn is None:
        raise AnalysisError("node_event not found")
    node_param = _node_param(fn)
    model = TreeModel(3)
    # the kind of an event is a fact about the mapping: the classifier does not look at the unit costs
    priced = [a for a in ast.walk(fn) if isinstance(a, ast.Attribute) and a.attr == "costs"]
    if priced:
        res.fail(
            f"{MODEL}:ReconciliationOutput.node_event/cost-free",
            f"node_event reads `{short(priced[0], 60)}`: the kind of a node would change with the cost vector, while the drawing, the "
            "evaluator and the documented classification name it from the species of the node and of its children only",
            mod,
            priced[0],
        )
        return res

    def is_leaf_pred(value: bool):
        def pred(expr: ast.AST) -> Optional[bool]:
            if (
                isinstance(expr, ast.Call)
                and isinstance(expr.func, ast.Attribute)
                and expr.func.attr == "is_leaf"
                and dotted(expr.func.value) == node_param
                and not expr.args
            ):
                return value
            return None

        return pred

    def member(value: Optional[ast.AST]) -> str:
        name = dotted(value) if value is not None else None
        if not name or not name.startswith("NodeEvent."):
            raise AnalysisError(f"node_event returns `{short(value)}`, not a NodeEvent member")
        return name.split(".", 1)[1]

    # internal nodes
    mismatches: Dict[Tuple[str, str], Tuple[int, Tuple[int, int, int]]] = {}
    counts: Dict[str, int] = {}
    for n in model.nodes:
        for l in model.nodes:
            for r in model.nodes:
                env = {"n": n, "l": l, "r": r, "g": n}
                ev = FnEval(model, fn, ("species_lca",), _RecBinder(fn, node_param, env), is_leaf_pred(False))
                got = run_block(fn.body, ev)
                if got is None or got[0] != "return":
                    raise AnalysisError("node_event: a path does not end in `return <member>`")
                code = member(got[1])
                want = model_event(model, n, l, r)
                counts[want] = counts.get(want, 0) + 1
                if code != want:
                    key = (code, want)
                    if key not in mismatches:
                        mismatches[key] = (0, (n, l, r))
                    mismatches[key] = (mismatches[key][0] + 1, mismatches[key][1])
    for kind in ("SPECIATION", "DUPLICATION", "HORIZONTAL_TRANSFER", "INVALID"):
        construct = f"{MODEL}:ReconciliationOutput.node_event/table/{kind}"
        bad = {k: v for k, v in mismatches.items() if kind in k}
        if not bad:
            res.ok(construct, f"{counts.get(kind, 0)} of {len(model.nodes) ** 3} configurations: {EVENT_SENTENCES[kind]}")
        else:
            parts = []
            for (code, want), (cnt, (n, l, r)) in sorted(bad.items()):
                parts.append(
                    f"{cnt} configurations classified {code} where the model says {want} "
                    f"(e.g. {model.describe(('node', 'first child', 'second child'), (n, l, r))}, "
                    f"LCA of the children {'=' if model.lca(l, r) == n else '!='} node)"
                )
            res.fail(
                construct,
                f"node_event disagrees with the documented classification [{EVENT_SENTENCES[kind]}]: " + "; ".join(parts),
                mod,
                fn,
            )
    # leaves: LEAF iff the node is mapped to its given species
    bad_leaf = []
    for n in model.nodes[:7]:
        for g in model.nodes[:7]:
            env = {"n": n, "l": n, "r": n, "g": g}
            ev = FnEval(model, fn, ("species_lca",), _RecBinder(fn, node_param, env), is_leaf_pred(True))
            got = run_block(fn.body, ev)
            if got is None or got[0] != "return":
                raise AnalysisError("node_event: the leaf path does not end in `return <member>`")
            code = member(got[1])
            want = "LEAF" if n == g else "INVALID"
            if code != want:
                bad_leaf.append((n, g, code, want))
    construct = f"{MODEL}:ReconciliationOutput.node_event/table/LEAF"
    if bad_leaf:
        n, g, code, want = bad_leaf[0]
        res.fail(
            construct,
            f"a leaf mapped to {'its given species' if n == g else 'another species than the given one'} is "
            f"classified {code}, expected {want}",
            mod,
            fn,
        )
    else:
        res.ok(construct, "LEAF iff the leaf is mapped to its given species, INVALID otherwise")
    return res


# ---------------------------------------------------------------------------


def conserved_side(prog: Program) -> RuleResult:
    """Every selection between the two children that is made under `event == HORIZONTAL_TRANSFER`
    in the evaluator picks the child that stays at or below the node's species."""
    res = RuleResult(
        "CONSERVED-SIDE",
        "wherever the evaluator chooses between the two children of a transfer node (full losses of the "
        "conserved branch, free end runs / free edge of the transferred copy) the test it uses is true "
        "exactly when the first child is the conserved one, over every transfer configuration of the "
        "relational model",
    )
    mod = prog.module(MODEL)
    model = TreeModel(3)
    from .model_spec import model_event

    configs = [
        (n, l, r)
        for n in model.nodes
        for l in model.nodes
        for r in model.nodes
        if model_event(model, n, l, r) == "HORIZONTAL_TRANSFER"
    ]
    sites = 0
    for clsname, meth in (
        ("ReconciliationOutput", "_cost_rec"),
        ("SuperReconciliationOutput", "_ordered_labeling_cost"),
        ("SuperReconciliationOutput", "_unordered_labeling_cost"),
    ):
        fn = method_def(prog.cls(MODEL, clsname), meth)
        if fn is None:
            raise AnalysisError(f"{meth} not found")
        tests: List[Tuple[ast.AST, ast.AST]] = []
        seen = set()
        for call in walk_no_nested(fn):
            if not (isinstance(call, ast.Call) and isinstance(call.func, ast.Attribute) and call.func.attr in ANC_NAMES):
                continue
            gs = guards(fn, call)
            if not any(pol and _is_hgt(g) for g, pol in gs) and not _after_hgt_assert(fn, call):
                continue
            # maximal boolean expression around the call
            top: ast.AST = call
            while True:
                par = mod.parent(top)
                if isinstance(par, ast.BoolOp) or (isinstance(par, ast.UnaryOp) and isinstance(par.op, ast.Not)):
                    top = par
                else:
                    break
            if id(top) in seen:
                continue
            seen.add(id(top))
            tests.append((top, top))
        if not tests:
            res.fail(
                f"{MODEL}:{clsname}.{meth}/transfer-side",
                f"{meth} has no test on which child of a transfer stays at or below the node's species: the "
                "conserved / transferred roles are fixed by the mapping in the documented model",
                mod,
                fn,
            )
        for idx, (node, test) in enumerate(tests):
            sites += 1
            construct = f"{MODEL}:{clsname}.{meth}/transfer-side#{idx}"
            node_param = _loop_or_param(fn, node)
            truth_first = []
            for n, l, r in configs:
                env = {"n": n, "l": l, "r": r, "g": n}
                ev = FnEval(model, fn, ("species_lca",), _RecBinder(fn, node_param, env))
                try:
                    truth_first.append((ev.truth(test), model.anc(n, l), (n, l, r)))
                except Undefined:
                    continue
            same = all(t == c for t, c, _cfg in truth_first)
            opposite = all(t != c for t, c, _cfg in truth_first)
            if same or opposite:
                res.ok(construct, f"`{short(test, 70)}` is {'true' if same else 'false'} exactly when the first child is conserved ({len(truth_first)} transfer configurations)")
                node.__dict__["_conserved_when_true"] = "a" if same else "b"
            else:
                ex = next(cfg for t, c, cfg in truth_first if t != c) if not same else None
                res.fail(
                    construct,
                    f"`{short(test, 90)}` does not separate the conserved child from the transferred one: "
                    f"e.g. {model.describe(('node', 'first child', 'second child'), ex)}",
                    mod,
                    node,
                )
    res.floor(3)
    return res


ANC_NAMES = ("is_ancestor_of", "is_strict_ancestor_of", "is_comparable")


def _is_hgt(test: ast.AST) -> bool:
    if isinstance(test, ast.Compare) and len(test.ops) == 1 and isinstance(test.ops[0], ast.Eq):
        return any(dotted(s) == "NodeEvent.HORIZONTAL_TRANSFER" for s in (test.left, test.comparators[0]))
    return False


def _after_hgt_assert(fn: ast.AST, node: ast.AST) -> bool:
    from ..flow import _stmt_chain

    for block, idx, _f, _o in _stmt_chain(fn, node):
        for prev in block[:idx]:
            if isinstance(prev, ast.Assert) and _is_hgt(prev.test):
                return True
    return False


def _loop_or_param(fn: ast.AST, at: ast.AST) -> str:
    """Name of the variable holding the current object node at `at`: the loop variable of the enclosing
    traversal loop, or the method's node parameter."""
    from ..flow import loops_around

    for loop in reversed(loops_around(fn, at)):
        if isinstance(loop, ast.For) and isinstance(loop.target, ast.Name):
            return loop.target.id
    params = [a.arg for a in fn.args.args if a.arg != "self"]  # type: ignore[attr-defined]
    if params:
        return params[0]
    raise AnalysisError(f"{fn.name}: current node variable not recognised")  # type: ignore[attr-defined]


RULES = {
    "EVENT-TABLE": event_table,
    "CONSERVED-SIDE": conserved_side,
}


# ---------------------------------------------------------------------------
# left / right roles of the layout branches


def layout_sides(prog: Program) -> RuleResult:
    """Symbolic execution of the event handlers of render.layout._compute_branches over the relational model."""
    from .model_spec import model_event

    res = RuleResult(
        "LAYOUT-SIDES",
        "for every configuration of (node species, child species, child species) of the kind a handler of "
        "_compute_branches is written for, the branch it stores has as `left` a lineage that lives below the first "
        "child species and as `right` one below the second child species (speciation), resp. the conserved child "
        "as `left` and the transferred child as `right` (transfer); and every _add_losses call passes the species "
        "of the very gene it is given. The drawing code reads layout[left species].anchors[branch.left]: a "
        "branch whose sides are crossed references an anchor that does not exist",
    )
    modname = "render.layout"
    mod = prog.module(modname)
    fn = prog.func(modname, "_compute_branches")
    model = TreeModel(3)
    # locate the handlers: `if event == NodeEvent.K:` chain
    handlers: Dict[str, List[ast.stmt]] = {}
    for node in ast.walk(fn):
        if isinstance(node, ast.If) and isinstance(node.test, ast.Compare) and len(node.test.ops) == 1 and isinstance(node.test.ops[0], ast.Eq):
            name = dotted(node.test.comparators[0]) or dotted(node.test.left) or ""
            if name.startswith("NodeEvent.") and isinstance(node.test.left, ast.Name):
                handlers[name.split(".")[1]] = node.body
    for kind in ("SPECIATION", "DUPLICATION", "HORIZONTAL_TRANSFER"):
        if kind not in handlers:
            raise AnalysisError(f"_compute_branches: handler of {kind} not found")
    # the unpacking `left_gene, right_gene = root_gene.children`
    unpack = None
    handler_nodes = {id(x) for body in handlers.values() for st0 in body for x in ast.walk(st0)}
    for st in sorted((x for x in ast.walk(fn) if isinstance(x, ast.Assign)), key=lambda x: x.lineno):
        if id(st) in handler_nodes:
            continue  # an unpacking inside a handler concerns the species, not the object node
        if isinstance(st, ast.Assign) and isinstance(st.targets[0], ast.Tuple) and isinstance(st.value, ast.Attribute) and st.value.attr == "children":
            if len(st.targets[0].elts) == 2 and all(isinstance(e, ast.Name) for e in st.targets[0].elts) and unpack is None:
                unpack = [e.id for e in st.targets[0].elts]
                node_var = dotted(st.value.value)
    if unpack is None:
        raise AnalysisError("_compute_branches: `left, right = <gene>.children` not found")
    # roles of the locals the handlers use
    oracle_names = {"species_lca"} | {
        t.id for st in ast.walk(fn) if isinstance(st, ast.Assign) and isinstance(st.value, ast.Attribute) and st.value.attr == "species_lca"
        for t in st.targets if isinstance(t, ast.Name)
    }
    mapping_names = {
        t.id for st in ast.walk(fn) if isinstance(st, ast.Assign) and isinstance(st.value, ast.Attribute) and st.value.attr == "object_species"
        for t in st.targets if isinstance(t, ast.Name)
    } | {
        dotted(x) for x in ast.walk(fn) if isinstance(x, ast.Attribute) and x.attr == "object_species" and isinstance(x.ctx, ast.Load) and dotted(x) is not None
    } or {"mapping"}
    species_var = "root_species"
    for loop in ast.walk(fn):
        if isinstance(loop, ast.For) and isinstance(loop.target, ast.Name) and isinstance(loop.iter, ast.Call) and isinstance(loop.iter.func, ast.Attribute) and loop.iter.func.attr == "traverse":
            if any(isinstance(x, ast.For) for st0 in loop.body for x in ast.walk(st0)):
                species_var = loop.target.id
                break
    for kind, body in handlers.items():
        configs = [(n, l, r) for n in model.nodes for l in model.nodes for r in model.nodes if model_event(model, n, l, r) == kind]
        construct = f"{modname}:_compute_branches/{kind}/sides"
        bad = None
        checked = 0
        for n, l, r in configs:
            if kind == "SPECIATION" and not model.children(n):
                continue
            genes = {unpack[0]: "c0", unpack[1]: "c1"}
            species_of = {"c0": l, "c1": r}
            out = _run_handler(body, model, n, genes, species_of, node_var,
                               need_wrapped=("left",) if kind == "HORIZONTAL_TRANSFER" else ("left", "right"),
                               oracle_names=oracle_names, mapping_names=mapping_names, species_var=species_var)
            checked += 1
            if out is None:
                raise AnalysisError(f"{construct}: the handler does not store a branch with `left` and `right`")
            left_id, right_id, loss_problems = out
            problem = None
            if loss_problems:
                problem = loss_problems[0]
            elif kind == "SPECIATION":
                c0, c1 = model.children(n)
                if not (model.anc(c0, species_of[left_id]) and model.anc(c1, species_of[right_id])):
                    problem = "the `left` lineage is not below the first child species (or the `right` one not below the second)"
            elif kind == "HORIZONTAL_TRANSFER":
                if not (model.anc(n, species_of[left_id]) and not model.anc(n, species_of[right_id])):
                    problem = "`left` is not the conserved child / `right` is not the transferred child"
            elif kind == "DUPLICATION":
                if {left_id, right_id} != {"c0", "c1"}:
                    problem = "the two sides are not the two children"
            if problem and bad is None:
                bad = (problem, (n, l, r))
        if bad:
            problem, cfg = bad
            res.fail(
                construct,
                f"{problem} when {model.describe(('node species', 'first child', 'second child'), cfg)}",
                mod,
                body[0],
            )
        else:
            res.ok(construct, f"{checked} {kind.lower()} configurations: sides and loss arguments consistent")
    return res


def _run_handler(body, model: TreeModel, n: int, genes: Dict[str, str], species_of: Dict[str, int], node_var: str,
                 need_wrapped=("left", "right"), oracle_names=("species_lca",), mapping_names=("mapping",), species_var="root_species"):
    """Execute a handler block symbolically. Returns (left lineage, right lineage, problems) at the branch store."""
    species: Dict[str, int] = {}
    wrapped: set = set()
    problems: List[str] = []
    result: List[Tuple[str, str]] = []

    def gene_of(expr: ast.AST) -> Optional[str]:
        if isinstance(expr, ast.Name) and expr.id in genes:
            return genes[expr.id]
        return None

    def term(expr: ast.AST) -> Optional[int]:
        if isinstance(expr, ast.Name):
            if expr.id == species_var:
                return n
            if expr.id in species:
                return species[expr.id]
        if isinstance(expr, ast.Subscript) and dotted(expr.value) in mapping_names:
            g = gene_of(expr.slice)
            if g is not None:
                return species_of[g]
            if dotted(expr.slice) == node_var:
                return n
        return None

    ev = RelEval(model, term, oracle_names)

    def pair(expr: ast.AST) -> Optional[Tuple[str, str]]:
        if isinstance(expr, ast.Tuple) and len(expr.elts) == 2:
            a, b = gene_of(expr.elts[0]), gene_of(expr.elts[1])
            if a and b:
                return a, b
        if isinstance(expr, ast.IfExp):
            return pair(expr.body if ev.truth(expr.test) else expr.orelse)
        return None

    def run(stmts) -> None:
        for st in stmts:
            if isinstance(st, ast.If):
                run(st.body if ev.truth(st.test) else st.orelse)
                continue
            if isinstance(st, ast.Assign) and len(st.targets) == 1:
                tgt, val = st.targets[0], st.value
                if isinstance(tgt, ast.Tuple) and len(tgt.elts) == 2 and all(isinstance(e, ast.Name) for e in tgt.elts):
                    got = pair(val)
                    if got is not None:
                        genes[tgt.elts[0].id], genes[tgt.elts[1].id] = got
                        wrapped.discard(tgt.elts[0].id)
                        wrapped.discard(tgt.elts[1].id)
                        continue
                    # `a, b = <species>.children`
                    if isinstance(val, ast.Attribute) and val.attr == "children":
                        try:
                            base = ev.term(val.value)
                        except (AnalysisError, Undefined):
                            base = None
                        kids = model.children(base) if base is not None else []
                        if len(kids) == 2:
                            species[tgt.elts[0].id], species[tgt.elts[1].id] = kids
                            continue
                    raise AnalysisError(f"layout sides: `{short(st)}` is not an assignment of the two children")
                if isinstance(tgt, ast.Name):
                    if isinstance(val, ast.Call) and dotted(val.func) == "_add_losses":
                        args = val.args
                        g = gene_of(args[1]) if len(args) > 1 else None
                        if g is None:
                            raise AnalysisError(f"layout sides: `{short(val, 60)}` does not pass a child gene")
                        try:
                            start = ev.term(args[2])
                        except Undefined:
                            start = None
                        if start is not None and start != species_of[g]:
                            problems.append(f"`{short(val, 70)}` starts the losses of one child from the species of the other")
                        genes[tgt.id] = g
                        wrapped.add(tgt.id)
                        continue
                    g = gene_of(val)
                    if g is not None:
                        genes[tgt.id] = g
                        continue
                    try:
                        species[tgt.id] = ev.term(val)
                        continue
                    except (AnalysisError, Undefined):
                        continue  # name, synteny ... : not a role
                if isinstance(tgt, ast.Subscript) and isinstance(val, ast.Dict):
                    entries = {k.value: v for k, v in zip(val.keys, val.values) if isinstance(k, ast.Constant)}
                    if "left" in entries and "right" in entries:
                        a, b = gene_of(entries["left"]), gene_of(entries["right"])
                        if a is None or b is None:
                            raise AnalysisError("layout sides: `left`/`right` of the stored branch are not child genes")
                        result.append((a, b))
                        for side in need_wrapped:
                            var = entries[side]
                            if isinstance(var, ast.Name) and var.id not in wrapped:
                                problems.append(
                                    f"the `{side}` entry is `{var.id}`, which is not the value returned by _add_losses for that "
                                    "lineage: the chain of loss nodes between the child's species and this one is never linked"
                                )
                    continue
                continue
            if isinstance(st, (ast.Expr, ast.Pass, ast.Raise, ast.Assert, ast.AugAssign)):
                continue
            raise AnalysisError(f"layout sides: statement `{short(st)}` not supported")

    run(body)
    if not result:
        return None
    return result[-1][0], result[-1][1], problems


RULES["LAYOUT-SIDES"] = layout_sides


# ---------------------------------------------------------------------------
# the exhaustive enumerator offers every valid placement of a node exactly once


class _Stop(Exception):
    pass


def enum_placements(prog: Program) -> RuleResult:
    """Abstract execution of the placement loops of compute.exhaustive.generate_all over the relational model."""
    from .model_spec import model_event

    res = RuleResult(
        "ENUM-PLACEMENTS",
        "for every pair of placements of the two children (all 15 x 15 pairs of model species), the species at which "
        "generate_all places the parent - extracted by following its `while ... .up` walks and its transfer loop over "
        "the relational model - are exactly the species for which the documented classification is not INVALID, each "
        "yielded once. With the product over the children's enumerations (DECODE-PRODUCT) this is the induction step "
        "of 'every valid reconciliation exactly once'",
    )
    modname = "compute.exhaustive"
    mod = prog.module(modname)
    fn = prog.func(modname, "generate_all")
    model = TreeModel(3)
    node_var = None
    unpack = None
    for st in fn.body:
        if isinstance(st, ast.Assign) and isinstance(st.targets[0], ast.Tuple) and isinstance(st.value, ast.Attribute) and st.value.attr == "children":
            unpack = [dotted(e) for e in st.targets[0].elts]
            node_var = dotted(st.value.value)
    loops = [st for st in fn.body if isinstance(st, ast.For) and isinstance(st.iter, ast.Call) and (dotted(st.iter.func) or "").endswith("product")]
    if unpack is None or len(unpack) != 2 or len(loops) != 1:
        raise AnalysisError("generate_all: children unpacking / product loop not recognised")
    loop = loops[0]
    oracle_names = {"species_lca"} | {
        t.id for st in ast.walk(fn) if isinstance(st, ast.Assign) and isinstance(st.value, ast.Attribute) and st.value.attr == "species_lca"
        for t in st.targets if isinstance(t, ast.Name)
    }

    def run(l: int, r: int) -> List[int]:
        env: Dict[str, Optional[int]] = {}
        yields: List[int] = []
        steps = [0]

        def base(expr: ast.AST) -> Optional[int]:
            if isinstance(expr, ast.Name) and expr.id in env and env[expr.id] is not None:
                return env[expr.id]
            if isinstance(expr, ast.Subscript) and isinstance(expr.value, ast.Attribute) and expr.value.attr == "object_species":
                key = dotted(expr.slice)
                if key == unpack[0]:
                    return l
                if key == unpack[1]:
                    return r
            return None

        ev = RelEval(model, base, oracle_names)

        def value(expr: ast.AST) -> Optional[int]:
            """species term or None (parent of the root)"""
            if isinstance(expr, ast.Name) and expr.id in env:
                return env[expr.id]
            if isinstance(expr, ast.Constant) and expr.value is None:
                return None
            if isinstance(expr, ast.Attribute) and expr.attr == "up":
                inner = value(expr.value)
                if inner is None:
                    raise AnalysisError("generate_all: `.up` of None")
                return model.up(inner)
            return ev.term(expr)

        def truth(test: ast.AST) -> bool:
            if isinstance(test, ast.Compare) and len(test.ops) == 1 and isinstance(test.ops[0], (ast.Is, ast.IsNot, ast.Eq, ast.NotEq)):
                a, b = value(test.left), value(test.comparators[0])
                same = a == b
                return same if isinstance(test.ops[0], (ast.Is, ast.Eq)) else not same
            if isinstance(test, ast.UnaryOp) and isinstance(test.op, ast.Not):
                return not truth(test.operand)
            if isinstance(test, ast.BoolOp):
                vals = [truth(v) for v in test.values]
                return all(vals) if isinstance(test.op, ast.And) else any(vals)
            return ev.truth(test)

        def block(stmts) -> Optional[str]:
            for st in stmts:
                steps[0] += 1
                if steps[0] > 2000:
                    raise AnalysisError("generate_all: placement walk does not terminate on the model")
                if isinstance(st, ast.Assign) and len(st.targets) == 1 and isinstance(st.targets[0], ast.Name):
                    env[st.targets[0].id] = value(st.value)
                elif isinstance(st, ast.While):
                    while truth(st.test):
                        steps[0] += 1
                        if steps[0] > 2000:
                            raise AnalysisError("generate_all: placement walk does not terminate on the model")
                        out = block(st.body)
                        if out == "break":
                            break
                elif isinstance(st, ast.For) and isinstance(st.iter, (ast.Tuple, ast.List)) and isinstance(st.target, ast.Tuple):
                    for elt in st.iter.elts:
                        if not (isinstance(elt, ast.Tuple) and len(elt.elts) == len(st.target.elts)):
                            raise AnalysisError("generate_all: loop over pairs not recognised")
                        for t, v in zip(st.target.elts, elt.elts):
                            env[dotted(t)] = value(v)
                        out = block(st.body)
                        if out == "break":
                            break
                elif isinstance(st, ast.If):
                    out = block(st.body if truth(st.test) else st.orelse)
                    if out:
                        return out
                elif isinstance(st, ast.Continue):
                    return "continue"
                elif isinstance(st, ast.Break):
                    return "break"
                elif isinstance(st, ast.Expr) and isinstance(st.value, ast.Yield):
                    call = st.value.value
                    placed = None
                    for x in ast.walk(call):
                        if isinstance(x, ast.Dict):
                            for k, v in zip(x.keys, x.values):
                                if k is not None and dotted(k) == node_var:
                                    placed = value(v)
                    if placed is None:
                        raise AnalysisError("generate_all: a yielded output does not place the node")
                    yields.append(placed)
                elif isinstance(st, (ast.Pass, ast.Expr)):
                    continue
                else:
                    raise AnalysisError(f"generate_all: statement `{short(st)}` not supported by the placement walk")
            return None

        block(loop.body)
        return yields

    missing = extra = dup = None
    n_pairs = 0
    for l in model.nodes:
        for r in model.nodes:
            n_pairs += 1
            got = run(l, r)
            want = {n for n in model.nodes if model_event(model, n, l, r) != "INVALID"}
            if len(got) != len(set(got)) and dup is None:
                d = next(x for x in got if got.count(x) > 1)
                dup = (d, l, r)
            if want - set(got) and missing is None:
                missing = (sorted(want - set(got))[0], l, r)
            if set(got) - want and extra is None:
                extra = (sorted(set(got) - want)[0], l, r)
    names = ("parent", "first child", "second child")
    for label, found, text in (
        ("complete", missing, "is a valid placement ({ev}) that is never yielded"),
        ("sound", extra, "is yielded although the placement is INVALID"),
        ("once", dup, "is yielded more than once"),
    ):
        construct = f"{modname}:generate_all/placements/{label}"
        if found is None:
            res.ok(construct, f"{n_pairs} pairs of child placements")
        else:
            n, l, r = found
            res.fail(
                construct,
                f"parent {text.format(ev=model_event(model, n, l, r))} when {model.describe(names, (n, l, r))}",
                mod,
                loop,
            )
    return res


RULES["ENUM-PLACEMENTS"] = enum_placements
